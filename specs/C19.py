"""C19 — a calculation either completes or leaves its data bases untouched.

Route C units on the calculator skeleton: ACalculator::run (try/catch rewritten to structured exits, 5 must-fire rules),
the variable bookkeeping of ACalcDbToDb / ACalcDbVarCreator, and the _rollback of every calculator."""
from tools.vf import Fn, Unit

LMAX = 4   # capacity of each bookkeeping list

COMMON = """
#define LMAX %d
typedef _Bool bool;
#define true 1
#define false 0
#define messerr(...) ((void)0)
typedef struct { int a[LMAX]; int n; } ivec;      /* std::vector<int>, capacity LMAX (trusted model, straight-line) */
""" % LMAX


def ivec_ops():
    pb = ""
    return """
void ivec_push_back(ivec* v, int x) { __CPROVER_assert(v->n < LMAX, "modelled list capacity"); v->a[v->n] = x; v->n = v->n + 1; }
void ivec_assign(ivec* v, const int* src, int n) { __CPROVER_assert(0 <= n && n <= LMAX, "modelled list capacity"); v->n = n; for (int k = 0; k < LMAX; k++) if (k < n) v->a[k] = src[k]; }
void ivec_append(ivec* v, const int* src, int n) { for (int k = 0; k < LMAX; k++) if (k < n) ivec_push_back(v, src[k]); }
void ivec_clear(ivec* v) { v->n = 0; }
"""


# ------------------------------------------------------------------------------------------------------------------
# ACalculator::run
# ------------------------------------------------------------------------------------------------------------------
RUN_RW = [
    (r"\btry\b", "do", 1),
    (r"catch\s*\(const AException& e\)", "while (0); if (verif_thrown == 1)", 1),
    (r"catch\s*\(const std::exception& e\)", "else if (verif_thrown == 2)", 1),
    (r'my_throw\("[^"]*"\);', "{ if (!verif_thrown) verif_thrown = 1; break; }", 4),
    (r"e\.what\(\)", '""', 2),
]


def unit_run():
    prelude = COMMON + """
int verif_thrown;                 /* 0 none, 1 AException, 2 std::exception (a throwing stage = returns false with this preset) */
int g_stage;                      /* ghost: number of stages that have been entered */
int g_rollback;                   /* ghost: number of _rollback() calls */
int g_bad_order;                  /* ghost: a stage was entered out of order or after a failed one */
int g_failed;                     /* ghost: some stage has failed */
static bool stage(int k)
{
  if (g_stage != k || g_failed) g_bad_order = 1;
  g_stage = k + 1;
  if (W_throw[k]) { verif_thrown = W_throw[k]; g_failed = 1; return false; }
  if (!W_ret[k]) g_failed = 1;
  return W_ret[k];
}
bool _check(void) { return stage(0); }
bool _preprocess(void) { return stage(1); }
bool _run(void) { return stage(2); }
bool _postprocess(void) { return stage(3); }
void _rollback(void) { if (!g_failed) g_bad_order = 1; g_rollback++; }
"""
    f = Fn("ACalculator::run", "src/Calculators/ACalculator.cpp", r"^bool ACalculator::run\(\)\s*$", csig="bool ACalculator_run(void)",
           rewrites=RUN_RW)
    harness = """
void vf_harness(void)
{
  vf_havoc_inputs();
  for (int k = 0; k < 4; k++) __CPROVER_assume(W_throw[k] == 0 || W_throw[k] == 1 || W_throw[k] == 2);
  verif_thrown = 0; g_stage = 0; g_rollback = 0; g_bad_order = 0; g_failed = 0;
  bool r = ACalculator_run();
  int nok = 0;      /* number of leading stages that succeeded */
  while (nok < 4 && W_ret[nok] && !W_throw[nok]) nok++;
  __CPROVER_assert(r == (nok == 4), "run() succeeds iff check, preprocess, run and postprocess all succeed");
  __CPROVER_assert(g_stage == (nok == 4 ? 4 : nok + 1), "stages are entered in order and none after the first failure");
  __CPROVER_assert(!g_bad_order, "no stage out of order; rollback only after a failure");
  __CPROVER_assert(g_rollback == (r ? 0 : 1), "rollback runs exactly once iff the calculation failed");
  VF_REACH();
}
"""
    native = r"""
static void vf_native(void)
{
  for (int k = 0; k < 4; k++) if (W_throw[k] < 0 || W_throw[k] > 2) exit(77);
  bool r = ACalculator_run();
  int nok = 0; while (nok < 4 && W_ret[nok] && !W_throw[nok]) nok++;
  __CPROVER_assert(r == (nok == 4), "run() succeeds iff all four stages succeed");
  __CPROVER_assert(g_stage == (nok == 4 ? 4 : nok + 1), "no stage after the first failure");
  __CPROVER_assert(!g_bad_order, "order");
  __CPROVER_assert(g_rollback == (r ? 0 : 1), "rollback exactly once iff failed");
}
"""
    return Unit("C19.ACalculator.run", [f], prelude=prelude, harness=harness, native=native,
                inputs=[("bool", "W_ret", "4"), ("int", "W_throw", "4")], pre_inputs="typedef _Bool bool;\n",
                claim=("ACalculator::run: result = check && preprocess && run && postprocess evaluated in that order with short-circuit; a stage "
                       "is never entered after a failed one; _rollback is called exactly once iff the result is false (for every combination of "
                       "stage outcomes, including a stage that throws either exception type)"),
                assumptions=["exception model: a throwing stage is 'returns false with verif_thrown preset'; try/catch rewritten to do/while(0) + flag "
                             "by 5 lexical rules (listed under rewrites); both handlers are taken from the real text"],
                canaries=[{"fn": "ACalculator::run", "rx": r"if \(! _run\(\)\)\s*\n\s*my_throw\(\"Run has failed. Calculation aborted\"\);",
                           "rp": "if (! _run()) { }  my_throw(\"never\");" , "expect": r"assertion", "count": 1}],
                unwind=6)


# ------------------------------------------------------------------------------------------------------------------
# bookkeeping of created variables (ACalcDbToDb)
# ------------------------------------------------------------------------------------------------------------------
D2D = "src/Calculators/ACalcDbToDb.cpp"
DMAX = 2 * LMAX
PRE_IN = COMMON + """
#define DMAX %d
typedef struct { int next_uid; int deleted[DMAX]; int ndeleted; bool add_fails; } Db;   /* ghost view of a Db: identifiers handed out / deleted */
""" % DMAX
LISTS = ["L_PermIn", "L_TempIn", "L_PermOut", "L_TempOut"]
D2D_PRE = ivec_ops() + """
typedef int DbH;                                  /* handle: 1 = dbin, 2 = dbout, 0 = nullptr */
#define _dbin 1
#define _dbout 2
#define _listVariablePermDbIn  L_PermIn
#define _listVariableTempDbIn  L_TempIn
#define _listVariablePermDbOut L_PermOut
#define _listVariableTempDbOut L_TempOut
/* contract of Db::addColumnsByConstant as seen by a calculator (identifier part proved under C07): returns the first of
   'number' fresh consecutive identifiers, or -1 */
int Db_addColumnsByConstant(DbH db, int number)
{
  if (db == 1) { if (number <= 0 || DBIN.add_fails) return -1; int first = DBIN.next_uid; DBIN.next_uid = first + number; return first; }
  if (number <= 0 || DBOUT.add_fails) return -1;
  int first = DBOUT.next_uid; DBOUT.next_uid = first + number; return first;
}
void Db_deleteColumnByUID(DbH db, int iuid)
{
  if (db == 1) { __CPROVER_assert(0 <= DBIN.ndeleted && DBIN.ndeleted < DMAX, "ghost log capacity"); DBIN.deleted[DBIN.ndeleted] = iuid; DBIN.ndeleted = DBIN.ndeleted + 1; }
  else { __CPROVER_assert(0 <= DBOUT.ndeleted && DBOUT.ndeleted < DMAX, "ghost log capacity"); DBOUT.deleted[DBOUT.ndeleted] = iuid; DBOUT.ndeleted = DBOUT.ndeleted + 1; }
}
/* the other members of the Db deletion family, as a calculator may call them: deletion *by identifier* is logged per identifier,
   deletion by column index / by name designates columns differently and is logged apart (it does not discharge the obligation
   'the registered identifiers are deleted') */
void Db_deleteColumnsByUID(DbH db, ivec iuids)
{
%s}
unsigned g_deleted_by_colidx_in, g_deleted_by_colidx_out;
void Db_deleteColumnByColIdx(DbH db, int icol) { if (db == 1) g_deleted_by_colidx_in++; else g_deleted_by_colidx_out++; }
void Db_deleteColumnsByColIdx(DbH db, ivec icols) { if (db == 1) g_deleted_by_colidx_in++; else g_deleted_by_colidx_out++; }
DbH _whichDb(int whichDb) { return whichDb == 1 ? _dbin : _dbout; }
""" % "".join("  if (%d < iuids.n) Db_deleteColumnByUID(db, iuids.a[%d]);\n" % (k, k) for k in range(LMAX))
D2D_INPUTS = [("ivec", L) for L in LISTS] + [("Db", "DBIN"), ("Db", "DBOUT")]
WFL = "__CPROVER_requires(%s && 0 <= DBIN.ndeleted && 0 <= DBOUT.ndeleted)" % " && ".join("0 <= %s.n && %s.n <= LMAX" % (L, L) for L in LISTS)


def list_sel(which, status):
    return {(1, 1): "L_PermIn", (1, 2): "L_TempIn", (2, 1): "L_PermOut", (2, 2): "L_TempOut"}[(which, status)]


def SEL(w, st):
    return "((whichDb == 1) == %d && (status == 1) == %d)" % (1 if w == 1 else 0, 1 if st == 1 else 0)


def appended(L, H, src, cnt):
    return "(%s.n == %s(%s.n) + (%s) && %s)" % (L, H, L, cnt, " && ".join(
        "(%d >= %s.n || %s.a[%d] == (%d < %s(%s.n) ? %s(%s.a[%d]) : %s))" % (q, L, L, q, q, H, L, H, L, q, src.replace("$q", "%d - %s(%s.n)" % (q, H, L)))
        for q in range(LMAX)))


def unchanged(L, H="__CPROVER_old"):
    return "(%s.n == %s(%s.n) && %s)" % (L, H, L, " && ".join("%s.a[%d] == %s(%s.a[%d])" % (L, q, H, L, q) for q in range(LMAX)))


STORE_RW = [(r"\(int\) iuids\.size\(\)", "iuids_size", 1),
            (r"(_listVariable\w+)\.push_back\(", r"ivec_push_back(&\1, ", "opt"),
            # forms a refactor may use instead of the element-wise loops
            (r"(_listVariable\w+) = iuids;", r"ivec_assign(&\1, iuids, iuids_size);", "opt"),
            (r"(_listVariable\w+)\.insert\(\1\.end\(\), iuids\.begin\(\), iuids\.end\(\)\);", r"ivec_append(&\1, iuids, iuids_size);", "opt")]
STORE_SIG = r"^void ACalcDbToDb::_storeInVariableList\(int whichDb,\s*\n\s*int status,\s*\n\s*const VectorInt &iuids\)\s*$"
STORE_CSIG = "void _storeInVariableList(int whichDb, int status, const int* iuids, int iuids_size)"


def store_contract():
    ens = []
    for (w, st) in ((1, 1), (1, 2), (2, 1), (2, 2)):
        L = list_sel(w, st)
        ens.append("__CPROVER_ensures(%s ==> %s)" % (SEL(w, st), appended(L, "__CPROVER_old", "iuids[$q]", "(iuids_size > 0 ? iuids_size : 0)")))
        ens.append("__CPROVER_ensures(!%s ==> %s)" % (SEL(w, st), unchanged(L)))
    return "\n".join([WFL,
                      "__CPROVER_requires(iuids_size <= LMAX && %s)" % " && ".join("%s.n + iuids_size <= LMAX" % L for L in LISTS),
                      "__CPROVER_assigns(L_PermIn, L_TempIn, L_PermOut, L_TempOut)"] + ens)


def store_fn(with_loops=True):
    loops = {}
    if with_loops:
        for k, L in ((1, "L_PermIn"), (2, "L_TempIn"), (3, "L_PermOut"), (4, "L_TempOut")):
            loops[k] = "\n".join(["__CPROVER_assigns(i, %s)" % L,
                                  "__CPROVER_loop_invariant(0 <= i && i <= number && number == iuids_size && number <= LMAX)",
                                  "__CPROVER_loop_invariant(0 <= __CPROVER_loop_entry(%s.n) && __CPROVER_loop_entry(%s.n) <= LMAX)" % (L, L),
                                  "__CPROVER_loop_invariant(%s)" % appended(L, "__CPROVER_loop_entry", "iuids[$q]", "i"),
                                  "__CPROVER_decreases(number - i)"])
    return Fn("ACalcDbToDb::_storeInVariableList", D2D, STORE_SIG, csig=STORE_CSIG, rewrites=STORE_RW, loops=loops, nloops=4 if with_loops else None, contract=store_contract())


def unit_store():
    h = """
void vf_harness(void)
{
  vf_havoc_inputs();
  _storeInVariableList(W_which, W_status, W_ids, W_n);
  VF_REACH();
}
"""
    return Unit("C19.storeInVariableList", [store_fn()], prelude=D2D_PRE, harness=h, pre_inputs=PRE_IN, fallback_unwind=LMAX + 2,
                inputs=D2D_INPUTS + [("int", "W_which"), ("int", "W_status"), ("int", "W_ids", "LMAX"), ("int", "W_n")],
                enforce="_storeInVariableList",
                claim=("ACalcDbToDb::_storeInVariableList appends the identifiers, in order, to exactly the list selected by (whichDb, status) "
                       "and leaves the other three lists untouched (loops closed by invariants)"),
                assumptions=["lists hold at most %d identifiers (model capacity)" % LMAX, "std::vector push_back/clear model (trusted)"],
                canaries=[{"fn": "ACalcDbToDb::_storeInVariableList", "rx": r"_listVariableTempDbOut\.push_back\(iuids\[i\]\)",
                           "rp": "_listVariablePermDbOut.push_back(iuids[i])",
                           "expect": r"_storeInVariableList\.(postcondition|loop_invariant|assigns)"}])


def unit_addvar():
    seq = "".join("  if (%d < number) v[%d] = ideb + %d;\n" % (k, k, k) for k in range(LMAX))
    pre = D2D_PRE + "static void VF_sequence(int* v, int number, int ideb) {\n%s}\n" % seq
    ens = ["__CPROVER_ensures(__CPROVER_return_value >= -1)"]
    for (w, st) in ((1, 1), (1, 2), (2, 1), (2, 2)):
        L = list_sel(w, st)
        db = "DBIN" if w == 1 else "DBOUT"
        ens.append("__CPROVER_ensures((%s && __CPROVER_return_value >= 0) ==> (__CPROVER_return_value == __CPROVER_old(%s.next_uid) && "
                   "%s.next_uid == __CPROVER_return_value + number && %s))"
                   % (SEL(w, st), db, db, appended(L, "__CPROVER_old", "__CPROVER_return_value + ($q)", "number")))
        ens.append("__CPROVER_ensures((!%s || __CPROVER_return_value < 0) ==> %s)" % (SEL(w, st), unchanged(L)))
    # a failed creation hands out no identifier
    ens.append("__CPROVER_ensures(__CPROVER_return_value < 0 ==> (DBIN.next_uid == __CPROVER_old(DBIN.next_uid) && DBOUT.next_uid == __CPROVER_old(DBOUT.next_uid)))")
    contract = "\n".join([WFL, "__CPROVER_requires(number <= LMAX && %s)" % " && ".join("%s.n + number <= LMAX" % L for L in LISTS),
                          "__CPROVER_requires(0 <= DBIN.next_uid && DBIN.next_uid < 1000 && 0 <= DBOUT.next_uid && DBOUT.next_uid < 1000)",
                          "__CPROVER_assigns(L_PermIn, L_TempIn, L_PermOut, L_TempOut, DBIN.next_uid, DBOUT.next_uid)"] + ens)
    f = Fn("ACalcDbToDb::_addVariableDb", D2D,
           r"^int ACalcDbToDb::_addVariableDb\(int whichDb,\s*\n\s*int status,\s*\n\s*const ELoc& locatorType,\s*\n\s*int locatorIndex,\s*\n\s*int number,\s*\n\s*double valinit\)\s*$",
           csig="int _addVariableDb(int whichDb, int status, int locatorType, int locatorIndex, int number, double valinit)", contract=contract,
           rewrites=[(r"db->addColumnsByConstant\(number, valinit, String\(\), locatorType,\s*\n\s*locatorIndex\)", "Db_addColumnsByConstant(db, number)", 1),
                     (r"Db \*db = ", "DbH db = ", 1), (r"db == nullptr", "db == 0", 1),
                     (r"VectorInt iuids = VH::sequence\(number, iuid\);", "int iuids[LMAX]; VF_sequence(iuids, number, iuid);", 1),
                     (r"_storeInVariableList\(whichDb, status, iuids\)", "_storeInVariableList(whichDb, status, iuids, number)", 1)])
    h = """
void vf_harness(void)
{
  vf_havoc_inputs();
  _addVariableDb(W_which, W_status, W_loc, W_idx, W_n, W_val);
  VF_REACH();
}
"""
    return Unit("C19.addVariableDb", [store_fn(with_loops=False), f], prelude=pre, harness=h, pre_inputs=PRE_IN,
                inputs=D2D_INPUTS + [("int", "W_which"), ("int", "W_status"), ("int", "W_loc"), ("int", "W_idx"), ("int", "W_n"), ("double", "W_val")],
                enforce="_addVariableDb", replace=["_storeInVariableList"],
                claim=("ACalcDbToDb::_addVariableDb: on success the 'number' fresh identifiers returned by the Db are registered, in order, in exactly "
                       "the list (whichDb, status); on failure (-1) no list changes and no identifier was handed out — every created variable is "
                       "registered for cleaning"),
                assumptions=["Db::addColumnsByConstant contract (fresh consecutive identifiers or -1)", "VH::sequence(number, first) model"],
                canaries=[{"fn": "ACalcDbToDb::_addVariableDb", "rx": r"_storeInVariableList\(whichDb, status, iuids\);", "rp": "if (status == 1) _storeInVariableList(whichDb, status, iuids);",
                           "expect": r"_addVariableDb\.postcondition"}])


def logged(db, L, H, upto=None):
    """the ids of list L (entry values H(L)) are appended, in order, to db's deletion log"""
    n = "%s(%s.n)" % (H, L)
    return "(%s.ndeleted == %s(%s.ndeleted) + %s && %s)" % (db, H, db, n if upto is None else upto, " && ".join(
        "(%d >= %s || %s.deleted[%s(%s.ndeleted) + %d] == %s(%s.a[%d]))" % (q, n if upto is None else upto, db, H, db, q, H, L, q) for q in range(LMAX)))


def prefix_kept(db, H):
    """what was already in the deletion log (and the rest of the ghost Db) is untouched"""
    return "(%s.next_uid == %s(%s.next_uid) && %s.add_fails == %s(%s.add_fails) && %s)" % (db, H, db, db, H, db, " && ".join(
        "(%d >= %s(%s.ndeleted) || %s.deleted[%d] == %s(%s.deleted[%d]))" % (d, H, db, db, d, H, db, d) for d in range(DMAX)))


CLEAN_SIG = r"^void ACalcDbToDb::_cleanVariableDb\(int status\)\s*$"


def clean_contract():
    ens = []
    for st, (Li, Lo, Ki, Ko) in ((1, ("L_PermIn", "L_PermOut", "L_TempIn", "L_TempOut")), (2, ("L_TempIn", "L_TempOut", "L_PermIn", "L_PermOut"))):
        c = "(status == 1)" if st == 1 else "(status != 1)"
        ens.append("__CPROVER_ensures(%s ==> (%s.n == 0 && %s.n == 0 && %s && %s && %s && %s))"
                   % (c, Li, Lo, logged("DBIN", Li, "__CPROVER_old"), logged("DBOUT", Lo, "__CPROVER_old"), unchanged(Ki), unchanged(Ko)))
    ens.append("__CPROVER_ensures(%s && %s)" % (prefix_kept("DBIN", "__CPROVER_old"), prefix_kept("DBOUT", "__CPROVER_old")))
    return "\n".join([WFL, "__CPROVER_requires(DBIN.ndeleted <= DMAX - LMAX && DBOUT.ndeleted <= DMAX - LMAX)",
                      "__CPROVER_assigns(L_PermIn, L_TempIn, L_PermOut, L_TempOut, DBIN, DBOUT, g_deleted_by_colidx_in, g_deleted_by_colidx_out)"] + ens)


def clean_fn(with_loops=True):
    loops = {}
    if with_loops:
        for k, (L, db) in enumerate((("L_PermIn", "DBIN"), ("L_PermOut", "DBOUT"), ("L_TempIn", "DBIN"), ("L_TempOut", "DBOUT")), 1):
            loops[k] = "\n".join(["__CPROVER_assigns(i, %s)" % db,
                                  "__CPROVER_loop_invariant(0 <= i && i <= %s.n && %s.n <= LMAX)" % (L, L),
                                  "__CPROVER_loop_invariant(0 <= __CPROVER_loop_entry(%s.ndeleted) && __CPROVER_loop_entry(%s.ndeleted) <= DMAX - LMAX)" % (db, db),
                                  "__CPROVER_loop_invariant(%s)" % logged(db, L, "__CPROVER_loop_entry", upto="i").replace("__CPROVER_loop_entry(%s.a" % L, "(%s.a" % L),
                                  "__CPROVER_loop_invariant(%s)" % prefix_kept(db, "__CPROVER_loop_entry"),
                                  "__CPROVER_decreases(%s.n - i)" % L])
    return Fn("ACalcDbToDb::_cleanVariableDb", D2D, CLEAN_SIG, csig="void _cleanVariableDb(int status)", contract=clean_contract(), loops=loops,
              nloops=4,
              rewrites=[(r"!(_listVariable\w+)\.empty\(\)", r"(\1.n != 0)", "opt"),
                        (r"\(int\) (_listVariable\w+)\.size\(\)", r"\1.n", "opt"),
                        (r"(_dbin|_dbout)->(\w+)\(", r"Db_\2(\1, ", None),
                        (r"(_listVariable\w+)\[(\w+)\]", r"\1.a[\2]", "opt"),
                        (r"(_listVariable\w+)\.clear\(\)", r"ivec_clear(&\1)", None)])


def unit_clean():
    h = """
void vf_harness(void)
{
  vf_havoc_inputs();
  _cleanVariableDb(W_status);
  VF_REACH();
}
"""
    return Unit("C19.cleanVariableDb", [clean_fn()], prelude=D2D_PRE, harness=h, pre_inputs=PRE_IN, fallback_unwind=LMAX + 2,
                inputs=D2D_INPUTS + [("int", "W_status")], enforce="_cleanVariableDb",
                claim=("ACalcDbToDb::_cleanVariableDb(status) deletes, from the right Db, exactly the identifiers registered with that status, in "
                       "order, empties those two lists and leaves the two lists of the other status untouched (four loops closed by invariants)"),
                assumptions=["lists hold at most %d identifiers" % LMAX, "Db::deleteColumnByUID recorded in a ghost log (its effect on the Db is proved under C07)"],
                canaries=[{"fn": "ACalcDbToDb::_cleanVariableDb", "rx": r"_dbout->deleteColumnByUID\(_listVariableTempDbOut\[i\]\);",
                           "rp": "_dbin->deleteColumnByUID(_listVariableTempDbOut[i]);", "expect": r"_cleanVariableDb\.(postcondition|loop_invariant)"}])


# ------------------------------------------------------------------------------------------------------------------
# ACalcDbToDb::_expandInformation: variables migrated into dbin for the time of the calculation
# ------------------------------------------------------------------------------------------------------------------
def registered_in(L, uid, n="%s.n"):
    return "(" + " || ".join("(%d < %s && %s.a[%d] == (%s))" % (p, (n % L) if "%s" in n else n, L, p, uid) for p in range(LMAX)) + ")"


def unit_expand():
    """property: whatever the calculation adds to the INPUT data base (external drift / non-stationary parameters migrated from the
    target grid) is registered as temporary for dbin, so that _postprocess and _rollback (both proved to clean that list) remove it"""
    pre = D2D_PRE + """
/* CalcMigrate as seen from here (its own rollback is unit C19.rollback.CalcMigrate): on success it hands out up to LMAX new
   identifiers of dbin, some of which may already be deleted again (its temporaries); on failure none is left alive */
int VF_migrateByLocator(void)
{
  int k = G_nnew;
  G_first = DBIN.next_uid;
  DBIN.next_uid = DBIN.next_uid + k;
  if (G_fail) { %s return 1; }
  return 0;
}
static bool VF_live(int iuid) { int q = iuid - G_first; if (q < 0 || q >= LMAX) return 0; return G_live[q] ? 1 : 0; }
void Db_deleteColumnsByLocator(DbH db, int loc) { g_deleted_by_colidx_in++; }
""" % " ".join("G_live[%d] = 0;" % q for q in range(LMAX))
    H = "__CPROVER_old"
    ens = ["__CPROVER_ensures(%s && %s && %s)" % (unchanged("L_PermIn"), unchanged("L_PermOut"), unchanged("L_TempOut")),
           # what was registered stays registered, in place
           "__CPROVER_ensures(L_TempIn.n >= %s(L_TempIn.n) && %s)" % (H, " && ".join("(%d >= %s(L_TempIn.n) || L_TempIn.a[%d] == %s(L_TempIn.a[%d]))" % (q, H, q, H, q) for q in range(LMAX)))]
    for q in range(LMAX):
        ens.append("__CPROVER_ensures((%s(DBIN.next_uid) + %d < DBIN.next_uid && G_live[%d]) ==> %s)"
                   % (H, q, q, registered_in("L_TempIn", "%s(DBIN.next_uid) + %d" % (H, q))))
    ens.append("__CPROVER_ensures(__CPROVER_return_value != 0 ==> %s)" % unchanged("L_TempIn"))
    ens.append("__CPROVER_ensures(mode <= 0 ==> (DBIN.next_uid == %s(DBIN.next_uid) && %s))" % (H, unchanged("L_TempIn")))
    contract = "\n".join([WFL, "__CPROVER_requires(0 <= DBIN.next_uid && DBIN.next_uid < 1000 && 0 <= G_nnew && G_nnew <= LMAX && %s)" % " && ".join("%s.n + G_nnew <= LMAX" % L for L in LISTS),
                          "__CPROVER_assigns(L_PermIn, L_TempIn, L_PermOut, L_TempOut, DBIN.next_uid, G_first, G_live, g_deleted_by_colidx_in)"] + ens)
    inv = "\n".join(["__CPROVER_assigns(iuid, iuids, iuids_n)",
                     "__CPROVER_loop_invariant(uidFirst <= iuid && iuid <= nuid && nuid == uidFirst + G_nnew && G_nnew <= LMAX && uidFirst == G_first && nuid == DBIN.next_uid)",
                     "__CPROVER_loop_invariant(0 <= iuids_n && iuids_n <= iuid - uidFirst)"] +
                    ["__CPROVER_loop_invariant((uidFirst + %d < iuid && G_live[%d]) ==> %s)" % (q, q, registered_in("iuids", "uidFirst + %d" % q, n="iuids_n").replace("iuids.a[", "iuids[")) for q in range(LMAX)] +
                    ["__CPROVER_decreases(nuid - iuid)"])
    f = Fn("ACalcDbToDb::_expandInformation", D2D, r"^int ACalcDbToDb::_expandInformation\(int mode, const ELoc& locatorType\)( const)?\s*$",
           csig="int _expandInformation(int mode, int locatorType)", contract=contract, loops={1: inv}, nloops=1,
           rewrites=[(r"getDbin\(\) == nullptr \|\| getDbout\(\) == nullptr", "G_dbin_null || G_dbout_null", 1),
                     (r"getDbout\(\)->isGrid\(\)", "G_out_grid", 2),
                     (r"locatorType == ELoc::X", "locatorType == 0", 1),
                     (r"getDbout\(\)->getNDim\(\)", "G_ndim", 1),
                     (r"getDbout\(\)->getFromLocatorNumber\(locatorType\)", "G_ninfo_out", 1),
                     (r"getDbin\(\)->getFromLocatorNumber\(locatorType\)", "G_ninfo_in", 1),
                     (r"DbGrid \*dbgrid = dynamic_cast<DbGrid\*>\(getDbout\(\)\);", ";", 1),
                     (r"NamingConvention\* namconv = NamingConvention::create\(\"Migrate\"\);", ";", 1),
                     (r"namconv->setLocatorOutType\(locatorType\);", ";", 1),
                     (r"delete namconv;", ";", 1),
                     (r"migrateByLocator\(dbgrid, getDbin\(\), locatorType, 1,\s*\n\s*VectorDouble\(\), false, false, false, \*namconv\)", "VF_migrateByLocator()", 1),
                     (r"getDbin\(\)->getUIDMaxNumber\(\)", "DBIN.next_uid", "opt"),
                     (r"VectorInt iuids;", "int iuids[LMAX]; int iuids_n = 0;", "opt"),
                     (r"getDbin\(\)->getColIdxByUID\(iuid\) >= 0", "VF_live(iuid)", "opt"),
                     (r"iuids\.push_back\(iuid\);", '{ __CPROVER_assert(iuids_n < LMAX, "modelled list capacity"); iuids[iuids_n] = iuid; iuids_n = iuids_n + 1; }', "opt"),
                     (r"_storeInVariableList\((\d), (\d), iuids\);", r"_storeInVariableList(\1, \2, iuids, iuids_n);", "opt"),
                     (r"getDbin\(\)->deleteColumnsByLocator\(locatorType\);", "Db_deleteColumnsByLocator(1, locatorType);", 1)])
    h = """
void vf_harness(void)
{
  vf_havoc_inputs();
  _expandInformation(W_mode, W_loc);
  VF_REACH();
}
"""
    return Unit("C19.expandInformation", [store_fn(with_loops=False), f], prelude=pre, harness=h, pre_inputs=PRE_IN, fallback_unwind=LMAX + 2,
                inputs=D2D_INPUTS + [("int", "W_mode"), ("int", "W_loc"), ("bool", "G_dbin_null"), ("bool", "G_dbout_null"), ("bool", "G_out_grid"), ("int", "G_ndim"),
                                     ("int", "G_ninfo_out"), ("int", "G_ninfo_in"), ("int", "G_nnew"), ("bool", "G_fail"), ("int", "G_first"), ("bool", "G_live", "LMAX")],
                enforce="_expandInformation", replace=["_storeInVariableList"],
                claim=("ACalcDbToDb::_expandInformation (external drift / non-stationary parameters migrated from the target grid into the input data base "
                       "by every interpolator and simulation): every variable it leaves in dbin is registered as a temporary of dbin — the list that "
                       "_postprocess and _rollback of every calculator are proved to clean — and nothing else is registered or unregistered"),
                assumptions=["migrateByLocator through a contract: up to %d new identifiers of dbin, nothing alive after a failure (unit C19.rollback.CalcMigrate)" % LMAX,
                             "callee _storeInVariableList through its proved contract"],
                canaries=[{"fn": "ACalcDbToDb::_expandInformation", "rx": r"_storeInVariableList\(1, 2, iuids\);", "rp": "_storeInVariableList(2, 2, iuids);", "expect": r"_expandInformation\.postcondition"}])


# ------------------------------------------------------------------------------------------------------------------
# DGM centring: the coordinate roles of dbin are moved to temporary copies for the time of the calculation
# ------------------------------------------------------------------------------------------------------------------
NDMAX = 3


def unit_dgm(cls, path):
    """property: 'no changed roles' after a failure — _preprocess (real) moves the X roles of dbin to centred temporary copies
    (_centerDataToGrid, real); whatever stage fails afterwards, _rollback (real, with the real _cleanVariableDb) must hand them back"""
    pre = D2D_PRE.replace("void Db_deleteColumnByUID(DbH db, int iuid)\n{", "void Db_deleteColumnByUID(DbH db, int iuid)\n{\n  if (db == 1) { %s }"
                          % " ".join("if (G_xrole[%d] == iuid) G_xrole[%d] = -1;" % (k, k) for k in range(NDMAX)), 1)
    assert pre != D2D_PRE
    pre += """
#define TEST 1.234e30
bool nondet_bool(void); int nondet_int(void);
/* Db::getNamesByLocator(X) / Db::setLocators(names, X, 0): names are ghost identities of the columns (their identifiers) */
static void VF_saveX(void) { G_saved_n = G_ndim; %s }
static void VF_restoreX(void) { %s }
static void VF_setX(int idim, int iuid) { __CPROVER_assert(0 <= idim && idim < NDMAX, "coordinate rank"); G_xrole[idim] = iuid; }
static int VF_getX(int idim) { __CPROVER_assert(0 <= idim && idim < NDMAX, "coordinate rank"); return G_xrole[idim]; }
static bool VF_base_preprocess(void) { return nondet_bool(); }
""" % (" ".join("G_saved[%d] = G_xrole[%d];" % (k, k) for k in range(NDMAX)),
       " ".join("if (%d < G_saved_n) G_xrole[%d] = G_saved[%d];" % (k, k, k) for k in range(NDMAX)))
    common_rw = [(r"ELoc::UNKNOWN", "-1", "opt"), (r"ELoc::SIMU", "7", "opt"), (r"_getNVar\(\)", "G_nvar", None), (r"_getNDim\(\)", "G_ndim", "opt"),
                 (r"getNbSimu\(\)", "G_nbsimu", "opt")]
    center = Fn("ACalcInterpolator::_centerDataToGrid", "src/Calculators/ACalcInterpolator.cpp", r"^int ACalcInterpolator::_centerDataToGrid\(DbGrid\* dbgrid\)\s*$",
                csig="int _centerDataToGrid(int dbgrid)",
                rewrites=[(r"ELoc::UNKNOWN", "-1", 1), (r"_getNDim\(\)", "G_ndim", 2),
                          (r"getDbin\(\)->getUIDByLocator\(ELoc::X, idim\)", "VF_getX(idim)", 1),
                          (r"getDbin\(\)->duplicateColumnByUID\(iuid_in, iuid_out \+ idim\);", "(void) iuid_in;", 1),
                          (r"getDbin\(\)->setLocatorByUID\(iuid_out \+ idim, ELoc::X, idim\);", "VF_setX(idim, iuid_out + idim);", 1),
                          (r"DbH::centerPointToGrid\(getDbin\(\), dbgrid, 0\.\)", "nondet_int()", 1)])
    prep_rw = [(r"ACalc(Interpolator|Simulation)::_preprocess\(\)", "VF_base_preprocess()", 1),
               (r"if \(_matLC != nullptr\) _setNvar\(_matLC->getNRows\(\), true\);", ";", "opt"),
               (r"int nvar = G_nvar;", "int nvar = G_nvar;", "opt"),
               (r"DbGrid\s*\*\s*dbgrid = dynamic_cast<DbGrid\*>\(getDbout\(\)\);", "int dbgrid = G_out_grid ? 1 : 0;", 1),
               (r"_nameCoord = getDbin\(\)->getNamesByLocator\(ELoc::X\);", "VF_saveX();", 1),
               (r"getDbin\(\) != nullptr", "1", "opt"),
               (r"(_addVariableDb\(\d, \d, 7, 0, nvar \* nbsimu)\)", r"\1, 0.)", "opt")]   # default argument valinit
    prep = Fn("%s::_preprocess" % cls, path, r"^bool %s::_preprocess\(\)\s*$" % cls, csig="bool %s_preprocess(void)" % cls, rewrites=common_rw + prep_rw)
    roll = Fn("%s::_rollback" % cls, path, r"^void %s::_rollback\(\)\s*$" % cls, csig="void %s_rollback(void)" % cls,
              rewrites=[(r"!_nameCoord\.empty\(\)", "(G_saved_n != 0)", "opt"), (r"getDbin\(\)->setLocators\(_nameCoord, ELoc::X, 0\);", "VF_restoreX();", "opt")])
    h = """
void vf_harness(void)
{
  vf_havoc_inputs();
  /* a fresh calculator on a dbin whose coordinates are %d..: nothing registered, no saved names */
  __CPROVER_assume(L_PermIn.n == 0 && L_TempIn.n == 0 && L_PermOut.n == 0 && L_TempOut.n == 0 && DBIN.ndeleted == 0 && DBOUT.ndeleted == 0);
  __CPROVER_assume(1 <= G_ndim && G_ndim <= NDMAX && 0 <= G_nvar && G_nvar <= 1 && G_nbsimu == 1 && 0 <= _nbNeigh && _nbNeigh <= 1);
  __CPROVER_assume(NDMAX <= DBIN.next_uid && DBIN.next_uid < 100 && 0 <= DBOUT.next_uid && DBOUT.next_uid < 100);
  G_saved_n = 0;
  int x0[NDMAX];
  for (int k = 0; k < NDMAX; k++) { x0[k] = k; G_xrole[k] = k; }
  _flagDGM = _flagDGM ? 1 : 0;
  bool ok = %s_preprocess();
  bool moved = 0;
  for (int k = 0; k < NDMAX; k++) if (k < G_ndim && G_xrole[k] != x0[k]) moved = 1;
  if (_flagDGM && G_out_grid && ok) __CPROVER_assert(moved, "reachability: the DGM centring moved the coordinate roles to the temporary copies");
  if (!ok || nondet_bool())
  {
    /* _preprocess, _run or _postprocess failed: ACalculator::run (unit C19.run) calls _rollback */
    %s_rollback();
    for (int k = 0; k < NDMAX; k++)
      if (k < G_ndim) __CPROVER_assert(G_xrole[k] == x0[k], "after a failed calculation every coordinate role of dbin designates the column it designated before the call");
    __CPROVER_assert(L_PermIn.n == 0 && L_TempIn.n == 0 && L_PermOut.n == 0 && L_TempOut.n == 0, "after a failed calculation nothing stays registered");
    __CPROVER_assert(DBIN.ndeleted == DBIN.next_uid - vf_uid0_in, "after a failed calculation every variable created in dbin has been deleted");
  }
  VF_REACH();
}
""" % (0, cls, cls)
    h = h.replace("  G_saved_n = 0;\n", "  G_saved_n = 0;\n  int vf_uid0_in = DBIN.next_uid;\n")
    extra = [("bool", "_flagDGM"), ("bool", "_flagEst"), ("bool", "_flagStd"), ("bool", "_flagVarZ"), ("bool", "_flagNeighOnly"), ("int", "_iechSingleTarget"),
             ("int", "_iptrEst"), ("int", "_iptrStd"), ("int", "_iptrVarZ"), ("int", "_iptrNeigh"), ("int", "_nbNeigh"), ("int", "_iattOut"),
             ("bool", "_flagAllocationAlreadyDone"), ("bool", "G_out_grid"), ("int", "G_ndim"), ("int", "G_nvar"), ("int", "G_nbsimu"),
             ("int", "G_saved_n"), ("int", "G_saved", "NDMAX"), ("int", "G_xrole", "NDMAX")]
    addv = unit_addvar().fns[-1]
    import copy
    addv = copy.copy(addv); addv.contract = ""
    st = copy.copy(store_fn(with_loops=False)); st.contract = ""
    cl = copy.copy(clean_fn(with_loops=False)); cl.contract = ""
    seq = "".join("  if (%d < number) v[%d] = ideb + %d;\n" % (k, k, k) for k in range(LMAX))
    pre += "static void VF_sequence(int* v, int number, int ideb) {\n%s}\n" % seq
    return Unit("C19.dgm_roles.%s" % cls, [st, addv, cl, center, prep, roll], prelude=pre, harness=h, pre_inputs=PRE_IN + "#define NDMAX %d\n" % NDMAX, inputs=D2D_INPUTS + extra,
                unwind=LMAX + 2, checks=["--bounds-check", "--pointer-check"],
                claim=("%s with the DGM option (real _preprocess, _centerDataToGrid, _rollback, _cleanVariableDb, _addVariableDb, _storeInVariableList, "
                       "executed in sequence): whatever stage fails after the coordinate roles of the input data base were moved to the centred temporary "
                       "copies, after _rollback every coordinate role designates the original column again and every created variable is deleted" % cls),
                assumptions=["Db::deleteColumnByUID drops the roles of the deleted column (proved under C07); names = ghost identities of columns",
                             "ACalcInterpolator::_preprocess / DbH::centerPointToGrid: arbitrary outcome"],
                bounded="at most %d space dimensions, 1 variable, 1 simulation, lists of at most %d identifiers; unwind %d with unwinding assertions" % (NDMAX, LMAX, LMAX + 2),
                canaries=[{"fn": "%s::_rollback" % cls, "rx": r"VF_restoreX\(\);|getDbin\(\)->setLocators\(_nameCoord, ELoc::X, 0\);", "rp": ";", "expect": r"assertion"}])


# ------------------------------------------------------------------------------------------------------------------
# ACalcDbVarCreator (single Db) and its only calculator, CalcAnamTransform
# ------------------------------------------------------------------------------------------------------------------
VC = "src/Calculators/ACalcDbVarCreator.cpp"
AT = "src/Anamorphosis/CalcAnamTransform.cpp"


def unit_anamtransform():
    """property: whatever option is chosen, every variable CalcAnamTransform::_preprocess creates is deleted by _rollback
    (real _preprocess, _rollback and the real bookkeeping of ACalcDbVarCreator, executed in sequence)"""
    pre = ivec_ops() + """
typedef int DbH;
#define _db 1
#define TEST 1.234e30
#define _listVariablePermDb L_PermIn
#define _listVariableTempDb L_TempIn
bool nondet_bool(void);
/* Db::addColumnsByConstant as seen by a calculator (identifier part proved under C07): first of 'number' fresh consecutive identifiers, or -1 */
int Db_addColumnsByConstant(DbH db, int number)
{
  if (number <= 0 || DBIN.add_fails) return -1;
  int first = DBIN.next_uid; DBIN.next_uid = first + number; return first;
}
void Db_deleteColumnByUID(DbH db, int iuid)
{
  __CPROVER_assert(0 <= DBIN.ndeleted && DBIN.ndeleted < DMAX, "ghost log capacity"); DBIN.deleted[DBIN.ndeleted] = iuid; DBIN.ndeleted = DBIN.ndeleted + 1;
}
static void VF_sequence(int* v, int number, int ideb) {
%s}
static bool VF_base_preprocess(void) { return nondet_bool(); }
""" % "".join("  if (%d < number) v[%d] = ideb + %d;\n" % (k, k, k) for k in range(LMAX))
    store = Fn("ACalcDbVarCreator::_storeInVariableList", VC, r"^void ACalcDbVarCreator::_storeInVariableList\(int status, const VectorInt& iuids\)\s*$",
               csig="void _storeInVariableList(int status, const int* iuids, int iuids_size)",
               rewrites=[(r"\(int\) iuids\.size\(\)", "iuids_size", 1), (r"(_listVariable\w+)\.push_back\(", r"ivec_push_back(&\1, ", None)])
    addv = Fn("ACalcDbVarCreator::_addVariableDb", VC,
              r"^int ACalcDbVarCreator::_addVariableDb\(int status,\s*\n\s*const ELoc& locatorType,\s*\n\s*int locatorIndex,\s*\n\s*int number,\s*\n\s*double valinit\)\s*$",
              csig="int _addVariableDb(int status, int locatorType, int locatorIndex, int number, double valinit)",
              rewrites=[(r"_db == nullptr", "_db == 0", 1),
                        (r"_db->addColumnsByConstant\(number, valinit, String\(\), locatorType, locatorIndex\)", "Db_addColumnsByConstant(_db, number)", 1),
                        (r"VectorInt iuids = VH::sequence\(number, iuid\);", "int iuids[LMAX]; VF_sequence(iuids, number, iuid);", 1),
                        (r"_storeInVariableList\(status, iuids\)", "_storeInVariableList(status, iuids, number)", 1)])
    clean = Fn("ACalcDbVarCreator::_cleanVariableDb", VC, r"^void ACalcDbVarCreator::_cleanVariableDb\(int status\)\s*$", csig="void _cleanVariableDb(int status)",
               rewrites=[(r"!(_listVariable\w+)\.empty\(\)", r"(\1.n != 0)", "opt"), (r"\(int\) (_listVariable\w+)\.size\(\)", r"\1.n", "opt"),
                         (r"_db->(\w+)\(", r"Db_\1(_db, ", None), (r"(_listVariable\w+)\[(\w+)\]", r"\1.a[\2]", "opt"),
                         (r"(_listVariable\w+)\.clear\(\)", r"ivec_clear(&\1)", None)])
    prep = Fn("CalcAnamTransform::_preprocess", AT, r"^bool CalcAnamTransform::_preprocess\(\)\s*$", csig="bool CalcAnamTransform_preprocess(void)",
              rewrites=[(r"ACalcDbVarCreator::_preprocess\(\)", "VF_base_preprocess()", 1),
                        (r"_getNVar\(\)", "G_nvar", None), (r"_getNfact\(\)", "G_nfact", None), (r"_getNSel\(\)", "G_nsel", None),
                        # a creation that by-passes the bookkeeping is still a creation in the Db
                        (r"getDb\(\)->addColumnsByConstant\((\w+)(, TEST)?\)", r"Db_addColumnsByConstant(_db, \1)", "opt"),
                        (r"_addVariableDb\(1, ELoc::UNKNOWN, 0, (\w+)\)", r"_addVariableDb(1, -1, 0, \1, 0.)", "opt"),
                        (r"_addVariableDb\(1, ELoc::UNKNOWN, 0, (\w+), TEST\)", r"_addVariableDb(1, -1, 0, \1, TEST)", "opt")])
    roll = Fn("CalcAnamTransform::_rollback", AT, r"^void CalcAnamTransform::_rollback\(\)\s*$", csig="void CalcAnamTransform_rollback(void)")
    h = """
void vf_harness(void)
{
  vf_havoc_inputs();
  /* a fresh calculator: nothing registered */
  __CPROVER_assume(L_PermIn.n == 0 && L_TempIn.n == 0 && DBIN.ndeleted == 0 && 0 <= DBIN.next_uid && DBIN.next_uid < 100);
  __CPROVER_assume(G_nvar <= LMAX && G_nfact <= LMAX && G_nsel <= LMAX);
  _flagVars = _flagVars ? 1 : 0; _flagToFactors = _flagToFactors ? 1 : 0; _flagDisjKrig = _flagDisjKrig ? 1 : 0; _flagCondExp = _flagCondExp ? 1 : 0; _flagUniCond = _flagUniCond ? 1 : 0;
  int uid0 = DBIN.next_uid;
  bool ok = CalcAnamTransform_preprocess();
  if (ok && (_flagVars || _flagToFactors || _flagDisjKrig || _flagCondExp || _flagUniCond))
    __CPROVER_assert(DBIN.next_uid > uid0 || DBIN.add_fails || G_nvar <= 0 || G_nfact <= 0 || G_nsel <= 0, "reachability: a successful _preprocess created the result variables");
  if (!ok || nondet_bool())
  {
    /* _preprocess, _run or _postprocess failed: ACalculator::run (unit C19.run) calls _rollback */
    CalcAnamTransform_rollback();
    __CPROVER_assert(DBIN.ndeleted == DBIN.next_uid - uid0, "after a failed calculation as many variables were deleted as were created");
    for (int k = 0; k < LMAX; k++)
      if (uid0 + k < DBIN.next_uid) __CPROVER_assert(DBIN.deleted[k] == uid0 + k, "after a failed calculation every variable created in the data base has been deleted");
    __CPROVER_assert(L_PermIn.n == 0, "after a failed calculation nothing stays registered as a result");
  }
  VF_REACH();
}
"""
    extra = [("bool", "_flagVars"), ("bool", "_flagToFactors"), ("bool", "_flagDisjKrig"), ("bool", "_flagCondExp"), ("bool", "_flagUniCond"),
             ("int", "_iattVar"), ("int", "_iattFac"), ("int", "_iattSel"), ("int", "G_nvar"), ("int", "G_nfact"), ("int", "G_nsel")]
    return Unit("C19.CalcAnamTransform.failure", [store, addv, clean, prep, roll], prelude=pre, harness=h, pre_inputs=PRE_IN,
                inputs=[("ivec", "L_PermIn"), ("ivec", "L_TempIn"), ("Db", "DBIN")] + extra, unwind=LMAX + 2, checks=["--bounds-check", "--pointer-check"],
                claim=("CalcAnamTransform (Gaussian transforms, factors, disjunctive kriging, conditional expectation, uniform conditioning): real _preprocess, "
                       "_rollback and the real bookkeeping of ACalcDbVarCreator (_addVariableDb, _storeInVariableList, _cleanVariableDb) in sequence — whatever "
                       "option is set and whichever stage fails, _rollback deletes every variable that _preprocess created in the data base"),
                assumptions=["Db::addColumnsByConstant contract (fresh consecutive identifiers or -1)", "ACalcDbVarCreator::_preprocess: arbitrary outcome"],
                bounded="at most %d result variables, lists of at most %d identifiers; unwind %d with unwinding assertions" % (LMAX, LMAX, LMAX + 2),
                canaries=[{"fn": "CalcAnamTransform::_rollback", "rx": r"_cleanVariableDb\(1\);", "rp": ";", "expect": r"assertion"}])


ROLLBACKS = [
    ("CalcKriging", "src/Estimation/CalcKriging.cpp"), ("CalcMigrate", "src/Calculators/CalcMigrate.cpp"),
    ("CalcStatistics", "src/Calculators/CalcStatistics.cpp"), ("CalcGridToGrid", "src/Calculators/CalcGridToGrid.cpp"),
    ("CalcSimuPost", "src/Calculators/CalcSimuPost.cpp"), ("CalcSimuTurningBands", "src/Simulation/CalcSimuTurningBands.cpp"),
    ("CalcSimuFFT", "src/Simulation/CalcSimuFFT.cpp"), ("CalcGlobal", "src/Estimation/CalcGlobal.cpp"),
    ("CalcImage", "src/Estimation/CalcImage.cpp"), ("CalcKrigingFactors", "src/Estimation/CalcKrigingFactors.cpp"),
    ("CalcSimpleInterpolation", "src/Estimation/CalcSimpleInterpolation.cpp"), ("CalcSimuEden", "src/Simulation/CalcSimuEden.cpp"),
    ("CalcSimuPartition", "src/Simulation/CalcSimuPartition.cpp"), ("CalcSimuSubstitution", "src/Simulation/CalcSimuSubstitution.cpp"),
]


def registered_statuses(path):
    """static fact re-derived from /repo on every run: which status values this calculator passes to _addVariableDb
    (ACalcDbToDb signature: whichDb, status, ...).  ACalcInterpolator::_centerDataToGrid registers (dbin, 2)."""
    import os, re
    from tools.vf import REPO, Undecided
    try:
        src = open(os.path.join(REPO, path), encoding="utf-8", errors="replace").read()
    except OSError as e:
        raise Undecided("cannot read %s: %s" % (path, e))
    st = set()
    for m in re.finditer(r"(?<![:\w])_addVariableDb\(\s*[^,()]+,\s*([^,()]+),", src):
        a = m.group(1).strip()
        st.add(int(a) if a in ("1", "2") else 2)          # a non-literal status may be 2
    if re.search(r"(?<![:\w])_centerDataToGrid\(", src):
        st.add(2)
    # ACalcInterpolator::_preprocess (reached directly or through ACalcSimulation::_preprocess) calls _expandInformation, which registers (dbin, 2)
    if re.search(r"ACalc(Interpolator|Simulation)::_preprocess\(|(?<![:\w])_expandInformation\(", src):
        st.add(2)
    return st


def moves_roles(path):
    """static fact re-derived on every run: does this calculator move the coordinate roles of dbin (DGM centring)?"""
    import os, re
    from tools.vf import REPO
    src = open(os.path.join(REPO, path), encoding="utf-8", errors="replace").read()
    moves = re.search(r"(?<![:\w])_centerDataToGrid\(", src) is not None
    # is the centring guarded by the member _flagDGM (CalcKriging, CalcSimuTurningBands) or by a property of the model (CalcKrigingFactors)?
    guarded = re.search(r"if \(_flagDGM\)\s*\{[^}]*_centerDataToGrid\(", src, re.S) is not None
    moves_z = re.search(r"getDbin\(\)->clearLocators\(ELoc::Z\)", src) is not None
    return moves, guarded, moves_z


def unit_rollback(cls, path):
    """property: after a failure no created variable (permanent or temporary) remains in either Db"""
    sts = registered_statuses(path)
    temp_possible = 2 in sts
    ens = ["__CPROVER_ensures(L_PermIn.n == 0 && L_TempIn.n == 0 && L_PermOut.n == 0 && L_TempOut.n == 0)",
           # every identifier registered at entry has been deleted from its Db
           "__CPROVER_ensures(DBIN.ndeleted == __CPROVER_old(DBIN.ndeleted) + __CPROVER_old(L_PermIn.n) + __CPROVER_old(L_TempIn.n))",
           "__CPROVER_ensures(DBOUT.ndeleted == __CPROVER_old(DBOUT.ndeleted) + __CPROVER_old(L_PermOut.n) + __CPROVER_old(L_TempOut.n))"]
    for L, db in (("L_PermIn", "DBIN"), ("L_TempIn", "DBIN"), ("L_PermOut", "DBOUT"), ("L_TempOut", "DBOUT")):
        for q in range(LMAX):
            ens.append("__CPROVER_ensures(%d >= __CPROVER_old(%s.n) || (%s))" % (q, L, " || ".join(
                "(%d < %s.ndeleted && %d >= __CPROVER_old(%s.ndeleted) && %s.deleted[%d] == __CPROVER_old(%s.a[%d]))" % (d, db, d, db, db, d, L, q)
                for d in range(DMAX))))
    pre = [WFL, "__CPROVER_requires(0 <= DBIN.ndeleted && DBIN.ndeleted == 0 && DBOUT.ndeleted == 0)"]
    if not temp_possible:
        # this calculator never registers a temporary variable: the two temporary lists are empty whenever _rollback runs
        pre.append("__CPROVER_requires(L_TempIn.n == 0 && L_TempOut.n == 0)")
    # calculators that move the coordinate roles of dbin (DGM centring) hand them back: call of Db::setLocators(_nameCoord, X, 0) counted in a ghost
    moves, guarded, moves_z = moves_roles(path)
    cond = "(VF_moves_roles && %sG_saved_n != 0)" % ("_flagDGM && " if guarded else "")
    ens.append("__CPROVER_ensures(%s ==> g_roles_restored == __CPROVER_old(g_roles_restored) + 1)" % cond)
    ens.append("__CPROVER_ensures((!VF_moves_roles) ==> g_roles_restored == __CPROVER_old(g_roles_restored))")
    # calculators that change the Z roles of dbin (one factor at a time) hand them back: Db::setLocatorsByUID(_iuidFactors, Z, 0) counted in a ghost
    ens.append("__CPROVER_ensures(g_zroles_restored == __CPROVER_old(g_zroles_restored) + %d)" % (1 if moves_z else 0))
    contract = "\n".join(pre + ["__CPROVER_assigns(L_PermIn, L_TempIn, L_PermOut, L_TempOut, DBIN, DBOUT, g_deleted_by_colidx_in, g_deleted_by_colidx_out, g_roles_restored, g_zroles_restored)"] + ens)
    f = Fn("%s::_rollback" % cls, path, r"^void %s::_rollback\(\)\s*$" % cls, csig="void %s_rollback(void)" % cls, contract=contract,
           rewrites=[(r"!_nameCoord\.empty\(\)", "(G_saved_n != 0)", "opt"), (r"getDbin\(\)->setLocators\(_nameCoord, ELoc::X, 0\);", "g_roles_restored++;", "opt"),
                     (r"getDbin\(\) != nullptr", "1", "opt"), (r"getDbin\(\)->setLocatorsByUID\(_iuidFactors, ELoc::Z, 0\);", "g_zroles_restored++;", "opt")])
    h = """
void vf_harness(void)
{
  vf_havoc_inputs();
  %s_rollback();
  VF_REACH();
}
""" % cls
    native = r"""
static void vf_native(void)
{
  ivec* Ls[4] = { &L_PermIn, &L_TempIn, &L_PermOut, &L_TempOut };
  for (int k = 0; k < 4; k++) if (Ls[k]->n < 0 || Ls[k]->n > LMAX) exit(77);
  DBIN.ndeleted = 0; DBOUT.ndeleted = 0;
  int before = L_PermIn.n + L_TempIn.n + L_PermOut.n + L_TempOut.n;
  %s_rollback();
  __CPROVER_assert(L_PermIn.n == 0 && L_TempIn.n == 0 && L_PermOut.n == 0 && L_TempOut.n == 0, "after rollback no created variable stays registered (permanent or temporary)");
  __CPROVER_assert(DBIN.ndeleted + DBOUT.ndeleted == before, "every variable created by the failed calculation has been deleted");
}
""" % cls
    return Unit("C19.rollback.%s" % cls, [clean_fn(with_loops=False), f], prelude=D2D_PRE + "#define VF_moves_roles %d\n" % (1 if moves else 0), harness=h, pre_inputs=PRE_IN, native=native,
                inputs=D2D_INPUTS + [("bool", "_flagDGM"), ("int", "G_saved_n"), ("unsigned", "g_roles_restored"), ("unsigned", "g_zroles_restored")], enforce="%s_rollback" % cls, replace=["_cleanVariableDb"],
                claim=("%s::_rollback: after a failed calculation every variable the calculator created in either Db — permanent or temporary — "
                       "is deleted and no identifier stays registered (callee _cleanVariableDb through its proved contract)" % cls),
                assumptions=["lists hold at most %d identifiers" % LMAX,
                             "statuses this calculator registers, re-derived from its source on this run: %s%s" % (
                                 sorted(sts), "" if temp_possible else " -> temporary lists assumed empty at rollback"),
                             "moves the coordinate roles of dbin (calls _centerDataToGrid) / guarded by _flagDGM / changes the Z roles of dbin, re-derived on this run: %s / %s / %s" % (moves, guarded, moves_z)],
                canaries=[{"fn": "%s::_rollback" % cls, "rx": r"_cleanVariableDb\(1\);", "rp": ";", "expect": r"_rollback\.postcondition"}])


def units(tier):
    return [unit_run(), unit_store(), unit_addvar(), unit_clean(), unit_expand()] + [unit_rollback(c, p) for c, p in ROLLBACKS] + [unit_dgm("CalcKriging", "src/Estimation/CalcKriging.cpp"), unit_dgm("CalcSimuTurningBands", "src/Simulation/CalcSimuTurningBands.cpp"), unit_anamtransform()]


META = {
    "level": "other",
    "explanation": ("Failure-point quantifier handled symbolically: every stage returns a nondeterministic outcome (success, failure, either "
                    "exception type) so all failure points are covered at once. The skeleton, bookkeeping, _expandInformation and the 14 rollback units "
                    "are unbounded proofs; the three sequence units (DGM roles x2, CalcAnamTransform) are bounded stand-ins, hence level 'other'."),
    "trusted_base": ["CBMC 6.11", "exception model (structured exits)", "std::vector model"],
    "assumptions": [],
    "not_covered": ["values written by _run itself into pre-existing columns", "success path of the role hand-back in _postprocess (only the failure path is under contract)",
                    "NamingConvention::setNamesAndLocators (string code)", "CalcSimuRefine, CalcSimuPost internals"],
}
MANIFEST = {
    "category": "other",
    "text": ("Contracts on the calculator skeleton: run() staging/rollback protocol for all failure points, registration and cleaning of created "
             "variables (incl. those migrated into dbin), rollback completeness and role hand-back of every calculator (proved: loop-free or loops closed by "
             "invariants); bounded sequence units preprocess->rollback for the DGM role moves and for CalcAnamTransform."),
    "note": "Trusted: CBMC, exception model, std::vector model, Db add/delete contracts (identifier part proved under C07).",
    "design_ref": "DESIGN.md 3 C19",
}
