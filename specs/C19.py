"""C19 — a calculation either completes or leaves its data bases untouched.

Route C units on the calculator skeleton: ACalculator::run (try/catch rewritten to structured exits, 5 must-fire rules),
the variable bookkeeping of ACalcDbToDb / ACalcDbVarCreator, and the _rollback of every calculator."""
from tools.vf import Fn, Unit

LMAX = 4   # capacity of each bookkeeping list

COMMON = """
#define LMAX %d
typedef _Bool bool;
#define true 1
#define false 0
#define messerr(...) ((void)0)
typedef struct { int a[LMAX]; int n; } ivec;      /* std::vector<int>, capacity LMAX (trusted model, straight-line) */
""" % LMAX


def ivec_ops():
    pb = ""
    return """
void ivec_push_back(ivec* v, int x) { __CPROVER_assert(v->n < LMAX, "modelled list capacity"); v->a[v->n] = x; v->n = v->n + 1; }
void ivec_assign(ivec* v, const int* src, int n) { __CPROVER_assert(0 <= n && n <= LMAX, "modelled list capacity"); v->n = n; for (int k = 0; k < LMAX; k++) if (k < n) v->a[k] = src[k]; }
void ivec_append(ivec* v, const int* src, int n) { for (int k = 0; k < LMAX; k++) if (k < n) ivec_push_back(v, src[k]); }
void ivec_clear(ivec* v) { v->n = 0; }
"""


# ------------------------------------------------------------------------------------------------------------------
# ACalculator::run
# ------------------------------------------------------------------------------------------------------------------
RUN_RW = [
    (r"\btry\b", "do", 1),
    (r"catch\s*\(const AException& e\)", "while (0); if (verif_thrown == 1)", 1),
    (r"catch\s*\(const std::exception& e\)", "else if (verif_thrown == 2)", 1),
    (r'my_throw\("[^"]*"\);', "{ if (!verif_thrown) verif_thrown = 1; break; }", 4),
    (r"e\.what\(\)", '""', 2),
]


def unit_run():
    prelude = COMMON + """
int verif_thrown;                 /* 0 none, 1 AException, 2 std::exception (a throwing stage = returns false with this preset) */
int g_stage;                      /* ghost: number of stages that have been entered */
int g_rollback;                   /* ghost: number of _rollback() calls */
int g_bad_order;                  /* ghost: a stage was entered out of order or after a failed one */
int g_failed;                     /* ghost: some stage has failed */
static bool stage(int k)
{
  if (g_stage != k || g_failed) g_bad_order = 1;
  g_stage = k + 1;
  if (W_throw[k]) { verif_thrown = W_throw[k]; g_failed = 1; return false; }
  if (!W_ret[k]) g_failed = 1;
  return W_ret[k];
}
bool _check(void) { return stage(0); }
bool _preprocess(void) { return stage(1); }
bool _run(void) { return stage(2); }
bool _postprocess(void) { return stage(3); }
void _rollback(void) { if (!g_failed) g_bad_order = 1; g_rollback++; }
"""
    f = Fn("ACalculator::run", "src/Calculators/ACalculator.cpp", r"^bool ACalculator::run\(\)\s*$", csig="bool ACalculator_run(void)",
           rewrites=RUN_RW)
    harness = """
void vf_harness(void)
{
  vf_havoc_inputs();
  for (int k = 0; k < 4; k++) __CPROVER_assume(W_throw[k] == 0 || W_throw[k] == 1 || W_throw[k] == 2);
  verif_thrown = 0; g_stage = 0; g_rollback = 0; g_bad_order = 0; g_failed = 0;
  bool r = ACalculator_run();
  int nok = 0;      /* number of leading stages that succeeded */
  while (nok < 4 && W_ret[nok] && !W_throw[nok]) nok++;
  __CPROVER_assert(r == (nok == 4), "run() succeeds iff check, preprocess, run and postprocess all succeed");
  __CPROVER_assert(g_stage == (nok == 4 ? 4 : nok + 1), "stages are entered in order and none after the first failure");
  __CPROVER_assert(!g_bad_order, "no stage out of order; rollback only after a failure");
  __CPROVER_assert(g_rollback == (r ? 0 : 1), "rollback runs exactly once iff the calculation failed");
  VF_REACH();
}
"""
    native = r"""
static void vf_native(void)
{
  for (int k = 0; k < 4; k++) if (W_throw[k] < 0 || W_throw[k] > 2) exit(77);
  bool r = ACalculator_run();
  int nok = 0; while (nok < 4 && W_ret[nok] && !W_throw[nok]) nok++;
  __CPROVER_assert(r == (nok == 4), "run() succeeds iff all four stages succeed");
  __CPROVER_assert(g_stage == (nok == 4 ? 4 : nok + 1), "no stage after the first failure");
  __CPROVER_assert(!g_bad_order, "order");
  __CPROVER_assert(g_rollback == (r ? 0 : 1), "rollback exactly once iff failed");
}
"""
    return Unit("C19.ACalculator.run", [f], prelude=prelude, harness=harness, native=native,
                inputs=[("bool", "W_ret", "4"), ("int", "W_throw", "4")], pre_inputs="typedef _Bool bool;\n",
                claim=("ACalculator::run: result = check && preprocess && run && postprocess evaluated in that order with short-circuit; a stage "
                       "is never entered after a failed one; _rollback is called exactly once iff the result is false (for every combination of "
                       "stage outcomes, including a stage that throws either exception type)"),
                assumptions=["exception model: a throwing stage is 'returns false with verif_thrown preset'; try/catch rewritten to do/while(0) + flag "
                             "by 5 lexical rules (listed under rewrites); both handlers are taken from the real text"],
                canaries=[{"fn": "ACalculator::run", "rx": r"if \(! _run\(\)\)\s*\n\s*my_throw\(\"Run has failed. Calculation aborted\"\);",
                           "rp": "if (! _run()) { }  my_throw(\"never\");" , "expect": r"assertion", "count": 1}],
                unwind=6)


# ------------------------------------------------------------------------------------------------------------------
# bookkeeping of created variables (ACalcDbToDb)
# ------------------------------------------------------------------------------------------------------------------
D2D = "src/Calculators/ACalcDbToDb.cpp"
DMAX = 2 * LMAX
PRE_IN = COMMON + """
#define DMAX %d
typedef struct { int next_uid; int deleted[DMAX]; int ndeleted; bool add_fails; } Db;   /* ghost view of a Db: identifiers handed out / deleted */
""" % DMAX
LISTS = ["L_PermIn", "L_TempIn", "L_PermOut", "L_TempOut"]
D2D_PRE = ivec_ops() + """
typedef int DbH;                                  /* handle: 1 = dbin, 2 = dbout, 0 = nullptr */
#define _dbin 1
#define _dbout 2
#define _listVariablePermDbIn  L_PermIn
#define _listVariableTempDbIn  L_TempIn
#define _listVariablePermDbOut L_PermOut
#define _listVariableTempDbOut L_TempOut
/* contract of Db::addColumnsByConstant as seen by a calculator (identifier part proved under C07): returns the first of
   'number' fresh consecutive identifiers, or -1 */
int Db_addColumnsByConstant(DbH db, int number)
{
  if (db == 1) { if (number <= 0 || DBIN.add_fails) return -1; int first = DBIN.next_uid; DBIN.next_uid = first + number; return first; }
  if (number <= 0 || DBOUT.add_fails) return -1;
  int first = DBOUT.next_uid; DBOUT.next_uid = first + number; return first;
}
void Db_deleteColumnByUID(DbH db, int iuid)
{
  if (db == 1) { __CPROVER_assert(0 <= DBIN.ndeleted && DBIN.ndeleted < DMAX, "ghost log capacity"); DBIN.deleted[DBIN.ndeleted] = iuid; DBIN.ndeleted = DBIN.ndeleted + 1; }
  else { __CPROVER_assert(0 <= DBOUT.ndeleted && DBOUT.ndeleted < DMAX, "ghost log capacity"); DBOUT.deleted[DBOUT.ndeleted] = iuid; DBOUT.ndeleted = DBOUT.ndeleted + 1; }
}
/* the other members of the Db deletion family, as a calculator may call them: deletion *by identifier* is logged per identifier,
   deletion by column index / by name designates columns differently and is logged apart (it does not discharge the obligation
   'the registered identifiers are deleted') */
void Db_deleteColumnsByUID(DbH db, ivec iuids)
{
%s}
unsigned g_deleted_by_colidx_in, g_deleted_by_colidx_out;
void Db_deleteColumnByColIdx(DbH db, int icol) { if (db == 1) g_deleted_by_colidx_in++; else g_deleted_by_colidx_out++; }
void Db_deleteColumnsByColIdx(DbH db, ivec icols) { if (db == 1) g_deleted_by_colidx_in++; else g_deleted_by_colidx_out++; }
DbH _whichDb(int whichDb) { return whichDb == 1 ? _dbin : _dbout; }
""" % "".join("  if (%d < iuids.n) Db_deleteColumnByUID(db, iuids.a[%d]);\n" % (k, k) for k in range(LMAX))
D2D_INPUTS = [("ivec", L) for L in LISTS] + [("Db", "DBIN"), ("Db", "DBOUT")]
WFL = "__CPROVER_requires(%s && 0 <= DBIN.ndeleted && 0 <= DBOUT.ndeleted)" % " && ".join("0 <= %s.n && %s.n <= LMAX" % (L, L) for L in LISTS)


def list_sel(which, status):
    return {(1, 1): "L_PermIn", (1, 2): "L_TempIn", (2, 1): "L_PermOut", (2, 2): "L_TempOut"}[(which, status)]


def SEL(w, st):
    return "((whichDb == 1) == %d && (status == 1) == %d)" % (1 if w == 1 else 0, 1 if st == 1 else 0)


def appended(L, H, src, cnt):
    return "(%s.n == %s(%s.n) + (%s) && %s)" % (L, H, L, cnt, " && ".join(
        "(%d >= %s.n || %s.a[%d] == (%d < %s(%s.n) ? %s(%s.a[%d]) : %s))" % (q, L, L, q, q, H, L, H, L, q, src.replace("$q", "%d - %s(%s.n)" % (q, H, L)))
        for q in range(LMAX)))


def unchanged(L, H="__CPROVER_old"):
    return "(%s.n == %s(%s.n) && %s)" % (L, H, L, " && ".join("%s.a[%d] == %s(%s.a[%d])" % (L, q, H, L, q) for q in range(LMAX)))


STORE_RW = [(r"\(int\) iuids\.size\(\)", "iuids_size", 1),
            (r"(_listVariable\w+)\.push_back\(", r"ivec_push_back(&\1, ", "opt"),
            # forms a refactor may use instead of the element-wise loops
            (r"(_listVariable\w+) = iuids;", r"ivec_assign(&\1, iuids, iuids_size);", "opt"),
            (r"(_listVariable\w+)\.insert\(\1\.end\(\), iuids\.begin\(\), iuids\.end\(\)\);", r"ivec_append(&\1, iuids, iuids_size);", "opt")]
STORE_SIG = r"^void ACalcDbToDb::_storeInVariableList\(int whichDb,\s*\n\s*int status,\s*\n\s*const VectorInt &iuids\)\s*$"
STORE_CSIG = "void _storeInVariableList(int whichDb, int status, const int* iuids, int iuids_size)"


def store_contract():
    ens = []
    for (w, st) in ((1, 1), (1, 2), (2, 1), (2, 2)):
        L = list_sel(w, st)
        ens.append("__CPROVER_ensures(%s ==> %s)" % (SEL(w, st), appended(L, "__CPROVER_old", "iuids[$q]", "(iuids_size > 0 ? iuids_size : 0)")))
        ens.append("__CPROVER_ensures(!%s ==> %s)" % (SEL(w, st), unchanged(L)))
    return "\n".join([WFL,
                      "__CPROVER_requires(iuids_size <= LMAX && %s)" % " && ".join("%s.n + iuids_size <= LMAX" % L for L in LISTS),
                      "__CPROVER_assigns(L_PermIn, L_TempIn, L_PermOut, L_TempOut)"] + ens)


def store_fn(with_loops=True):
    loops = {}
    if with_loops:
        for k, L in ((1, "L_PermIn"), (2, "L_TempIn"), (3, "L_PermOut"), (4, "L_TempOut")):
            loops[k] = "\n".join(["__CPROVER_assigns(i, %s)" % L,
                                  "__CPROVER_loop_invariant(0 <= i && i <= number && number == iuids_size && number <= LMAX)",
                                  "__CPROVER_loop_invariant(0 <= __CPROVER_loop_entry(%s.n) && __CPROVER_loop_entry(%s.n) <= LMAX)" % (L, L),
                                  "__CPROVER_loop_invariant(%s)" % appended(L, "__CPROVER_loop_entry", "iuids[$q]", "i"),
                                  "__CPROVER_decreases(number - i)"])
    return Fn("ACalcDbToDb::_storeInVariableList", D2D, STORE_SIG, csig=STORE_CSIG, rewrites=STORE_RW, loops=loops, nloops=4 if with_loops else None, contract=store_contract())


def unit_store():
    h = """
void vf_harness(void)
{
  vf_havoc_inputs();
  _storeInVariableList(W_which, W_status, W_ids, W_n);
  VF_REACH();
}
"""
    return Unit("C19.storeInVariableList", [store_fn()], prelude=D2D_PRE, harness=h, pre_inputs=PRE_IN, fallback_unwind=LMAX + 2,
                inputs=D2D_INPUTS + [("int", "W_which"), ("int", "W_status"), ("int", "W_ids", "LMAX"), ("int", "W_n")],
                enforce="_storeInVariableList",
                claim=("ACalcDbToDb::_storeInVariableList appends the identifiers, in order, to exactly the list selected by (whichDb, status) "
                       "and leaves the other three lists untouched (loops closed by invariants)"),
                assumptions=["lists hold at most %d identifiers (model capacity)" % LMAX, "std::vector push_back/clear model (trusted)"],
                canaries=[{"fn": "ACalcDbToDb::_storeInVariableList", "rx": r"_listVariableTempDbOut\.push_back\(iuids\[i\]\)",
                           "rp": "_listVariablePermDbOut.push_back(iuids[i])",
                           "expect": r"_storeInVariableList\.(postcondition|loop_invariant|assigns)"}])


def unit_addvar():
    seq = "".join("  if (%d < number) v[%d] = ideb + %d;\n" % (k, k, k) for k in range(LMAX))
    pre = D2D_PRE + "static void VF_sequence(int* v, int number, int ideb) {\n%s}\n" % seq
    ens = ["__CPROVER_ensures(__CPROVER_return_value >= -1)"]
    for (w, st) in ((1, 1), (1, 2), (2, 1), (2, 2)):
        L = list_sel(w, st)
        db = "DBIN" if w == 1 else "DBOUT"
        ens.append("__CPROVER_ensures((%s && __CPROVER_return_value >= 0) ==> (__CPROVER_return_value == __CPROVER_old(%s.next_uid) && "
                   "%s.next_uid == __CPROVER_return_value + number && %s))"
                   % (SEL(w, st), db, db, appended(L, "__CPROVER_old", "__CPROVER_return_value + ($q)", "number")))
        ens.append("__CPROVER_ensures((!%s || __CPROVER_return_value < 0) ==> %s)" % (SEL(w, st), unchanged(L)))
    # a failed creation hands out no identifier
    ens.append("__CPROVER_ensures(__CPROVER_return_value < 0 ==> (DBIN.next_uid == __CPROVER_old(DBIN.next_uid) && DBOUT.next_uid == __CPROVER_old(DBOUT.next_uid)))")
    contract = "\n".join([WFL, "__CPROVER_requires(number <= LMAX && %s)" % " && ".join("%s.n + number <= LMAX" % L for L in LISTS),
                          "__CPROVER_requires(0 <= DBIN.next_uid && DBIN.next_uid < 1000 && 0 <= DBOUT.next_uid && DBOUT.next_uid < 1000)",
                          "__CPROVER_assigns(L_PermIn, L_TempIn, L_PermOut, L_TempOut, DBIN.next_uid, DBOUT.next_uid)"] + ens)
    f = Fn("ACalcDbToDb::_addVariableDb", D2D,
           r"^int ACalcDbToDb::_addVariableDb\(int whichDb,\s*\n\s*int status,\s*\n\s*const ELoc& locatorType,\s*\n\s*int locatorIndex,\s*\n\s*int number,\s*\n\s*double valinit\)\s*$",
           csig="int _addVariableDb(int whichDb, int status, int locatorType, int locatorIndex, int number, double valinit)", contract=contract,
           rewrites=[(r"db->addColumnsByConstant\(number, valinit, String\(\), locatorType,\s*\n\s*locatorIndex\)", "Db_addColumnsByConstant(db, number)", 1),
                     (r"Db \*db = ", "DbH db = ", 1), (r"db == nullptr", "db == 0", 1),
                     (r"VectorInt iuids = VH::sequence\(number, iuid\);", "int iuids[LMAX]; VF_sequence(iuids, number, iuid);", 1),
                     (r"_storeInVariableList\(whichDb, status, iuids\)", "_storeInVariableList(whichDb, status, iuids, number)", 1)])
    h = """
void vf_harness(void)
{
  vf_havoc_inputs();
  _addVariableDb(W_which, W_status, W_loc, W_idx, W_n, W_val);
  VF_REACH();
}
"""
    return Unit("C19.addVariableDb", [store_fn(with_loops=False), f], prelude=pre, harness=h, pre_inputs=PRE_IN,
                inputs=D2D_INPUTS + [("int", "W_which"), ("int", "W_status"), ("int", "W_loc"), ("int", "W_idx"), ("int", "W_n"), ("double", "W_val")],
                enforce="_addVariableDb", replace=["_storeInVariableList"],
                claim=("ACalcDbToDb::_addVariableDb: on success the 'number' fresh identifiers returned by the Db are registered, in order, in exactly "
                       "the list (whichDb, status); on failure (-1) no list changes and no identifier was handed out — every created variable is "
                       "registered for cleaning"),
                assumptions=["Db::addColumnsByConstant contract (fresh consecutive identifiers or -1)", "VH::sequence(number, first) model"],
                canaries=[{"fn": "ACalcDbToDb::_addVariableDb", "rx": r"_storeInVariableList\(whichDb, status, iuids\);", "rp": "if (status == 1) _storeInVariableList(whichDb, status, iuids);",
                           "expect": r"_addVariableDb\.postcondition"}])


def logged(db, L, H, upto=None):
    """the ids of list L (entry values H(L)) are appended, in order, to db's deletion log"""
    n = "%s(%s.n)" % (H, L)
    return "(%s.ndeleted == %s(%s.ndeleted) + %s && %s)" % (db, H, db, n if upto is None else upto, " && ".join(
        "(%d >= %s || %s.deleted[%s(%s.ndeleted) + %d] == %s(%s.a[%d]))" % (q, n if upto is None else upto, db, H, db, q, H, L, q) for q in range(LMAX)))


def prefix_kept(db, H):
    """what was already in the deletion log (and the rest of the ghost Db) is untouched"""
    return "(%s.next_uid == %s(%s.next_uid) && %s.add_fails == %s(%s.add_fails) && %s)" % (db, H, db, db, H, db, " && ".join(
        "(%d >= %s(%s.ndeleted) || %s.deleted[%d] == %s(%s.deleted[%d]))" % (d, H, db, db, d, H, db, d) for d in range(DMAX)))


CLEAN_SIG = r"^void ACalcDbToDb::_cleanVariableDb\(int status\)\s*$"


def clean_contract():
    ens = []
    for st, (Li, Lo, Ki, Ko) in ((1, ("L_PermIn", "L_PermOut", "L_TempIn", "L_TempOut")), (2, ("L_TempIn", "L_TempOut", "L_PermIn", "L_PermOut"))):
        c = "(status == 1)" if st == 1 else "(status != 1)"
        ens.append("__CPROVER_ensures(%s ==> (%s.n == 0 && %s.n == 0 && %s && %s && %s && %s))"
                   % (c, Li, Lo, logged("DBIN", Li, "__CPROVER_old"), logged("DBOUT", Lo, "__CPROVER_old"), unchanged(Ki), unchanged(Ko)))
    ens.append("__CPROVER_ensures(%s && %s)" % (prefix_kept("DBIN", "__CPROVER_old"), prefix_kept("DBOUT", "__CPROVER_old")))
    return "\n".join([WFL, "__CPROVER_requires(DBIN.ndeleted <= DMAX - LMAX && DBOUT.ndeleted <= DMAX - LMAX)",
                      "__CPROVER_assigns(L_PermIn, L_TempIn, L_PermOut, L_TempOut, DBIN, DBOUT, g_deleted_by_colidx_in, g_deleted_by_colidx_out)"] + ens)


def clean_fn(with_loops=True):
    loops = {}
    if with_loops:
        for k, (L, db) in enumerate((("L_PermIn", "DBIN"), ("L_PermOut", "DBOUT"), ("L_TempIn", "DBIN"), ("L_TempOut", "DBOUT")), 1):
            loops[k] = "\n".join(["__CPROVER_assigns(i, %s)" % db,
                                  "__CPROVER_loop_invariant(0 <= i && i <= %s.n && %s.n <= LMAX)" % (L, L),
                                  "__CPROVER_loop_invariant(0 <= __CPROVER_loop_entry(%s.ndeleted) && __CPROVER_loop_entry(%s.ndeleted) <= DMAX - LMAX)" % (db, db),
                                  "__CPROVER_loop_invariant(%s)" % logged(db, L, "__CPROVER_loop_entry", upto="i").replace("__CPROVER_loop_entry(%s.a" % L, "(%s.a" % L),
                                  "__CPROVER_loop_invariant(%s)" % prefix_kept(db, "__CPROVER_loop_entry"),
                                  "__CPROVER_decreases(%s.n - i)" % L])
    return Fn("ACalcDbToDb::_cleanVariableDb", D2D, CLEAN_SIG, csig="void _cleanVariableDb(int status)", contract=clean_contract(), loops=loops,
              nloops=4,
              rewrites=[(r"!(_listVariable\w+)\.empty\(\)", r"(\1.n != 0)", "opt"),
                        (r"\(int\) (_listVariable\w+)\.size\(\)", r"\1.n", "opt"),
                        (r"(_dbin|_dbout)->(\w+)\(", r"Db_\2(\1, ", None),
                        (r"(_listVariable\w+)\[(\w+)\]", r"\1.a[\2]", "opt"),
                        (r"(_listVariable\w+)\.clear\(\)", r"ivec_clear(&\1)", None)])


def unit_clean():
    h = """
void vf_harness(void)
{
  vf_havoc_inputs();
  _cleanVariableDb(W_status);
  VF_REACH();
}
"""
    return Unit("C19.cleanVariableDb", [clean_fn()], prelude=D2D_PRE, harness=h, pre_inputs=PRE_IN, fallback_unwind=LMAX + 2,
                inputs=D2D_INPUTS + [("int", "W_status")], enforce="_cleanVariableDb",
                claim=("ACalcDbToDb::_cleanVariableDb(status) deletes, from the right Db, exactly the identifiers registered with that status, in "
                       "order, empties those two lists and leaves the two lists of the other status untouched (four loops closed by invariants)"),
                assumptions=["lists hold at most %d identifiers" % LMAX, "Db::deleteColumnByUID recorded in a ghost log (its effect on the Db is proved under C07)"],
                canaries=[{"fn": "ACalcDbToDb::_cleanVariableDb", "rx": r"_dbout->deleteColumnByUID\(_listVariableTempDbOut\[i\]\);",
                           "rp": "_dbin->deleteColumnByUID(_listVariableTempDbOut[i]);", "expect": r"_cleanVariableDb\.(postcondition|loop_invariant)"}])


ROLLBACKS = [
    ("CalcKriging", "src/Estimation/CalcKriging.cpp"), ("CalcMigrate", "src/Calculators/CalcMigrate.cpp"),
    ("CalcStatistics", "src/Calculators/CalcStatistics.cpp"), ("CalcGridToGrid", "src/Calculators/CalcGridToGrid.cpp"),
    ("CalcSimuPost", "src/Calculators/CalcSimuPost.cpp"), ("CalcSimuTurningBands", "src/Simulation/CalcSimuTurningBands.cpp"),
    ("CalcSimuFFT", "src/Simulation/CalcSimuFFT.cpp"), ("CalcGlobal", "src/Estimation/CalcGlobal.cpp"),
    ("CalcImage", "src/Estimation/CalcImage.cpp"), ("CalcKrigingFactors", "src/Estimation/CalcKrigingFactors.cpp"),
    ("CalcSimpleInterpolation", "src/Estimation/CalcSimpleInterpolation.cpp"), ("CalcSimuEden", "src/Simulation/CalcSimuEden.cpp"),
    ("CalcSimuPartition", "src/Simulation/CalcSimuPartition.cpp"), ("CalcSimuSubstitution", "src/Simulation/CalcSimuSubstitution.cpp"),
]


def registered_statuses(path):
    """static fact re-derived from /repo on every run: which status values this calculator passes to _addVariableDb
    (ACalcDbToDb signature: whichDb, status, ...).  ACalcInterpolator::_centerDataToGrid registers (dbin, 2)."""
    import os, re
    from tools.vf import REPO, Undecided
    try:
        src = open(os.path.join(REPO, path), encoding="utf-8", errors="replace").read()
    except OSError as e:
        raise Undecided("cannot read %s: %s" % (path, e))
    st = set()
    for m in re.finditer(r"(?<![:\w])_addVariableDb\(\s*[^,()]+,\s*([^,()]+),", src):
        a = m.group(1).strip()
        st.add(int(a) if a in ("1", "2") else 2)          # a non-literal status may be 2
    if re.search(r"(?<![:\w])_centerDataToGrid\(", src):
        st.add(2)
    return st


def unit_rollback(cls, path):
    """property: after a failure no created variable (permanent or temporary) remains in either Db"""
    sts = registered_statuses(path)
    temp_possible = 2 in sts
    ens = ["__CPROVER_ensures(L_PermIn.n == 0 && L_TempIn.n == 0 && L_PermOut.n == 0 && L_TempOut.n == 0)",
           # every identifier registered at entry has been deleted from its Db
           "__CPROVER_ensures(DBIN.ndeleted == __CPROVER_old(DBIN.ndeleted) + __CPROVER_old(L_PermIn.n) + __CPROVER_old(L_TempIn.n))",
           "__CPROVER_ensures(DBOUT.ndeleted == __CPROVER_old(DBOUT.ndeleted) + __CPROVER_old(L_PermOut.n) + __CPROVER_old(L_TempOut.n))"]
    for L, db in (("L_PermIn", "DBIN"), ("L_TempIn", "DBIN"), ("L_PermOut", "DBOUT"), ("L_TempOut", "DBOUT")):
        for q in range(LMAX):
            ens.append("__CPROVER_ensures(%d >= __CPROVER_old(%s.n) || (%s))" % (q, L, " || ".join(
                "(%d < %s.ndeleted && %d >= __CPROVER_old(%s.ndeleted) && %s.deleted[%d] == __CPROVER_old(%s.a[%d]))" % (d, db, d, db, db, d, L, q)
                for d in range(DMAX))))
    pre = [WFL, "__CPROVER_requires(0 <= DBIN.ndeleted && DBIN.ndeleted == 0 && DBOUT.ndeleted == 0)"]
    if not temp_possible:
        # this calculator never registers a temporary variable: the two temporary lists are empty whenever _rollback runs
        pre.append("__CPROVER_requires(L_TempIn.n == 0 && L_TempOut.n == 0)")
    contract = "\n".join(pre + ["__CPROVER_assigns(L_PermIn, L_TempIn, L_PermOut, L_TempOut, DBIN, DBOUT, g_deleted_by_colidx_in, g_deleted_by_colidx_out)"] + ens)
    f = Fn("%s::_rollback" % cls, path, r"^void %s::_rollback\(\)\s*$" % cls, csig="void %s_rollback(void)" % cls, contract=contract)
    h = """
void vf_harness(void)
{
  vf_havoc_inputs();
  %s_rollback();
  VF_REACH();
}
""" % cls
    native = r"""
static void vf_native(void)
{
  ivec* Ls[4] = { &L_PermIn, &L_TempIn, &L_PermOut, &L_TempOut };
  for (int k = 0; k < 4; k++) if (Ls[k]->n < 0 || Ls[k]->n > LMAX) exit(77);
  DBIN.ndeleted = 0; DBOUT.ndeleted = 0;
  int before = L_PermIn.n + L_TempIn.n + L_PermOut.n + L_TempOut.n;
  %s_rollback();
  __CPROVER_assert(L_PermIn.n == 0 && L_TempIn.n == 0 && L_PermOut.n == 0 && L_TempOut.n == 0, "after rollback no created variable stays registered (permanent or temporary)");
  __CPROVER_assert(DBIN.ndeleted + DBOUT.ndeleted == before, "every variable created by the failed calculation has been deleted");
}
""" % cls
    return Unit("C19.rollback.%s" % cls, [clean_fn(with_loops=False), f], prelude=D2D_PRE, harness=h, pre_inputs=PRE_IN, native=native,
                inputs=D2D_INPUTS, enforce="%s_rollback" % cls, replace=["_cleanVariableDb"],
                claim=("%s::_rollback: after a failed calculation every variable the calculator created in either Db — permanent or temporary — "
                       "is deleted and no identifier stays registered (callee _cleanVariableDb through its proved contract)" % cls),
                assumptions=["lists hold at most %d identifiers" % LMAX,
                             "statuses this calculator registers, re-derived from its source on this run: %s%s" % (
                                 sorted(sts), "" if temp_possible else " -> temporary lists assumed empty at rollback")],
                canaries=[{"fn": "%s::_rollback" % cls, "rx": r"_cleanVariableDb\(1\);", "rp": ";", "expect": r"_rollback\.postcondition"}])


def units(tier):
    return [unit_run(), unit_store(), unit_addvar(), unit_clean()] + [unit_rollback(c, p) for c, p in ROLLBACKS]


META = {
    "level": "proof",
    "explanation": ("Failure-point quantifier handled symbolically: every stage returns a nondeterministic outcome (success, failure, either "
                    "exception type) so all failure points are covered at once."),
    "trusted_base": ["CBMC 6.11", "exception model (structured exits)", "std::vector model"],
    "assumptions": [],
    "not_covered": ["values written by _run itself into pre-existing columns", "role changes of the DGM centring (CalcKriging/CalcSimuTurningBands _preprocess) — observed by reading, no contract yet",
                    "NamingConvention::setNamesAndLocators (string code)"],
}
MANIFEST = {
    "category": "proof",
    "text": ("Contracts on the calculator skeleton: run() staging/rollback protocol for all failure points, registration and cleaning of created "
             "variables, rollback completeness of every calculator; loop-free or loops closed by invariants."),
    "note": "Trusted: CBMC, exception model, std::vector model, Db add/delete contracts (identifier part proved under C07).",
    "design_ref": "DESIGN.md 3 C19",
}
