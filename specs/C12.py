"""C12 — experimental variograms equal their pairwise definition: lag-index function and pair-enumeration skeleton."""
from tools.vf import Fn, Unit

DP = "src/Variogram/DirParam.cpp"
VA = "src/Variogram/Vario.cpp"
BOOL = "typedef _Bool bool;\n#define true 1\n#define false 0\n"


def AND(xs):
    xs = list(xs)
    return "(" + " && ".join(xs) + ")" if xs else "1"


def unit_lagrank_irregular(nmax):
    pre = BOOL + """
#define NLMAX %d
#define ITEST (-1234567)
#define ABS(a) (((a) < 0.) ? -(a) : (a))
double floor(double);
int S_npas; bool S_regular; double S_dpas, S_toldist;
#define getFlagRegular() (S_regular)
#define getDPas() (S_dpas)
#define getTolDist() (S_toldist)
#define getLagNumber() (S_npas)
#define getBreaks() (W_breaks)
""" % nmax
    inlag = lambda k, d: "(W_breaks[%s] < %s && %s <= W_breaks[%s + 1])" % (k, d, d, k)
    AD = "(dist < 0. ? -dist : dist)"
    contract = "\n".join([
        "__CPROVER_requires(!S_regular && 0 <= S_npas && S_npas <= NLMAX && dist == dist)",
        # breaks increasing: the lag classes are disjoint
        "__CPROVER_requires(%s)" % AND("(%d >= S_npas || W_breaks[%d] <= W_breaks[%d])" % (k, k, k + 1) for k in range(nmax)),
        "__CPROVER_assigns()",
        "__CPROVER_ensures(__CPROVER_return_value == ITEST || (0 <= __CPROVER_return_value && __CPROVER_return_value < S_npas))",
        # the lag returned is THE class ]b_k, b_k+1] that contains |dist| ...
        "__CPROVER_ensures(%s)" % AND("(__CPROVER_return_value != %d || %s)" % (k, inlag(k, AD)) for k in range(nmax)),
        # ... and ITEST is returned only if no class contains it
        "__CPROVER_ensures(__CPROVER_return_value != ITEST || %s)" % AND("(%d >= S_npas || !%s)" % (k, inlag(k, AD)) for k in range(nmax)),
    ])
    loop = "\n".join([
        "__CPROVER_assigns(k, ilag)",
        "__CPROVER_loop_invariant(0 <= k && k <= S_npas && -1 <= ilag && ilag < k)",
        "__CPROVER_loop_invariant(%s)" % AND("(ilag != %d || %s)" % (q, inlag(q, "distloc")) for q in range(nmax)),
        "__CPROVER_loop_invariant(ilag >= 0 || %s)" % AND("(%d >= k || !%s)" % (q, inlag(q, "distloc")) for q in range(nmax)),
        "__CPROVER_decreases(S_npas - k)",
    ])
    f = Fn("DirParam::getLagRank", DP, r"^int DirParam::getLagRank\(double dist\) const\s*$", csig="int DirParam_getLagRank(double dist)",
           contract=contract, loops={1: loop}, nloops=1)
    h = """
void vf_harness(void)
{
  vf_havoc_inputs();
  S_npas = W_npas; S_regular = 0;
  DirParam_getLagRank(W_dist);
  VF_REACH();
}
"""
    return Unit("C12.getLagRank.irregular", [f], prelude=pre, harness=h, defines={"NLMAX": nmax},
                inputs=[("double", "W_breaks", "NLMAX + 1"), ("int", "W_npas"), ("double", "W_dist")], enforce="DirParam_getLagRank",
                fallback_unwind=nmax + 2, backends=("minisat", "cadical"), timeout=600,
                claim=("DirParam::getLagRank with irregular lags (increasing breaks): returns k iff breaks[k] < |d| <= breaks[k+1] (half-open classes, "
                       "disjoint), ITEST iff no class contains |d|; depends on |d| only (symmetric in the sign); loop closed by invariant (lags <= %d)" % nmax),
                assumptions=["at most %d lags (quantifier range)" % nmax, "distance is not NaN", "getters bound to plain globals"],
                canaries=[{"fn": "DirParam::getLagRank", "rx": r"distloc <= getBreaks\(\)\[k \+ 1\]", "rp": "distloc < getBreaks()[k + 1]",
                           "expect": r"DirParam_getLagRank\.(postcondition|loop_invariant_step)"}])


def unit_lagrank_regular():
    pre = BOOL + """
#define ITEST (-1234567)
#define ABS(a) (((a) < 0.) ? -(a) : (a))
double floor(double);
int S_npas; bool S_regular; double S_dpas, S_toldist; double W_breaks[2];
#define getFlagRegular() (S_regular)
#define getDPas() (S_dpas)
#define getTolDist() (S_toldist)
#define getLagNumber() (S_npas)
#define getBreaks() (W_breaks)
"""
    AD = "(dist < 0. ? -dist : dist)"
    contract = "\n".join([
        "__CPROVER_requires(S_regular && 0 <= S_npas && dist == dist && S_dpas > 1.0e-6 && S_dpas < 1.0e6 && S_toldist >= 0. && S_toldist <= 1.)",
        "__CPROVER_requires(-1.0e6 < dist && dist < 1.0e6)",     # keeps |d|/dpas far inside the int range
        "__CPROVER_assigns()",
        "__CPROVER_ensures(__CPROVER_return_value == ITEST || (0 <= __CPROVER_return_value && __CPROVER_return_value < S_npas))",
        "__CPROVER_ensures(__CPROVER_return_value == ITEST || !(ABS(%s - __CPROVER_return_value * S_dpas) > S_toldist * S_dpas))" % AD,
    ])
    f = Fn("DirParam::getLagRank", DP, r"^int DirParam::getLagRank\(double dist\) const\s*$", csig="int DirParam_getLagRank(double dist)",
           contract=contract, rewrites=[(r"ilag = \(int\) floor\(distloc / getDPas\(\) \+ 0\.5\);", "ilag = W_candidate;   /* nearest-lag candidate kept symbolic */", 1)])
    h = """
void vf_harness(void)
{
  vf_havoc_inputs();
  S_npas = W_npas; S_regular = 1; S_dpas = W_dpas; S_toldist = W_tol;
  DirParam_getLagRank(W_dist);
  VF_REACH();
}
"""
    return Unit("C12.getLagRank.regular", [f], prelude=pre, harness=h,
                inputs=[("int", "W_npas"), ("double", "W_dist"), ("double", "W_dpas"), ("double", "W_tol"), ("int", "W_candidate")], enforce="DirParam_getLagRank",
                unwind=2, unwinding_assertions=False, backends=("cvc5", "cadical", "minisat"), timeout=150, flags=["--slice-formula"],
                checks=["--bounds-check"],
                bounded="|d| < 1e6, 1e-6 < lag < 1e6 (keeps the float-to-int conversion in range)",
                claim=("DirParam::getLagRank with regular lags: a lag k is returned only if 0 <= k < npas and | |d| - k*dpas | <= tol*dpas (with the "
                       "computed floating-point products), otherwise ITEST; symmetric in the sign of d"),
                assumptions=["bounded magnitudes (stated)", "the nearest-lag candidate floor(|d|/dpas + 0.5) is replaced by an arbitrary integer (1 must-fire rewrite): the "
                             "unit proves that whatever candidate is computed, a lag is returned only within tolerance and range (the float division/floor did "
                             "not finish on any back end)", "the irregular-lag loop is unreachable here (cut by unwinding without assertion)"],
                canaries=[{"fn": "DirParam::getLagRank", "rx": r"if \(ilag < 0 \|\| ilag >= getLagNumber\(\)\) return \(ITEST\);", "rp": "if (ilag < 0 || ilag > getLagNumber()) return (ITEST);",
                           "expect": r"postcondition"}])


def unit_pair_skeleton(ns):
    """which sample pairs reach the accumulator in Vario::_calculateGeneralSolution1 (per-pair work replaced by a ghost visit counter)"""
    pre = BOOL + """
#define NS %d
#define NULL ((void*)0)
#define ITEST (-1234567)
#define TEST 1.234e30
typedef int Db; typedef int Vario_Order;
#define T1 1
#define T2 2
#define ELOC_SEL 1
#define ELOC_W 2
static bool FFFF(double v) { return v > 1.0e30 || v != v; }
static bool IFFFF(int v) { return v == ITEST; }
int IDIRLOC, IECH1, IECH2;
int g_cur[3];                        /* ghost: sample currently loaded in target T1 / T2 */
int g_visit[NS][NS];                 /* ghost: how many times the ordered pair (i, j) reached the accumulator */
int g_first, g_second;
#define getVariableNumber() (1)
#define getMaximumDistance(idir) (W_maxdist)
static int Db_getSampleNumber(Db* db) { return NS; }
static bool Db_hasLocVariable(Db* db, int loc) { return loc == ELOC_SEL ? W_hasSel : W_hasWeight; }
static bool Db_isActive(Db* db, int iech) { return W_active[iech]; }
static double Db_getWeight(Db* db, int iech) { return W_wdef[iech] ? 1. : TEST; }
static void Db_getSampleAsSTInPlace(Db* db, int iech, int which) { g_cur[which] = iech; }
/* Db::getDistance1D(iech, jech, idim = 0, flagAbs = false): signed gap along the first coordinate (real text: Db.cpp) */
static double Db_getDistance1D(Db* db, int iech, int jech) { return W_gap[iech][jech]; }   /* x[iech] - x[jech] as a table */
static bool VF_isDateUsed(void) { return W_hasDate; }
static bool keepPair(int idir, int t1, int t2, double* dist) { *dist = 1.; return W_keep[g_cur[1]][g_cur[2]]; }
static int VF_getLagRank(double dist) { return W_lagdef[g_cur[1]][g_cur[2]] ? 0 : ITEST; }
static void vario_order_add(Vario_Order* v, int iech, int jech, void* a, void* b, int ipas, int idir, double dist) { g_visit[iech][jech]++; }
static void vario_order_final(Vario_Order* v, int* npair) { *npair = 0; }
static void VF_evaluate(int iech, int jech, int ipas) { g_visit[iech][jech]++; }
static void _rescale(int idir) {} static void _centerCovariance(Db* db, int idir) {} static void _patchC00(Db* db, int idir) {}
""" % ns
    f = Fn("Vario::_calculateGeneralSolution1", VA,
           r"^int Vario::_calculateGeneralSolution1\(Db \*db,\s*\n\s*int idir,\s*\n\s*const int \*rindex,\s*\n\s*Vario_Order \*vorder\)\s*$",
           csig="int Vario_calculateGeneralSolution1(Db *db, int idir, const int *rindex, Vario_Order *vorder)",
           rewrites=[(r"SpaceTarget T[12]\(getSpace\(\),false\);", "", 2),
                     (r"DirParam dirparam = getDirParam\(idir\);", "", 1),
                     (r"const VarioParam& varioparam = getVarioParam\(\);", "", 1),
                     (r"varioparam\.isDateUsed\(db\)", "VF_isDateUsed()", 1),
                     (r"db->(\w+)\(\)", r"Db_\1(db)", None),
                     (r"db->(\w+)\(", r"Db_\1(db, ", None),
                     (r"ELoc::(\w+)", r"ELOC_\1", None),
                     (r"dirparam\.getLagRank\(dist\)", "VF_getLagRank(dist)", 1),
                     (r"\(this->\* _evaluate\)\(db, nvar, iech, jech, ipas, dist, true\);", "VF_evaluate(iech, jech, ipas);", 1),
                     (r"\(Vario_Order\*\) NULL", "NULL", None)])
    h = """
void vf_harness(void)
{
  vf_havoc_inputs();
  /* rindex: the samples sorted by increasing first coordinate (Db::getSortArray).  Without loss of generality the samples are
     labelled in that order (rindex = identity): every per-sample / per-pair table below is arbitrary */
  for (int p = 0; p < NS; p++) W_rindex[p] = p;
  /* W_gap[a][b] stands for x[a] - x[b]: antisymmetric, non-negative below the diagonal (sorted), growing with the index distance */
  for (int a = 0; a < NS; a++) for (int b = 0; b < NS; b++) {
    __CPROVER_assume(W_gap[a][b] == W_gap[a][b] && W_gap[a][b] == -W_gap[b][a]);
    if (a < b) __CPROVER_assume(W_gap[b][a] >= 0.);
    for (int c = 0; c < NS; c++) if (a < b && b < c) __CPROVER_assume(W_gap[c][a] >= W_gap[b][a] && W_gap[c][a] >= W_gap[c][b]);
  }
  __CPROVER_assume(W_maxdist == W_maxdist && W_maxdist >= 0.);
  Db db = 0; Vario_Order vo = 0;
  Vario_calculateGeneralSolution1(&db, 0, W_rindex, W_store ? &vo : (Vario_Order*) NULL);
  for (int p = 0; p < NS; p++) for (int q = 0; q < NS; q++) {
    int i = p, j = q;
    if (i == j) continue;
    bool elig = (!W_hasSel || (W_active[i] && W_active[j])) && (!W_hasWeight || (W_wdef[i] && W_wdef[j])) && W_keep[i][j] && W_lagdef[i][j];
    double gap = W_gap[i][j]; if (gap < 0.) gap = -gap;
    if (!W_hasDate) {
      /* each unordered pair once, first = the one that comes first in sorted order */
      if (p < q) {
        __CPROVER_assert(g_visit[i][j] <= 1 && g_visit[j][i] == 0, "no pair is counted twice");
        if (elig && gap <= W_maxdist) __CPROVER_assert(g_visit[i][j] == 1, "every eligible pair closer than the maximum distance reaches the accumulator");
        if (!elig) __CPROVER_assert(g_visit[i][j] == 0, "a pair that is masked, unweighted, rejected by the checkers or outside every lag never reaches the accumulator");
      }
    } else {
      __CPROVER_assert(g_visit[i][j] <= 1, "no ordered pair is counted twice");
      if (elig && gap <= W_maxdist) __CPROVER_assert(g_visit[i][j] == 1, "with dates: every eligible ordered pair closer than the maximum distance reaches the accumulator");
      if (!elig) __CPROVER_assert(g_visit[i][j] == 0, "with dates: an ineligible ordered pair never reaches the accumulator");
    }
  }
  VF_REACH();
}
"""
    return Unit("C12.pair_enumeration", [f], prelude=pre, harness=h, pre_inputs=BOOL + "#define NS %d\n" % ns, unwind=ns + 2,
                inputs=[("double", "W_gap[NS]", "NS"), ("int", "W_rindex", "NS"), ("bool", "W_active", "NS"), ("bool", "W_wdef", "NS"), ("bool", "W_keep[NS]", "NS"),
                        ("bool", "W_lagdef[NS]", "NS"), ("bool", "W_hasSel"), ("bool", "W_hasWeight"), ("bool", "W_hasDate"), ("bool", "W_store"), ("double", "W_maxdist")],
                checks=["--bounds-check", "--pointer-check"], backends=("minisat", "cadical"), timeout=900, split="assert",
                bounded="%d samples (loops unwound with unwinding assertions)" % ns,
                claim=("Vario::_calculateGeneralSolution1 (pair loops of the general algorithm; per-pair work replaced by a ghost counter): given the samples sorted "
                       "by their first coordinate, every pair of active, weighted samples accepted by the pair checkers and falling in a lag, whose "
                       "first-coordinate gap does not exceed the maximum distance, reaches the accumulator exactly once (each ordered pair once when dates "
                       "are used), and no other pair does — the sorted-scan 'break' prunes only pairs that are too far apart"),
                assumptions=["BOUNDED stand-in: %d samples" % ns, "pair checkers / lag index / selection / weights are arbitrary boolean tables (ghosts)",
                             "Route C with generic lowering rules (db->f( -> Db_f(db, ...), member-function-pointer call and helper objects replaced; listed under rewrites)",
                             "Db::getDistance1D(iech, jech) = x[iech] - x[jech] (signed, flagAbs = false by default: Db.hpp/Db.cpp)"],
                canaries=[{"fn": "Vario::_calculateGeneralSolution1", "rx": r"if \(hasSel && !db->isActive\(jech\)\) continue;", "rp": ";",
                           "expect": r"assertion"}])


def unit_accumulate(kind):
    """what one pair contributes to the accumulators (AVario::_evaluateVariogram / _evaluateCovariance + Vario::_setResult)"""
    BOOL = "typedef _Bool bool;\n#define true 1\n#define false 0\n"
    pre = BOOL + """
#define ABS(a) (((a) < 0.) ? -(a) : (a))
#define DECLARE_UNUSED(...)
#define IDIRLOC 0
#define NVAR %d
#define NADR 16
double GG[NADR], HH[NADR], SW[NADR];
double __CPROVER_uninterpreted_z(int, int); double __CPROVER_uninterpreted_w(int); double __CPROVER_uninterpreted_mean(int);
static double _getIVAR(int db, int iech, int ivar) { return __CPROVER_uninterpreted_z(iech, ivar); }
static double VF_getWeight(int iech) { return __CPROVER_uninterpreted_w(iech); }
static double getMean(int ivar) { return __CPROVER_uninterpreted_mean(ivar); }
static bool FFFF(double v) { return v > 1.0e30 || v != v; }
/* address of the accumulator of (variable pair, lag, orientation): distinct for distinct arguments (Vario::getDirAddress trusted) */
static int VF_adr(int ivar, int jvar, int orient) { return (ivar * NVAR + jvar) * 3 + (orient + 1); }
double __CPROVER_uninterpreted_acc(double, double);        /* accumulator + increment (floating-point sum kept symbolic) */
#define ACC(a, v) __CPROVER_uninterpreted_acc(a, v)
static void updateGgByIndex(int idir, int i, double v, bool f) { __CPROVER_assert(0 <= i && i < NADR, "accumulator address"); GG[i] = ACC(GG[i], v); }
static void updateHhByIndex(int idir, int i, double v, bool f) { __CPROVER_assert(0 <= i && i < NADR, "accumulator address"); HH[i] = ACC(HH[i], v); }
static void updateSwByIndex(int idir, int i, double v, bool f) { __CPROVER_assert(0 <= i && i < NADR, "accumulator address"); SW[i] = ACC(SW[i], v); }
""" % (2 if kind == "variogram" else 1)
    setres = Fn("Vario::_setResult", VA, r"^void Vario::_setResult\(int iech1,[^{]*?double value\)\s*$",
                csig="void _setResult(int iech1, int iech2, int nvar, int ipas, int ivar, int jvar, int orient, double ww, double dist, double value)",
                rewrites=[(r"getDirAddress\(IDIRLOC, ivar, jvar, ipas, false, orient, false\)", "VF_adr(ivar, jvar, orient)", 1),
                          (r"getCalcul\(\) == ECalcVario::POISSON", "W_poisson", 1)])
    name = {"variogram": "_evaluateVariogram", "covariance": "_evaluateCovariance"}[kind]
    ev = Fn("AVario::" + name, "src/Variogram/AVario.cpp", r"^void AVario::%s\(\s*\n\s*Db\* db, int nvar, int iech1, int iech2, int ipas, double dist, bool do_asym\)\s*$" % name,
            csig="void AVario_evaluate(int db, int nvar, int iech1, int iech2, int ipas, double dist, bool do_asym)",
            rewrites=[(r"db->getWeight\(", "VF_getWeight(", 2)])
    if kind == "variogram":
        body = """
      if (!FFFF(z11) && !FFFF(z12) && !FFFF(z21) && !FFFF(z22)) {
        double value = (z12 - z11) * (z22 - z21) / 2.;
        int a = VF_adr(iv, jv, 0);
        eg[a] = ACC(eg[a], scale * value); if (W_poisson) eg[a] = ACC(eg[a], -__CPROVER_uninterpreted_mean(iv) / 2.); eh[a] = ACC(eh[a], scale * d); es[a] = ACC(es[a], scale); }"""
        what = ("variogram: a pair contributes, for every variable pair whose four values are defined, w1 w2 (z_i(2) - z_i(1)) (z_j(2) - z_j(1)) / 2 to the variogram "
                "accumulator, w1 w2 |distance| to the distance accumulator and w1 w2 to the weight accumulator of that pair and lag")
    else:
        body = """
      if (!FFFF(z11) && !FFFF(z12)) {
        if (!FFFF(z22)) { double value = z11 * z22; int a = VF_adr(iv, jv, orient);
          eg[a] = ACC(eg[a], scale * value); if (W_poisson) eg[a] = ACC(eg[a], -__CPROVER_uninterpreted_mean(iv) / 2.); eh[a] = ACC(eh[a], scale * d); es[a] = ACC(es[a], scale); }
        if (!FFFF(z21) && W_asym) { double value = z12 * z21; int a = VF_adr(iv, jv, -orient);
          eg[a] = ACC(eg[a], scale * value); if (W_poisson) eg[a] = ACC(eg[a], -__CPROVER_uninterpreted_mean(iv) / 2.); eh[a] = ACC(eh[a], scale * d); es[a] = ACC(es[a], scale); } }"""
        what = ("covariance: z_i(1) z_j(2) goes to the accumulator of the pair's orientation and, in asymmetric mode, z_i(2) z_j(1) to the opposite orientation, each "
                "weighted by w1 w2, with w1 w2 |distance| and w1 w2 alongside")
    h = """
#define SAMED(x, y) ((x) == (y) || ((x) != (x) && (y) != (y)))
void vf_harness(void)
{
  vf_havoc_inputs();
  double eg[NADR], eh[NADR], es[NADR];
  for (int k = 0; k < NADR; k++) { GG[k] = W_g0[k]; HH[k] = W_h0[k]; SW[k] = W_s0[k]; eg[k] = GG[k]; eh[k] = HH[k]; es[k] = SW[k]; }
  AVario_evaluate(0, NVAR, W_i1, W_i2, W_ipas, W_dist, W_asym);
  double w1 = __CPROVER_uninterpreted_w(W_i1), w2 = __CPROVER_uninterpreted_w(W_i2);
  if (!FFFF(w1) && !FFFF(w2)) {
    int orient = (W_dist > 0) ? 1 : -1; double d = ABS(W_dist); double scale = w1 * w2;
    for (int iv = 0; iv < NVAR; iv++) for (int jv = 0; jv <= iv; jv++) {
      double z11 = __CPROVER_uninterpreted_z(W_i1, iv), z12 = __CPROVER_uninterpreted_z(W_i2, iv), z21 = __CPROVER_uninterpreted_z(W_i1, jv), z22 = __CPROVER_uninterpreted_z(W_i2, jv);%s
    } }
  for (int k = 0; k < NADR; k++)
    __CPROVER_assert(SAMED(GG[k], eg[k]) && SAMED(HH[k], eh[k]) && SAMED(SW[k], es[k]), "every accumulator holds what the pairwise definition adds for this pair (and the others are untouched)");
  VF_REACH();
}
""" % body
    return Unit("C12.accumulate.%s" % kind, [setres, ev], prelude=pre, harness=h, pre_inputs=BOOL, unwind=18,
                inputs=[("int", "W_i1"), ("int", "W_i2"), ("int", "W_ipas"), ("double", "W_dist"), ("bool", "W_asym"), ("bool", "W_poisson"),
                        ("double", "W_g0", "16"), ("double", "W_h0", "16"), ("double", "W_s0", "16")],
                checks=["--bounds-check"], backends=("cvc5",), timeout=900,
                bounded="%d variable(s) (loops unwound with unwinding assertions)" % (2 if kind == "variogram" else 1),
                claim="AVario::%s + Vario::_setResult, %s; a pair with an undefined weight contributes nothing" % (name, what),
                assumptions=["values, weights and means are uninterpreted functions of (sample, variable); accumulator addresses distinct per (variable pair, orientation)",
                             "the obligation is an equality of syntactically identical floating-point terms (closed by cvc5)"],
                canaries=[{"fn": "Vario::_setResult", "rx": r"updateHhByIndex\(IDIRLOC, i, ww \* dist, false\);", "rp": "updateHhByIndex(IDIRLOC, i, dist, false);", "expect": r"assertion"}])


def unit_direction_check(ND=2):
    """the direction / tolerance / cylinder / bench test applied to every pair (Vario::keepPair -> BiTargetCheckGeometry::isOK)"""
    pre = """
typedef _Bool bool;
#define true 1
#define false 0
#define ND %d
#define TEST 1.234e30
#define FFFF(x) ((x) != (x) || (x) > 1.233e30)
#define ABS(x) (((x) < 0.) ? -(x) : (x))
double __CPROVER_uninterpreted_sqrt(double);
static double sqrt(double x) { return __CPROVER_uninterpreted_sqrt(x); }
double _dist; int _ndim; double _codir[ND]; double _psmin, _cylrad, _bench; bool _flagAsym;
""" % ND
    f = Fn("BiTargetCheckGeometry::isOK", "src/Geometry/BiTargetCheckGeometry.cpp", r"^bool BiTargetCheckGeometry::isOK\(const SpaceTarget &T1, const SpaceTarget &T2\) const\s*$",
           csig="bool BiTarget_isOK(void)",
           rewrites=[(r"_dist = T1\.getDistance\(T2\);", "_dist = W_dist;", 1), (r"VectorDouble delta = T1\.getIncrement\(T2\);", "const double* delta = W_delta;", 1)])
    h = """
void vf_harness(void)
{
  vf_havoc_inputs();
  _ndim = W_ndim; __CPROVER_assume(1 <= _ndim && _ndim <= ND);
  for (int k = 0; k < ND; k++) _codir[k] = W_codir[k];
  _psmin = W_psmin; _cylrad = W_cylrad; _bench = W_bench; _flagAsym = W_asym ? 1 : 0;
  bool ok = BiTarget_isOK();
  /* the definition: cosine of the angle between the separation d and the calculation direction c (whatever the norm of c),
     distance of the pair to the axis of direction c, vertical offset */
  double dc = 0., dd = 0., cc = 0.;
  for (int k = 0; k < ND; k++) if (k < _ndim) { dc += W_delta[k] * W_codir[k]; dd += W_delta[k] * W_delta[k]; cc += W_codir[k] * W_codir[k]; }
  double cosine = (dd * cc > 0.) ? dc / sqrt(dd * cc) : 1.;
  bool in_cone = !(ABS(cosine) < W_psmin);
  bool in_cyl  = !(!FFFF(W_cylrad) && W_cylrad > 0.) || !(((dd * cc > 0.) ? sqrt(dd * (1. - cosine * cosine)) : 0.) > W_cylrad);
  bool in_bench = !(!FFFF(W_bench) && W_bench > 0.) || !(ABS(W_delta[_ndim - 1]) > W_bench);
  if (W_dist <= 0.) __CPROVER_assert(ok, "a pair of coincident samples is kept");
  else __CPROVER_assert((ok != 0) == (in_cone && in_cyl && in_bench), "a pair is kept exactly when its separation lies within the angular tolerance of the direction (cosine w.r.t. the direction vector whatever its norm), within the cylinder and within the bench");
  if (W_dist > 0. && ok) __CPROVER_assert(_dist == ((W_asym && cosine < W_psmin) ? -W_dist : W_dist), "the separation reported for a kept pair is the distance, negated for the backward half of an asymmetric calculation");
  VF_REACH();
}
"""
    return Unit("C12.BiTargetCheckGeometry.isOK", [f], prelude=pre, harness=h, pre_inputs="typedef _Bool bool;\n", unwind=ND + 1, checks=[], backends=("cvc5", "minisat"), timeout=600,
                inputs=[("int", "W_ndim"), ("double", "W_dist"), ("double", "W_delta", str(ND)), ("double", "W_codir", str(ND)), ("double", "W_psmin"), ("double", "W_cylrad"), ("double", "W_bench"), ("bool", "W_asym")],
                bounded="space dimension <= %d (unwinding assertions)" % ND,
                claim=("BiTargetCheckGeometry::isOK (the direction test applied to every pair by Vario::keepPair): a pair is kept exactly when the cosine between its separation and "
                       "the calculation direction — normalised by BOTH norms, the direction vector need not be a unit vector — reaches the cosine of the angular tolerance, the pair lies "
                       "within the cylinder radius and within the bench; coincident samples are kept; the reported separation carries the asymmetric sign"),
                assumptions=["sqrt uninterpreted; floating-point sums written in the same order as the definition (equality of identical terms)",
                             "SpaceTarget::getDistance / getIncrement: arbitrary distance and increment"],
                canaries=[{"fn": "BiTargetCheckGeometry::isOK", "rx": r"if \(dortho > _cylrad\) return false;", "rp": ";", "expect": r"assertion"}])


def units(tier):
    nmax = 6 if tier == "quick" else 10
    return [unit_lagrank_irregular(nmax), unit_lagrank_regular(), unit_pair_skeleton(3 if tier == 'quick' else 4), unit_accumulate('variogram'), unit_direction_check(2 if tier == 'quick' else 3)] + ([unit_accumulate('covariance')] if tier != 'quick' else [])


META = {
    "level": "other",
    "explanation": "Lag-index function proved (irregular lags unbounded up to a lag-count cap; regular lags for bounded magnitudes).",
    "trusted_base": ["CBMC 6.11", "cvc5 floating-point theory"],
    "assumptions": [],
    "not_covered": ["_rescale, _centerCovariance", "the other pair checkers (faults, code, date)", "grid algorithm", "sort order of rindex"],
}
MANIFEST = {
    "category": "other",
    "text": "Contracts on the lag-index function (half-open disjoint classes; tolerance rule), on the pair-enumeration skeleton and the accumulation step of the general algorithm, and on the direction / tolerance / cylinder / bench test of a pair (bounded dimension).",
    "note": "Accumulation arithmetic and geometry checkers are not claimed.",
    "design_ref": "DESIGN.md 3 C12",
}
