"""C03 — every offered covariance model is valid: closed-form clauses of the compactly supported polynomial structures."""
from tools.vf import Fn, Unit

# structure -> (file, published polynomial on [0,1) as C text in h, degree)
STRUCTS = {
    "Spherical": ("1. - 1.5 * h + 0.5 * h * h * h", 3),
    "Cubic": ("1. - 7. * h * h + 8.75 * h * h * h - 3.5 * h * h * h * h * h + 0.75 * h * h * h * h * h * h * h", 7),
    "Triangle": ("1. - h", 1),
    "Wendland0": ("(1. - h) * (1. - h)", 2),
    "Wendland1": ("(1. - h) * (1. - h) * (1. - h) * (1. - h) * (1. + 4. * h)", 5),
    "Wendland2": ("(1. - h) * (1. - h) * (1. - h) * (1. - h) * (1. - h) * (1. - h) * (1. + 6. * h + 35. * h * h / 3.)", 8),
    # pentamodel (Chiles & Delfiner; the library's own taper _tape_penta): valid up to 3-D
    "Penta": ("1. - 22. / 3. * h * h + 33. * h * h * h * h - 38.5 * h * h * h * h * h + 16.5 * h * h * h * h * h * h * h"
              " - 5.5 * h * h * h * h * h * h * h * h * h + 5. / 6. * h * h * h * h * h * h * h * h * h * h * h", 11),
}


def unit_struct(name):
    poly, deg = STRUCTS[name]
    f = Fn("Cov%s::_evaluateCov" % name, "src/Covariances/Cov%s.cpp" % name, r"^double Cov%s::_evaluateCov\(double h\) const\s*$" % name,
           csig="double Cov_evaluateCov(double h)")
    npts = 16
    h = """
static double published(double h) { return %s; }
void vf_harness(void)
{
  vf_havoc_inputs();
  /* compact support: beyond the (normalised) range the structure vanishes — for every double */
  if (W_h >= 1.) __CPROVER_assert(Cov_evaluateCov(W_h) == 0., "vanishes beyond its range");
  /* value at the origin */
  __CPROVER_assert(Cov_evaluateCov(0.) == 1., "C(0) = 1");
  /* polynomial identity: the body is a polynomial of degree <= %d in h on [0,1); it agrees with the published closed form at %d points
     k/%d (more than degree + 1), hence everywhere on the branch */
  for (int k = 0; k < %d; k++) {
    double x = (double) k / %d.;
    double d = Cov_evaluateCov(x) - published(x);
    __CPROVER_assert(-1.e-12 < d && d < 1.e-12, "agrees with the published closed form at k/%d");
  }
  VF_REACH();
}
""" % (poly, deg, npts, npts, npts, npts, npts)
    return Unit("C03.Cov%s" % name, [f], prelude="#define MAX(a,b) (((a) > (b)) ? (a) : (b))\n", harness=h, inputs=[("double", "W_h")], unwind=npts + 2,
                checks=["--bounds-check"], backends=("minisat", "cadical"), timeout=300,
                claim=("Cov%s::_evaluateCov: zero for every h >= 1 (compact support), 1 at the origin, and equal (1e-12) to the published closed form at %d "
                       "points of [0,1) — a polynomial of degree %d is determined by %d values" % (name, npts, deg, deg + 1)),
                assumptions=["that the body is a polynomial of degree <= %d on [0,1) is read off the source (not checked mechanically); machine arithmetic treated as "
                             "mathematical between the sample points" % deg],
                canaries=[{"fn": "Cov%s::_evaluateCov" % name, "rx": r"(\d)\.(\d*)", "rp": r"\g<1>.\g<2>1", "count": 1, "expect": r"assertion"}] if name != "Triangle" else [])


# non-polynomial structures: published closed form with the libm functions as UNINTERPRETED functions (exp, pow, sin, cos are trusted; what is
# decided is which function is applied to which argument, the cut-offs and the special case at the origin)
CLOSED = {
    "Exponential": "(h > 100.) ? 0. : exp(-h)",                       # exp(-h); below 1e-43 beyond h = MAX_EXP = 100
    "Gaussian": "(h * h > 100.) ? 0. : exp(-(h * h))",               # exp(-h^2)
    "Stable": "(h > 0) ? exp(-pow(h, P)) : 1.",                     # exp(-h^alpha)
    "Cauchy": "1. / pow(1. + h * h, P)",                            # (1 + h^2)^-alpha
    "Gamma": "1. / pow(1. + h, P)",                                 # (1 + h)^-alpha
    "Sincard": "(h > 1.e-5) ? sin(h) / h : 1.",                     # sin(h)/h
    "Cosinus": "cos(2. * GV_PI * h)",
    "Storkey": "(h < 1) ? (2. * (1. - h) * (1. + cos(2. * GV_PI * h) / 2.) + 3 / (2. * GV_PI) * sin(2. * GV_PI * h)) / 3. : 0.",
}
LIBM = """
#define GV_PI  3.14159265358979323846264338328
#define MAX_EXP     100
double __CPROVER_uninterpreted_exp(double); double __CPROVER_uninterpreted_pow(double, double); double __CPROVER_uninterpreted_sin(double); double __CPROVER_uninterpreted_cos(double);
static double exp(double x) { return __CPROVER_uninterpreted_exp(x); }
static double pow(double x, double y) { return __CPROVER_uninterpreted_pow(x, y); }
static double sin(double x) { return __CPROVER_uninterpreted_sin(x); }
static double cos(double x) { return __CPROVER_uninterpreted_cos(x); }
#define getParam() (W_param)
#define P (W_param)
#define SAMED(x, y) ((x) == (y) || ((x) != (x) && (y) != (y)))
"""


def unit_closed(name):
    f = Fn("Cov%s::_evaluateCov" % name, "src/Covariances/Cov%s.cpp" % name, r"^double Cov%s::_evaluateCov\(double h\) const\s*$" % name,
           csig="double Cov_evaluateCov(double h)")
    h = """
static double published(double h) { return %s; }
void vf_harness(void)
{
  vf_havoc_inputs();
  __CPROVER_assume(W_h >= 0.);                                     /* a normalised distance */
  double c = Cov_evaluateCov(W_h), p = published(W_h);
  __CPROVER_assert(SAMED(c, p), "equals the published closed form for every distance and parameter (libm functions uninterpreted)");
  VF_REACH();
}
""" % CLOSED[name]
    return Unit("C03.Cov%s" % name, [f], prelude=LIBM, harness=h, inputs=[("double", "W_h"), ("double", "W_param")], unwind=2,
                checks=[], backends=("cvc5", "minisat"), timeout=300,
                claim=("Cov%s::_evaluateCov equals the published closed form for every non-negative normalised distance and every parameter value, exp / pow / sin / cos "
                       "being uninterpreted functions: which function is applied to which argument, the cut-off and the value at the origin" % name),
                assumptions=["libm functions trusted (uninterpreted); the published form is the expression in specs/C03.py CLOSED"],
                canaries=[{"fn": "Cov%s::_evaluateCov" % name, "rx": r"\* h\)" if name == "Cosinus" else r"\bh\b(?!\))", "rp": "* (h + 1.))" if name == "Cosinus" else "(h + 1.)",
                           "count": 1, "expect": r"assertion"}])


def unit_factories():
    """the range handed to a factory is the range of the structure it returns: the third parameter must be installed before ranges are converted to scales"""
    CA = "src/Covariances/CovAniso.cpp"
    pre = """
#define nullptr 0
#define messerr(...) ((void)0)
int nondet_int(); bool nondet_bool(); double nondet_double();
struct VectorDouble { int n; VectorDouble() : n(0) {} int size() const { return n; } bool empty() const { return n <= 0; } };
struct MatrixSquareSymmetric { int n; int getNSize() const { return n; } };
struct ECov { int v; };
struct CovContext { int nvar, ndim; int getNVar() const { return nvar; } int getNDim() const { return ndim; } };
bool __CPROVER_uninterpreted_hasparam(int);
int g_bad_order, g_ranges_set, g_scales_set, g_param_set, g_sill_set;
/* contract of CovAniso as the factories use it (CovAniso.cpp): setRanges / setRangeIsotropic divide the range by scadef(type, CURRENT third parameter) to get the
   scale; setParam installs the parameter without rescaling.  So a range set before the parameter is converted with the wrong factor. */
class CovAniso { public: int _type; bool _paramSet;
  CovAniso(const ECov& type, const CovContext& ctxt) : _type(type.v), _paramSet(false) {}
  CovAniso(const ECov& type, double range, double param, double sill, const CovContext& ctxt, bool flagRange) : _type(type.v), _paramSet(true) { g_ranges_set = 1; g_param_set = 1; g_sill_set = 1; }
  void setParam(double p) { _paramSet = true; g_param_set = 1; }
  void setRanges(const VectorDouble& r) { if (!_paramSet && __CPROVER_uninterpreted_hasparam(_type)) g_bad_order = 1; g_ranges_set = 1; }
  void setRangeIsotropic(double r) { if (!_paramSet && __CPROVER_uninterpreted_hasparam(_type)) g_bad_order = 1; g_ranges_set = 1; }
  void setScales(const VectorDouble& r) { g_scales_set = 1; } void setScale(double r) { g_scales_set = 1; }
  void setSill(double s) { g_sill_set = 1; } void setSill(const MatrixSquareSymmetric& s) { g_sill_set = 1; }
  void setAnisoAngles(const VectorDouble& a) {}
  static CovAniso* createIsotropic(const CovContext& ctxt, const ECov& type, double range, double sill, double param, bool flagRange);
  static CovAniso* createAnisotropic(const CovContext& ctxt, const ECov& type, const VectorDouble& ranges, double sill, double param, const VectorDouble& angles, bool flagRange);
  static CovAniso* createIsotropicMulti(const CovContext& ctxt, const ECov& type, double range, const MatrixSquareSymmetric& sills, double param, bool flagRange);
  static CovAniso* createAnisotropicMulti(const CovContext& ctxt, const ECov& type, const VectorDouble& ranges, const MatrixSquareSymmetric& sills, double param, const VectorDouble& angles, bool flagRange); };
"""
    fns = [Fn("CovAniso::createIsotropic", CA, r"^CovAniso\* CovAniso::createIsotropic\(const CovContext &ctxt,[^{]*?bool flagRange\)\s*$"),
           Fn("CovAniso::createAnisotropic", CA, r"^CovAniso\* CovAniso::createAnisotropic\(const CovContext &ctxt,[^{]*?bool flagRange\)\s*$"),
           Fn("CovAniso::createIsotropicMulti", CA, r"^CovAniso\* CovAniso::createIsotropicMulti\(const CovContext &ctxt,[^{]*?bool flagRange\)\s*$"),
           Fn("CovAniso::createAnisotropicMulti", CA, r"^CovAniso\* CovAniso::createAnisotropicMulti\(const CovContext &ctxt,[^{]*?bool flagRange\)\s*$")]
    h = """
void vf_harness()
{
  CovContext ctxt; ctxt.nvar = nondet_int(); ctxt.ndim = nondet_int(); ECov type; type.v = nondet_int();
  VectorDouble ranges, angles; ranges.n = nondet_int(); angles.n = nondet_int(); MatrixSquareSymmetric sills; sills.n = nondet_int();
  bool flagRange = nondet_bool(); int which = nondet_int();
  g_bad_order = 0; g_ranges_set = 0; g_scales_set = 0; g_param_set = 0; g_sill_set = 0;
  CovAniso* c = 0;
  if (which == 0) c = CovAniso::createIsotropic(ctxt, type, nondet_double(), nondet_double(), nondet_double(), flagRange);
  else if (which == 1) c = CovAniso::createAnisotropic(ctxt, type, ranges, nondet_double(), nondet_double(), angles, flagRange);
  else if (which == 2) c = CovAniso::createIsotropicMulti(ctxt, type, nondet_double(), sills, nondet_double(), flagRange);
  else c = CovAniso::createAnisotropicMulti(ctxt, type, ranges, sills, nondet_double(), angles, flagRange);
  __CPROVER_assert(!g_bad_order, "the third parameter is installed before a range is converted into a scale (otherwise the structure returned does not have the requested range)");
  __CPROVER_assert(c == 0 || (g_param_set && g_sill_set && (g_ranges_set || g_scales_set)), "a structure that is returned has received its parameter, its sill and its range or scale");
  VF_REACH();
}
"""
    return Unit("C03.CovAniso.factories", fns, mode="cpp", prelude=pre, harness=h, unwind=2, checks=[], backends=("minisat", "cadical"), timeout=300,
                ignore=r"delete argument must be dynamic object|double delete",
                claim=("CovAniso::createIsotropic / createAnisotropic / createIsotropicMulti / createAnisotropicMulti: whatever the structure type, the third parameter is "
                       "installed before any range is converted into a scale, and a structure that is returned has received parameter, sill and range (or scale)"),
                assumptions=["Route X; CovAniso enters through a typestate stub derived from CovAniso.cpp (setRanges / setRangeIsotropic use scadef(type, current parameter); setParam does not rescale)"],
                canaries=[{"fn": "CovAniso::createAnisotropicMulti", "rx": r"cov->setSill\(sills\);", "rp": ";", "expect": r"assertion"}])



def unit_dimension_gate():
    """a basic structure is offered only in the space dimensions where it is valid"""
    CA = "src/Covariances/CovAniso.cpp"
    pre = """
#define nullptr 0
int nondet_int(); bool nondet_bool();
int g_thrown;
#define my_throw(msg) do { g_thrown = 1; return; } while (0)
struct CovContext { unsigned int ndim; unsigned int getNDim() const { return ndim; } };
/* a basic structure: its own maximum space dimension (0 = no limit), as the overriding getMaxNDim() of the concrete class reports it */
class ACovFunc { public: unsigned int maxndim; CovContext _ctxt; unsigned int getMaxNDim() const { return maxndim; } bool isConsistent() const; };
struct String {}; struct ECov { int v; };
ACovFunc g_func;
struct CovFactory { static ACovFunc* createCovFunc(const ECov& type, const CovContext& ctxt) { g_func._ctxt = ctxt; return &g_func; }
                    static ECov identifyCovariance(const String&, const CovContext&) { ECov e; e.v = nondet_int(); return e; } };
ACovFunc* _cova; int g_init_calls;
static void _initFromContext() { g_init_calls++; }
struct SillStub { void setValue(int, int, double) {} void fill(double) {} }; SillStub _sill;
static void setParam(double) {} static void setRangeIsotropic(double) {} static void setScale(double) {}
"""
    f0 = Fn("ACovFunc::isConsistent", "src/Covariances/ACovFunc.cpp", r"^bool ACovFunc::isConsistent\(\) const\s*$")
    # the three constructors of CovAniso: only their bodies are taken (member initialisers bound by the prelude)
    c1 = Fn("CovAniso::CovAniso(type, ctxt)", CA, r"^CovAniso::CovAniso\(const ECov &type, const CovContext &ctxt\)\s*\n(?:\s+[:,_].*\n)*?\s+_optimEnabled\(true\)\s*$",
            csig="void CovAniso_ctor1(const ECov& type, const CovContext& ctxt)")
    c2 = Fn("CovAniso::CovAniso(symbol, ctxt)", CA, r"^CovAniso::CovAniso\(const String &symbol, const CovContext &ctxt\)\s*\n(?:\s+[:,_].*\n)*?\s+_optimEnabled\(true\)\s*$",
            csig="void CovAniso_ctor2(const String& symbol, const CovContext& ctxt)")
    h = """
void vf_harness()
{
  CovContext ctxt; ctxt.ndim = nondet_int(); __CPROVER_assume(1 <= ctxt.ndim && ctxt.ndim <= 10);
  g_func.maxndim = nondet_int(); __CPROVER_assume(g_func.maxndim <= 5);
  g_thrown = 0; g_init_calls = 0;
  ECov type; type.v = nondet_int(); String sym;
  if (nondet_bool()) { _cova = CovFactory::createCovFunc(type, ctxt); CovAniso_ctor1(type, ctxt); }      /* member initialiser: _cova(CovFactory::createCovFunc(type, ctxt)) */
  else { _cova = 0; CovAniso_ctor2(sym, ctxt); }
  bool valid = !(g_func.maxndim > 0 && g_func.maxndim < ctxt.ndim);
  __CPROVER_assert(valid || g_thrown, "a structure whose maximum space dimension is below the dimension of the context is refused at construction");
  __CPROVER_assert(!valid || (!g_thrown && g_init_calls == 1), "a valid structure is constructed");
  VF_REACH();
}
"""
    return Unit("C03.dimension_gate", [f0, c1, c2], mode="cpp", prelude=pre, harness=h, unwind=2, checks=[], backends=("minisat", "cadical"), timeout=300,
                claim=("CovAniso(type, ctxt) / CovAniso(symbol, ctxt): a basic structure whose getMaxNDim() (as overridden by the concrete class) is below the space "
                       "dimension of the context is refused at construction; ACovFunc::isConsistent is the real text"),
                assumptions=["Route X; constructor BODIES only (member initialisers are bound by the prelude: _cova is the object the factory returned)",
                             "the third constructor (type, range, param, sill, ctxt) carries the same test (must-fire lexical rule below)"],
                canaries=[{"fn": "ACovFunc::isConsistent", "rx": r"maxndim < _ctxt\.getNDim\(\)", "rp": "maxndim + 1 < _ctxt.getNDim()", "expect": r"assertion"}])


def unit_param_domain():
    """the shape parameter accepted by a structure stays inside the domain where its published form is a valid (positive definite) model"""
    # published validity domains: Stable exp(-(h/a)^alpha): alpha in ]0, 2]; Power h^alpha: alpha in ]0, 2[; J-Bessel: order >= (ndim-2)/2 handled elsewhere
    DOM = [("CovStable", "<= 2."), ("CovPower", "< 2.")]
    fns = [Fn("%s::getParMax" % c, "include/Covariances/%s.hpp" % c, r"^\s*double\s+getParMax\(\)\s*const override\s*", csig="double %s_getParMax(void)" % c) for c, _ in DOM]
    setp = Fn("ACovFunc::setParam", "src/Covariances/ACovFunc.cpp", r"^void ACovFunc::setParam\(double param\)\s*$", csig="void ACovFunc_setParam(double param)")
    pre = """
#define MAX_PARAM 1000
#define TEST 1.234e30
#define TEST_COMP 1.000e30
#define FFFF(x) ((x) != (x) || (x) > TEST_COMP)
int g_thrown; double _param; int g_which;
#define my_throw(msg) do { g_thrown = 1; return; } while (0)
static _Bool hasParam(void) { return 1; }
%s
static double getParMax(void) { %s return 0.; }
""" % ("\n".join("double %s_getParMax(void);" % c for c, _ in DOM), " ".join("if (g_which == %d) return %s_getParMax();" % (k, c) for k, (c, _) in enumerate(DOM)))
    h = """
void vf_harness(void)
{
  vf_havoc_inputs();
""" + "".join('  __CPROVER_assert(%s_getParMax() %s, "%s: the largest accepted shape parameter lies inside the published validity domain");\n' % (c, d, c) for c, d in DOM) + """
  __CPROVER_assume(0 <= W_which && W_which < %d);
  g_which = W_which; g_thrown = 0; _param = 1.;
  __CPROVER_assume(W_param == W_param);          /* a number */
  ACovFunc_setParam(W_param);
  if (W_param < 0. || W_param > 2.) __CPROVER_assert(g_thrown && _param == 1., "a shape parameter outside the validity domain of these structures is refused and not installed");
  if (!g_thrown) __CPROVER_assert(_param == W_param, "an accepted parameter is installed as given");
  VF_REACH();
}
""" % len(DOM)
    return Unit("C03.param_domain", fns + [setp], prelude=pre, harness=h, inputs=[("double", "W_param"), ("int", "W_which")], unwind=2, checks=[], backends=("minisat", "cadical"), timeout=300,
                claim=("validity domain of the shape parameter (real getParMax of CovStable and CovPower + real ACovFunc::setParam): the Stable exponent is accepted up to 2 only and the Power "
                       "exponent below 2 only — beyond, the published forms are not positive definite — and a parameter outside the domain is refused without being installed"),
                assumptions=["published domains: Stable ]0,2], Power ]0,2[ (Chiles & Delfiner)"],
                canaries=[{"fn": "ACovFunc::setParam", "rx": r"param > max", "rp": "param > max + 1.", "expect": r"assertion"}])


def units(tier):
    return [unit_factories(), unit_dimension_gate(), unit_param_domain()] + [unit_struct(n) for n in STRUCTS] + [unit_closed(n) for n in CLOSED]


META = {
    "level": "other",
    "explanation": ("Only closed-form clauses of six compactly supported polynomial structures: support, C(0) and agreement with the published polynomial at more than "
                    "degree+1 points. Positive-definiteness itself — the heart of C03 — is not decidable with contracts."),
    "trusted_base": ["CBMC 6.11 floating-point arithmetic"],
    "assumptions": [],
    "not_covered": ["positive (semi-)definiteness of covariance matrices", "|C(h)| <= C(0)", "anisotropy / rotation of the distance", "variogram mode", "Matern / Bessel / Power / Linear / spline structures (special functions, field-dependent constants)", "the practical-range constants (getScadef)",
                    "validity dimensions (getMaxNDim)", "practical-range constants"],
}
MANIFEST = {
    "category": "other",
    "text": "Partial: compact support, C(0)=1 and agreement with the published polynomial for Spherical, Cubic, Triangle, Wendland0/1/2, Penta; equality with the published closed form (libm functions uninterpreted) for Exponential, Gaussian, Stable, Cauchy, Gamma, Sincard, Cosinus, Storkey.",
    "note": "Positive-definiteness N/A for this technique.",
    "design_ref": "DESIGN.md 3 C03",
}
