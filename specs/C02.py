"""C02 — kriging is exact, unbiased, linear, relabelling-invariant: only the clauses reducible to code structure."""
from tools.vf import Fn, Unit

KS = "src/Estimation/KrigingSystem.cpp"
BOOL = "typedef _Bool bool;\n#define true 1\n#define false 0\n"


def unit_stdv():
    pre = BOOL + """
#define TEST 1.234e30
#define NVCL 3
int _nvarCL, _iechOut, _iptrStd; bool _flagNoStat, _flagPerCell, _flagBayes;
double g_stored[NVCL]; int g_stored_n[NVCL];          /* ghost: what is written in the output Db, per variable */
static void VF_results_prod(void) {}
static void _variance0(void) {}
static double _getVAR0(int i, int j) { return W_var0[i]; }
static double VF_varCorrec(int i, int j) { return W_vcor[i]; }
static double VF_results(int i, int j) { return W_res[i]; }
/* libm contract: for a positive finite argument sqrt returns a non-negative number that is not NaN */
static double sqrt(double x) { double r = W_sqrt; __CPROVER_assume(!(x > 0.) || (r >= 0. && r == r)); return r; }
static void VF_setArray(int iech, int icol, double v) { int k = icol - _iptrStd; __CPROVER_assert(0 <= k && k < NVCL, "output column"); g_stored[k] = v; g_stored_n[k]++; }
"""
    f = Fn("KrigingSystem::_estimateStdv", KS, r"^void KrigingSystem::_estimateStdv\(int status\)\s*$", csig="void KrigingSystem_estimateStdv(int status)",
           rewrites=[(r"_results\.prodMatMatInPlace\(_rhs, &_wgt, true, false\);", "VF_results_prod();", 1),
                     (r"_varCorrec\.getValue\(ivarCL, ivarCL\)", "VF_varCorrec(ivarCL, ivarCL)", 1),
                     (r"_results\.getValue\(ivarCL, ivarCL, false\)", "VF_results(ivarCL, ivarCL)", 1),
                     (r"_dbout->setArray\(", "VF_setArray(", 2)])
    h = """
void vf_harness(void)
{
  vf_havoc_inputs();
  _nvarCL = W_n; __CPROVER_assume(1 <= _nvarCL && _nvarCL <= NVCL);
  _iptrStd = 10; _flagBayes = W_bayes; _flagNoStat = 0; _flagPerCell = 0;
  for (int k = 0; k < NVCL; k++) g_stored_n[k] = 0;
  KrigingSystem_estimateStdv(W_status);
  for (int k = 0; k < NVCL; k++) if (k < _nvarCL) {
    __CPROVER_assert(g_stored_n[k] == 1, "exactly one standard deviation is stored per variable");
    if (W_status == 0) __CPROVER_assert(g_stored[k] >= 0. && g_stored[k] == g_stored[k], "the stored standard deviation is never NaN and never negative, whatever variance the system yields");
    if (W_status == 0) { double var = W_var0[k]; if (W_bayes) var += W_vcor[k]; var -= W_res[k];
      if (!(var > 0.)) __CPROVER_assert(g_stored[k] == 0., "a non-positive (or NaN) variance gives a zero standard deviation"); }
    else __CPROVER_assert(g_stored[k] == TEST, "a failed system stores the undefined value");
  }
  VF_REACH();
}
"""
    return Unit("C02.estimateStdv", [f], prelude=pre, harness=h, pre_inputs=BOOL, unwind=5, checks=["--bounds-check", "--pointer-check"],
                inputs=[("double", "W_var0", "3"), ("double", "W_vcor", "3"), ("double", "W_res", "3"), ("double", "W_sqrt"), ("int", "W_n"), ("int", "W_status"), ("bool", "W_bayes")],
                bounded="<= 3 output variables (loop unwound with unwinding assertions)", backends=("minisat", "cadical", "cvc5"), timeout=300,
                claim=("KrigingSystem::_estimateStdv: for every value of the a-priori variance, Bayesian correction and rhs^T.weights (all doubles, NaN included) "
                       "the standard deviation written in the output is not NaN and >= 0, is 0 when the variance is not positive, and is the undefined value "
                       "when the system failed"),
                assumptions=["sqrt(x) for x > 0 returns a non-negative non-NaN number (libm contract)", "matrix getters / Db::setArray bound to ghosts (5 must-fire rewrites)"],
                canaries=[{"fn": "KrigingSystem::_estimateStdv", "rx": r"if \(var > 0\) stdv = sqrt\(var\);", "rp": "stdv = sqrt(var);", "expect": r"assertion"}])


def unit_nugget():
    f = Fn("CovNugget::_evaluateCov", "src/Covariances/CovNugget.cpp", r"^double CovNugget::_evaluateCov\(double h\) const\s*$", csig="double CovNugget_evaluateCov(double h)")
    h = """
void vf_harness(void)
{
  vf_havoc_inputs();
  double c = CovNugget_evaluateCov(W_h);
  double a = W_h < 0. ? -W_h : W_h;
  __CPROVER_assert(c == ((a < 1.e-10) ? 1. : 0.), "nugget correlation is 1 at (numerically) zero distance and 0 elsewhere, NaN distance included");
  VF_REACH();
}
"""
    return Unit("C02.CovNugget", [f], prelude="#define ABS(a) (((a) < 0.) ? -(a) : (a))\n", harness=h, inputs=[("double", "W_h")], checks=[],
                claim="CovNugget::_evaluateCov returns 1 iff |h| < 1e-10, else 0 — the same function for the left- and right-hand sides, so a datum coinciding with the target sees the nugget",
                canaries=[{"fn": "CovNugget::_evaluateCov", "rx": r"ABS\(h\) < 1\.e-10", "rp": "h < 1.e-10", "expect": r"assertion"}])


def unit_getmean():
    pre = BOOL + """
int _nfeq, _nvar, _iechOut; bool _flagBayes, _flagNoMatLC;
static double VF_model_getMean(int ivar) { return W_mean[ivar & 1]; }
static double VF_evalDriftVarCoef(int ivar) { return W_bmean[ivar & 1]; }
static double VF_matLC(int i, int j) { return W_lc[(i & 1) * 2 + (j & 1)]; }
"""
    f = Fn("KrigingSystem::_getMean", KS, r"^double KrigingSystem::_getMean\(int ivar, bool flagLHS\) const\s*$", csig="double KrigingSystem_getMean(int ivar, bool flagLHS)",
           rewrites=[(r"_model->getMean\(", "VF_model_getMean(", 2), (r"_model->evalDriftVarCoef\(_dbout, _iechOut, (\w+), _postMean\)", r"VF_evalDriftVarCoef(\1)", 2),
                     (r"_matLC->getValue\(", "VF_matLC(", 1)])
    h = """
void vf_harness(void)
{
  vf_havoc_inputs();
  _nfeq = W_nfeq; _nvar = 2; _flagBayes = W_bayes; _flagNoMatLC = W_nolc;
  double m = KrigingSystem_getMean(W_ivar & 1, W_lhs);
  if (W_nfeq > 0 && !W_bayes) __CPROVER_assert(m == 0., "with drift (universality) equations and no Bayesian prior, no mean is subtracted from the data nor added to the estimate");
  else if (W_nolc || W_lhs) { double e = W_bayes ? W_bmean[W_ivar & 1] : W_mean[W_ivar & 1]; __CPROVER_assert(m == e || (m != m && e != e), "known mean of the variable (or its Bayesian value)"); }
  VF_REACH();
}
"""
    return Unit("C02.getMean", [f], prelude=pre, harness=h, pre_inputs=BOOL, unwind=4, checks=["--bounds-check"],
                inputs=[("double", "W_mean", "2"), ("double", "W_bmean", "2"), ("double", "W_lc", "4"), ("int", "W_nfeq"), ("int", "W_ivar"), ("bool", "W_bayes"), ("bool", "W_nolc"), ("bool", "W_lhs")],
                claim="KrigingSystem::_getMean returns 0 whenever drift equations are present (unknown mean / drift), the model mean of the variable otherwise",
                assumptions=["2 variables; model getters bound to ghost tables"],
                canaries=[{"fn": "KrigingSystem::_getMean", "rx": r"if \(_nfeq > 0 && ! _flagBayes\) return 0\.;", "rp": "if (_nfeq > 1 && ! _flagBayes) return 0.;", "expect": r"assertion"}])


def unit_rhs_drift():
    """the universality rows of the right-hand side: drift functions of the TARGET, in the rows the LHS uses for the same drift functions"""
    pre = BOOL + """
#define SAMED(x, y) ((x) == (y) || ((x) != (x) && (y) != (y)))
#define NE 2
#define NV 2
#define NB 2
#define NEQF (NE * NV + NB)
int _nech, _nvar, _nvarCL, _nfeq, _nbfl, _iechOut; bool _flagNoMatLC; double RF[NEQF][NV]; int g_cov_part;
#define IND(iech, ivar)   ((iech) + (ivar) * _nech)
#define E_POINT 0
#define E_BLOCK 1
#define E_DRIFT 2
#define E_DGM 3
static void _rhsCalculPoint(void) { g_cov_part++; } static void _rhsCalculBlock(void) { g_cov_part++; } static void _rhsCalculDrift(void) { g_cov_part++; } static void _rhsCalculDGM(void) { g_cov_part++; }
double __CPROVER_uninterpreted_driftT(int, int, int);      /* Model::evalDriftValue(dbout, target rank, variable, drift index, RHS) */
double __CPROVER_uninterpreted_matLC(int, int);
static double VF_evalDriftTarget(int rank, int ivar, int ib) { return __CPROVER_uninterpreted_driftT(rank, ivar, ib); }
static double VF_matLC(int i, int j) { return __CPROVER_uninterpreted_matLC(i, j); }
double __CPROVER_uninterpreted_mulLC(double, int, int);     /* value * matLC(i, j) */
static double VF_mulLC(double v, int i, int j) { return __CPROVER_uninterpreted_mulLC(v, i, j); }
static bool FFFF(double v) { return v > 1.0e30 || v != v; }
"""
    fns = [Fn("KrigingSystem::_setRHSF", KS, r"^void KrigingSystem::_setRHSF\(int iech, int ivar, int jvCL, double value\)\s*$", csig="void _setRHSF(int iech, int ivar, int jvCL, double value)",
              rewrites=[(r"_rhsf\.setValue\(ind, jvCL, value, false\);", "RF[ind][jvCL] = value;", 1)]),
           Fn("KrigingSystem::_rhsCalcul", KS, r"^int KrigingSystem::_rhsCalcul\(\)\s*$", csig="int KrigingSystem_rhsCalcul(void)",
              rewrites=[(r"_p0\.setIech\(_iechOut\);", ";", "opt"), (r"_p0\.setTarget\(true\);", ";", "opt"), (r"_dbout->getSampleAsSPInPlace\(_p0\);", ";", "opt"),
                        (r"_calcul\.toEnum\(\)", "W_calcul", 1), (r"EKrigOpt::E_(\w+)", r"E_\1", None),
                        (r"_model->evalDriftValue\(_dbout,\s*([^,()]+(?:\[[^\]]*\])?),\s*(\w+),\s*(\w+),\s*ECalcMember::RHS\)", r"VF_evalDriftTarget(\1, \2, \3)", None),
                        # the product with the combination coefficient is an uninterpreted function of (drift value, coefficient indices): floating-point
                        # product equalities do not finish on any back end; the obligation pins WHICH coefficient multiplies WHICH drift value
                        (r"value \*= _matLC->getValue\((\w+),\s*(\w+)\);", r"value = VF_mulLC(value, \1, \2);", "opt"),
                        (r"_matLC->getValue\(", "VF_matLC(", "opt")])]
    h = """
void vf_harness(void)
{
  vf_havoc_inputs();
  _nech = NE; _nvar = NV; _nbfl = W_matLC ? 1 : NB; _nfeq = W_matLC ? NV * _nbfl : NB; _nvarCL = NV; _flagNoMatLC = !W_matLC; _iechOut = W_iechOut; g_cov_part = 0;
  __CPROVER_assume(0 <= W_calcul && W_calcul <= 3);
  for (int a = 0; a < NEQF; a++) for (int b = 0; b < NV; b++) RF[a][b] = 0.;
  int rc = KrigingSystem_rhsCalcul();
  __CPROVER_assert(g_cov_part == 1, "the covariance part of the right-hand side is established exactly once");
  bool undefined = 0;
  if (!W_matLC) { for (int iv = 0; iv < NV; iv++) for (int ib = 0; ib < NB; ib++) if (FFFF(__CPROVER_uninterpreted_driftT(_iechOut, iv, ib))) undefined = 1; }
  else { for (int jv = 0; jv < NV; jv++) if (FFFF(__CPROVER_uninterpreted_driftT(_iechOut, jv, jv))) undefined = 1; }
  __CPROVER_assert((rc != 0) == undefined, "failure is reported exactly when a drift function is undefined at the target");
  if (rc == 0 && !W_matLC)
    for (int iv = 0; iv < NV; iv++) for (int ib = 0; ib < NB; ib++)
      __CPROVER_assert(SAMED(RF[ib + _nvar * _nech][iv], __CPROVER_uninterpreted_driftT(_iechOut, iv, ib)),
                       "universality row ib of the right-hand side = drift function ib of variable iv AT THE TARGET (same row the left-hand side uses for that drift function)");
  if (rc == 0 && W_matLC)
    for (int cl = 0; cl < NV; cl++) for (int jv = 0; jv < NV; jv++)        /* one drift function per variable: ib == jv */
      __CPROVER_assert(SAMED(RF[jv + _nvar * _nech][cl], __CPROVER_uninterpreted_mulLC(__CPROVER_uninterpreted_driftT(_iechOut, jv, jv), cl, jv)),
                       "with a linear combination matrix: row of (variable jv, its drift function) = drift at the target times the combination coefficient");
  VF_REACH();
}
"""
    return Unit("C02.rhsCalcul.drift_rows", fns, prelude=pre, harness=h, pre_inputs=BOOL, unwind=8,
                inputs=[("int", "W_iechOut"), ("int", "W_calcul"), ("bool", "W_matLC")],
                checks=["--bounds-check", "--pointer-check", "--signed-overflow-check"], backends=("minisat", "cadical"), timeout=600,
                bounded="exactly 2 neighbourhood samples, 2 variables, 2 drift equations (unwinding assertions)",
                claim=("KrigingSystem::_rhsCalcul, drift part: whatever the calculation option, every universality row of the right-hand side holds the drift "
                       "function of that row evaluated at the TARGET sample (times the combination coefficient when a matrix of linear combinations is given), in "
                       "the row index the left-hand side uses for the same drift function; failure is reported exactly when a drift value is undefined"),
                assumptions=["BOUNDED stand-in", "Model::evalDriftValue and the combination matrix are uninterpreted functions; the four covariance-part routines are stubs"],
                canaries=[{"fn": "KrigingSystem::_rhsCalcul", "rx": r"_setRHSF\(ib,_nvar,ivar,value\);", "rp": "_setRHSF(ivar,_nvar,ib,value);", "expect": r"assertion"}])


def unit_lhs_drift():
    from specs import C01
    import copy
    u = copy.copy(C01.unit_lhs_assembly(2, 2, 2))
    u.name = "C02.lhsCalcul.drift_rows"
    u.claim = ("[the weights can only reproduce the drift functions if the universality rows/columns hold them at exactly the neighbourhood samples] " + u.claim)
    return u


def unit_driftm_eval():
    """a monomial drift function is the product of the coordinates raised to ITS powers (whatever the degree): this is the function the universality conditions are written for"""
    from tools.vf import Fn, Unit
    ND = 3
    pre = """
#define ND %d
int nondet_int(); bool nondet_bool();
/* abstract domain of the evaluation: a monomial  c * x0^e0 * x1^e1 * x2^e2  with integer exponents (a number when all exponents are 0).
   The real text is compiled with 'double' standing for this domain, so that x*x, pow(x,2) and pow(x,1)*x denote the same value by construction */
struct Sym { int c; int e[ND]; bool bad;
  Sym() : c(0), bad(false) { for (int k = 0; k < ND; k++) e[k] = 0; }
  Sym(int v) : c(v), bad(false) { for (int k = 0; k < ND; k++) e[k] = 0; }
  Sym(const Sym& r) : c(r.c), bad(r.bad) { for (int k = 0; k < ND; k++) e[k] = r.e[k]; }
  Sym& operator=(const Sym& r) { c = r.c; bad = r.bad; for (int k = 0; k < ND; k++) e[k] = r.e[k]; return *this; }
  bool isnum() const { for (int k = 0; k < ND; k++) if (e[k] != 0) return false; return true; }
  Sym& operator*=(const Sym& r) { c = c * r.c; bad = bad || r.bad; for (int k = 0; k < ND; k++) e[k] = e[k] + r.e[k]; return *this; }
};
static Sym operator*(const Sym& a, const Sym& b) { Sym r(a); r *= b; return r; }
static bool operator==(const Sym& a, int v) { return a.isnum() && a.c == v; }
static bool operator!=(const Sym& a, int v) { return !(a == v); }
static bool operator>(const Sym& a, int v) { return a.isnum() && a.c > v; }
static bool operator<(const Sym& a, int v) { return a.isnum() && a.c < v; }
static bool operator>=(const Sym& a, int v) { return a.isnum() && a.c >= v; }
static bool operator<=(const Sym& a, int v) { return a.isnum() && a.c <= v; }
/* pow(monomial, non-negative integer number) */
static Sym pow(const Sym& x, const Sym& p) { Sym r(1); if (!p.isnum() || p.c < 0) { r.bad = true; return r; } r.bad = x.bad || p.bad;
  r.c = 1; for (int q = 0; q < 8; q++) if (q < p.c) r.c = r.c * x.c; for (int k = 0; k < ND; k++) r.e[k] = x.e[k] * p.c; return r; }
static Sym pow(const Sym& x, int p) { return pow(x, Sym(p)); }
struct VectorInt { int a[ND]; int n; int size() const { return n; } int operator[](int i) const { __CPROVER_assert(0 <= i && i < n, "power rank"); return a[i]; } };
struct Db { Sym getCoordinate(int iech, int idim) const { __CPROVER_assert(0 <= idim && idim < ND, "coordinate rank"); Sym r(1); r.e[idim] = 1; return r; } };
#define double Sym
struct DriftM { VectorInt _monomialPower; double eval(const Db* db, int iech) const; };
""" % ND
    f = Fn("DriftM::eval", "src/Drifts/DriftM.cpp", r"^double DriftM::eval\(const Db\* db, int iech\) const\s*$")
    h = """
#undef double
void vf_harness()
{
  DriftM D; Db db;
  D._monomialPower.n = nondet_int(); __CPROVER_assume(0 <= D._monomialPower.n && D._monomialPower.n <= ND);
  for (int k = 0; k < ND; k++) { D._monomialPower.a[k] = nondet_int(); __CPROVER_assume(0 <= D._monomialPower.a[k] && D._monomialPower.a[k] <= 6); }
  Sym v = D.eval(&db, 0);
  __CPROVER_assert(!v.bad && v.c == 1, "the monomial has coefficient 1");
  for (int k = 0; k < ND; k++)
    __CPROVER_assert(v.e[k] == (k < D._monomialPower.n ? D._monomialPower.a[k] : 0), "the monomial carries, for every space dimension, exactly the power declared for it (whatever the degree)");
  VF_REACH();
}
"""
    return Unit("C02.DriftM.eval", [f], mode="cpp", prelude=pre, harness=h, unwind=9, checks=[], backends=("minisat", "cadical"), timeout=600,
                bounded="space dimension <= %d, powers <= 6 (unwinding assertions)" % ND,
                claim=("DriftM::eval (the monomial drift functions 1, x, y, x2, xy, x3, ... that the universality conditions are written for; real text verbatim, evaluated in the "
                       "abstract domain of monomials with integer exponents): the value at a sample is the product over the space dimensions of coordinate ^ declared power, for "
                       "every power up to 6"),
                assumptions=["Route X: 'double' stands for the monomial domain (x*x, pow(x,2) and x*pow(x,1) are the same value by construction); floating-point rounding not modelled"],
                canaries=[{"fn": "DriftM::eval", "rx": r"value \*= pow\(locoor, locpow\);", "rp": "value *= locoor;", "expect": r"assertion"}])


def units(tier):
    return [unit_stdv(), unit_nugget(), unit_getmean(), unit_rhs_drift(), unit_lhs_drift(), unit_driftm_eval()]


META = {
    "level": "other",
    "explanation": ("Only the clauses of C02 that reduce to code structure are decided; exactness, unbiasedness, linearity and invariance under permutation / "
                    "translation are relations between numerical solves and are not decidable with contracts here."),
    "trusted_base": ["CBMC 6.11", "libm sqrt"],
    "assumptions": [],
    "not_covered": ["exact interpolation at data points", "weights reproducing the drift functions (only its structural prerequisite: the universality rows of both sides)", "linearity in the data", "permutation / translation invariance",
                    "stdev^2 <= a-priori variance"],
}
MANIFEST = {
    "category": "other",
    "text": "Partial: the stored standard deviation is always a non-negative non-NaN number; nugget counted at zero distance; no mean subtracted when drift equations are present; universality rows of the left- and right-hand sides hold the drift functions of exactly the neighbourhood samples / the target; a monomial drift function carries exactly its declared powers (abstract-domain evaluation of DriftM::eval).",
    "note": "Relations between numerical solves (exactness, unbiasedness, linearity, invariances) are N/A for this technique.",
    "design_ref": "DESIGN.md 3 C02",
}
