"""C02 — kriging is exact, unbiased, linear, relabelling-invariant: only the clauses reducible to code structure."""
from tools.vf import Fn, Unit

KS = "src/Estimation/KrigingSystem.cpp"
BOOL = "typedef _Bool bool;\n#define true 1\n#define false 0\n"


def unit_stdv():
    pre = BOOL + """
#define TEST 1.234e30
#define NVCL 3
int _nvarCL, _iechOut, _iptrStd; bool _flagNoStat, _flagPerCell, _flagBayes;
double g_stored[NVCL]; int g_stored_n[NVCL];          /* ghost: what is written in the output Db, per variable */
static void VF_results_prod(void) {}
static void _variance0(void) {}
static double _getVAR0(int i, int j) { return W_var0[i]; }
static double VF_varCorrec(int i, int j) { return W_vcor[i]; }
static double VF_results(int i, int j) { return W_res[i]; }
/* libm contract: for a positive finite argument sqrt returns a non-negative number that is not NaN */
static double sqrt(double x) { double r = W_sqrt; __CPROVER_assume(!(x > 0.) || (r >= 0. && r == r)); return r; }
static void VF_setArray(int iech, int icol, double v) { int k = icol - _iptrStd; __CPROVER_assert(0 <= k && k < NVCL, "output column"); g_stored[k] = v; g_stored_n[k]++; }
"""
    f = Fn("KrigingSystem::_estimateStdv", KS, r"^void KrigingSystem::_estimateStdv\(int status\)\s*$", csig="void KrigingSystem_estimateStdv(int status)",
           rewrites=[(r"_results\.prodMatMatInPlace\(_rhs, &_wgt, true, false\);", "VF_results_prod();", 1),
                     (r"_varCorrec\.getValue\(ivarCL, ivarCL\)", "VF_varCorrec(ivarCL, ivarCL)", 1),
                     (r"_results\.getValue\(ivarCL, ivarCL, false\)", "VF_results(ivarCL, ivarCL)", 1),
                     (r"_dbout->setArray\(", "VF_setArray(", 2)])
    h = """
void vf_harness(void)
{
  vf_havoc_inputs();
  _nvarCL = W_n; __CPROVER_assume(1 <= _nvarCL && _nvarCL <= NVCL);
  _iptrStd = 10; _flagBayes = W_bayes; _flagNoStat = 0; _flagPerCell = 0;
  for (int k = 0; k < NVCL; k++) g_stored_n[k] = 0;
  KrigingSystem_estimateStdv(W_status);
  for (int k = 0; k < NVCL; k++) if (k < _nvarCL) {
    __CPROVER_assert(g_stored_n[k] == 1, "exactly one standard deviation is stored per variable");
    if (W_status == 0) __CPROVER_assert(g_stored[k] >= 0. && g_stored[k] == g_stored[k], "the stored standard deviation is never NaN and never negative, whatever variance the system yields");
    if (W_status == 0) { double var = W_var0[k]; if (W_bayes) var += W_vcor[k]; var -= W_res[k];
      if (!(var > 0.)) __CPROVER_assert(g_stored[k] == 0., "a non-positive (or NaN) variance gives a zero standard deviation"); }
    else __CPROVER_assert(g_stored[k] == TEST, "a failed system stores the undefined value");
  }
  VF_REACH();
}
"""
    return Unit("C02.estimateStdv", [f], prelude=pre, harness=h, pre_inputs=BOOL, unwind=5, checks=["--bounds-check", "--pointer-check"],
                inputs=[("double", "W_var0", "3"), ("double", "W_vcor", "3"), ("double", "W_res", "3"), ("double", "W_sqrt"), ("int", "W_n"), ("int", "W_status"), ("bool", "W_bayes")],
                bounded="<= 3 output variables (loop unwound with unwinding assertions)", backends=("minisat", "cadical", "cvc5"), timeout=300,
                claim=("KrigingSystem::_estimateStdv: for every value of the a-priori variance, Bayesian correction and rhs^T.weights (all doubles, NaN included) "
                       "the standard deviation written in the output is not NaN and >= 0, is 0 when the variance is not positive, and is the undefined value "
                       "when the system failed"),
                assumptions=["sqrt(x) for x > 0 returns a non-negative non-NaN number (libm contract)", "matrix getters / Db::setArray bound to ghosts (5 must-fire rewrites)"],
                canaries=[{"fn": "KrigingSystem::_estimateStdv", "rx": r"if \(var > 0\) stdv = sqrt\(var\);", "rp": "stdv = sqrt(var);", "expect": r"assertion"}])


def unit_nugget():
    f = Fn("CovNugget::_evaluateCov", "src/Covariances/CovNugget.cpp", r"^double CovNugget::_evaluateCov\(double h\) const\s*$", csig="double CovNugget_evaluateCov(double h)")
    h = """
void vf_harness(void)
{
  vf_havoc_inputs();
  double c = CovNugget_evaluateCov(W_h);
  double a = W_h < 0. ? -W_h : W_h;
  __CPROVER_assert(c == ((a < 1.e-10) ? 1. : 0.), "nugget correlation is 1 at (numerically) zero distance and 0 elsewhere, NaN distance included");
  VF_REACH();
}
"""
    return Unit("C02.CovNugget", [f], prelude="#define ABS(a) (((a) < 0.) ? -(a) : (a))\n", harness=h, inputs=[("double", "W_h")], checks=[],
                claim="CovNugget::_evaluateCov returns 1 iff |h| < 1e-10, else 0 — the same function for the left- and right-hand sides, so a datum coinciding with the target sees the nugget",
                canaries=[{"fn": "CovNugget::_evaluateCov", "rx": r"ABS\(h\) < 1\.e-10", "rp": "h < 1.e-10", "expect": r"assertion"}])


def unit_getmean():
    pre = BOOL + """
int _nfeq, _nvar, _iechOut; bool _flagBayes, _flagNoMatLC;
static double VF_model_getMean(int ivar) { return W_mean[ivar & 1]; }
static double VF_evalDriftVarCoef(int ivar) { return W_bmean[ivar & 1]; }
static double VF_matLC(int i, int j) { return W_lc[(i & 1) * 2 + (j & 1)]; }
"""
    f = Fn("KrigingSystem::_getMean", KS, r"^double KrigingSystem::_getMean\(int ivar, bool flagLHS\) const\s*$", csig="double KrigingSystem_getMean(int ivar, bool flagLHS)",
           rewrites=[(r"_model->getMean\(", "VF_model_getMean(", 2), (r"_model->evalDriftVarCoef\(_dbout, _iechOut, (\w+), _postMean\)", r"VF_evalDriftVarCoef(\1)", 2),
                     (r"_matLC->getValue\(", "VF_matLC(", 1)])
    h = """
void vf_harness(void)
{
  vf_havoc_inputs();
  _nfeq = W_nfeq; _nvar = 2; _flagBayes = W_bayes; _flagNoMatLC = W_nolc;
  double m = KrigingSystem_getMean(W_ivar & 1, W_lhs);
  if (W_nfeq > 0 && !W_bayes) __CPROVER_assert(m == 0., "with drift (universality) equations and no Bayesian prior, no mean is subtracted from the data nor added to the estimate");
  else if (W_nolc || W_lhs) { double e = W_bayes ? W_bmean[W_ivar & 1] : W_mean[W_ivar & 1]; __CPROVER_assert(m == e || (m != m && e != e), "known mean of the variable (or its Bayesian value)"); }
  VF_REACH();
}
"""
    return Unit("C02.getMean", [f], prelude=pre, harness=h, pre_inputs=BOOL, unwind=4, checks=["--bounds-check"],
                inputs=[("double", "W_mean", "2"), ("double", "W_bmean", "2"), ("double", "W_lc", "4"), ("int", "W_nfeq"), ("int", "W_ivar"), ("bool", "W_bayes"), ("bool", "W_nolc"), ("bool", "W_lhs")],
                claim="KrigingSystem::_getMean returns 0 whenever drift equations are present (unknown mean / drift), the model mean of the variable otherwise",
                assumptions=["2 variables; model getters bound to ghost tables"],
                canaries=[{"fn": "KrigingSystem::_getMean", "rx": r"if \(_nfeq > 0 && ! _flagBayes\) return 0\.;", "rp": "if (_nfeq > 1 && ! _flagBayes) return 0.;", "expect": r"assertion"}])


def units(tier):
    return [unit_stdv(), unit_nugget(), unit_getmean()]


META = {
    "level": "other",
    "explanation": ("Only the clauses of C02 that reduce to code structure are decided; exactness, unbiasedness, linearity and invariance under permutation / "
                    "translation are relations between numerical solves and are not decidable with contracts here."),
    "trusted_base": ["CBMC 6.11", "libm sqrt"],
    "assumptions": [],
    "not_covered": ["exact interpolation at data points", "weights reproducing the drift functions", "linearity in the data", "permutation / translation invariance",
                    "stdev^2 <= a-priori variance"],
}
MANIFEST = {
    "category": "other",
    "text": "Partial: the stored standard deviation is always a non-negative non-NaN number; nugget counted at zero distance; no mean subtracted when drift equations are present.",
    "note": "Relations between numerical solves (exactness, unbiasedness, linearity, invariances) are N/A for this technique.",
    "design_ref": "DESIGN.md 3 C02",
}
