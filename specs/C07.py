"""C07 — a Db stays a consistent table under any sequence of edits.

History quantifier -> induction over operations: WF(DB) is a representation invariant; every editing operation under
contract has `requires WF ensures WF && view' = op(view)`.  Route C: real bodies from src/Db/Db.cpp, src/Db/PtrGeos.cpp,
include/Db/PtrGeos.hpp, src/Basic/AStringable.cpp (checkArg) with the member binding prelude below."""
from tools.vf import Fn, Unit

DBC = "src/Db/Db.cpp"
PGC = "src/Db/PtrGeos.cpp"
PGH = "include/Db/PtrGeos.hpp"


def caps(tier):
    # identifiers, columns, samples, role types, entries per role list
    return dict(UMAX=5, CMAX=4, EMAX=3, NLOC=3, RMAX=4) if tier == "quick" else dict(UMAX=7, CMAX=5, EMAX=3, NLOC=4, RMAX=5)


def pre_inputs(c):
    copyp = " ".join("DBP0[%d] = DBP[%d];" % (t, t) for t in range(c["NLOC"]))
    return ("#define VF_COPYP %s\n" % copyp) + """
#define UMAX %(UMAX)d
#define CMAX %(CMAX)d
#define EMAX %(EMAX)d
#define NLOC %(NLOC)d
#define RMAX %(RMAX)d
#define ACAP (CMAX * EMAX)
typedef struct { int a[RMAX]; int n; } ivec;     /* std::vector<int> with capacity RMAX (trusted model) */
typedef struct { ivec _r; } PtrGeos;             /* PtrGeos: one member, VectorInt _r */
typedef struct {
  int ncol, nech;                                 /* _ncol, _nech */
  int uid[UMAX]; int uid_n;                       /* _uidcol and its size() */
  int names_n;                                    /* _colNames.size() (contents = strings: not modelled) */
  double arr[ACAP]; int arr_n;                    /* _array and its size() */
} DbS;
""" % c


BIND = """
DbS DB0; PtrGeos DBP0[NLOC];                      /* ghost snapshot used by loop invariants */
#define VF_SNAPSHOT() do { DB0 = DB; VF_COPYP } while (0)
/* ---- member binding of class Db onto the global DB ---- */
#define _ncol (DB.ncol)
#define _nech (DB.nech)
#define _uidcol DB.uid
#define _p DBP                                   /* _p: one PtrGeos per role type (NLOC of the real 29 types) */
#define _array DB.arr
#define getUIDMaxNumber() (DB.uid_n)            /* Db.hpp: { return (int) _uidcol.size(); } */
#define getNEloc() (NLOC)                         /* number of role types */
#define ELOC_UNKNOWN (-1)
#define mesArg(t, c, n) ((void)0)
#define messerr(...) ((void)0)
typedef _Bool bool;
#define true 1
#define false 0
#define VF_array_resize(m) (DB.arr_n = (m))
#define SAMED(x, y) ((x) == (y) || ((x) != (x) && (y) != (y)))   /* same double value, NaN included */
#define VF_names_erase(c) (DB.names_n -= 1)
"""


# ---- predicates (expanded over the constant capacities) ----------------------------------------------------

def AND(xs):
    xs = list(xs)
    return "(" + " && ".join(xs) + ")" if xs else "1"


def OR(xs):
    xs = list(xs)
    return "(" + " || ".join(xs) + ")" if xs else "0"


def wf(c, D="DB"):
    return _wf(c, D).replace("DB0.p[", "DBP0[").replace("DB.p[", "DBP[")


def _wf(c, D="DB"):
    U, C, N, R = c["UMAX"], c["CMAX"], c["NLOC"], c["RMAX"]
    cl = []
    cl.append("0 <= %s.ncol && %s.ncol <= CMAX && 0 <= %s.nech && %s.nech <= EMAX" % (D, D, D, D))
    cl.append("0 <= %s.uid_n && %s.uid_n <= UMAX && %s.names_n == %s.ncol && %s.arr_n == %s.ncol * %s.nech" % ((D,) * 7))
    # identifier table: values in {-1} U [0,ncol)
    cl.append(AND("(%d >= %s.uid_n || (-1 <= %s.uid[%d] && %s.uid[%d] < %s.ncol))" % (u, D, D, u, D, u, D) for u in range(U)))
    # injective on live identifiers
    cl.append(AND("(%d >= %s.uid_n || %s.uid[%d] < 0 || %s.uid[%d] != %s.uid[%d])" % (v, D, D, u, D, u, D, v)
                  for u in range(U) for v in range(u + 1, U)))
    # onto [0,ncol)
    cl.append(AND("(%d >= %s.ncol || %s)" % (col, D, OR("(%d < %s.uid_n && %s.uid[%d] == %d)" % (u, D, D, u, col) for u in range(U)))
                  for col in range(C)))
    # role lists: sizes, entries are live identifiers
    cl.append(AND("(0 <= %s.p[%d]._r.n && %s.p[%d]._r.n <= RMAX)" % (D, t, D, t) for t in range(N)))
    cl.append(AND("(%d >= %s.p[%d]._r.n || (0 <= %s.p[%d]._r.a[%d] && %s.p[%d]._r.a[%d] < %s.uid_n && %s.uid[%s.p[%d]._r.a[%d]] >= 0))"
                  % (k, D, t, D, t, k, D, t, k, D, D, D, t, k) for t in range(N) for k in range(R)))
    # no identifier has two roles (all entries of all lists pairwise distinct)
    ent = [(t, k) for t in range(N) for k in range(R)]
    cl.append(AND("(%d >= %s.p[%d]._r.n || %d >= %s.p[%d]._r.n || %s.p[%d]._r.a[%d] != %s.p[%d]._r.a[%d])"
                  % (k1, D, t1, k2, D, t2, D, t1, k1, D, t2, k2)
                  for i, (t1, k1) in enumerate(ent) for (t2, k2) in ent[i + 1:]))
    return AND(cl)


def ivec_model(c):
    """trusted model of std::vector<int> with capacity RMAX: loop-free bodies (executed, not replaced)"""
    R = c["RMAX"]
    er = "".join("  if (i <= %d && %d < v->n) v->a[%d] = v->a[%d];\n" % (k, k + 1, k, k + 1) for k in range(R - 1))
    rs = "".join("  if (v->n <= %d && %d < count) v->a[%d] = fill;\n" % (k, k, k) for k in range(R))
    return """
/* ---- trusted model of std::vector<int> (capacity RMAX), straight-line ---- */
void ivec_erase(ivec* v, int i)
{
  __CPROVER_assert(0 <= i && i < v->n && v->n <= RMAX, "std::vector::erase: iterator inside the vector");
%s  v->n = v->n - 1;
}
void ivec_resize(ivec* v, int count, int fill)
{
  __CPROVER_assert(0 <= count && count <= RMAX, "std::vector::resize: count within the modelled capacity");
%s  v->n = count;
}
void ivec_clear(ivec* v) { v->n = 0; }
""" % (er, rs)


# ---- PtrGeos methods (real text) ----------------------------------------------------------------------------
PG_RW = [(r"\bgetLocatorNumber\(\)", "PtrGeos_getLocatorNumber(self)", None),
         (r"\bgetLocatorByIndex\(", "PtrGeos_getLocatorByIndex(self, ", None)]


def ptrgeos_fns(find_contract="", find_loop=None):
    return [
        Fn("PtrGeos::getLocatorByIndex", PGH, r"^\s*int\s+getLocatorByIndex\(int locatorIndex\) const\s*(?=\{)",
           csig="int PtrGeos_getLocatorByIndex(const PtrGeos* self, int locatorIndex)",
           rewrites=[(r"_r\[", "self->_r.a[", 1)]),
        Fn("PtrGeos::setLocatorByIndex", PGH, r"^\s*void\s+setLocatorByIndex\(int locatorIndex, int value\)\s*(?=\{)",
           csig="void PtrGeos_setLocatorByIndex(PtrGeos* self, int locatorIndex, int value)",
           rewrites=[(r"_r\[", "self->_r.a[", 1)]),
        Fn("PtrGeos::getLocatorNumber", PGH, r"^\s*int\s+getLocatorNumber\(\) const\s*(?=\{)",
           csig="int PtrGeos_getLocatorNumber(const PtrGeos* self)",
           rewrites=[(r"static_cast<int>\(_r\.size\(\)\)", "(int)(self->_r.n)", 1)]),
        Fn("PtrGeos::resize", PGH, r"^\s*void\s+resize\(int count\)\s*(?=\{)",
           csig="void PtrGeos_resize(PtrGeos* self, int count)",
           rewrites=[(r"_r\.resize\(count,\s*0\)", "ivec_resize(&self->_r, count, 0)", 1)]),
        Fn("PtrGeos::clear", PGC, r"^void PtrGeos::clear\(\)\s*$", csig="void PtrGeos_clear(PtrGeos* self)",
           rewrites=[(r"_r\.clear\(\)", "ivec_clear(&self->_r)", 1)]),
        Fn("PtrGeos::erase", PGC, r"^void PtrGeos::erase\(int locatorIndex\)\s*$",
           csig="void PtrGeos_erase(PtrGeos* self, int locatorIndex)",
           rewrites=[(r"_r\.erase\(_r\.begin\(\) \+ locatorIndex\)", "ivec_erase(&self->_r, locatorIndex)", 1)]),
        Fn("PtrGeos::findUIDInLocator", PGC, r"^int PtrGeos::findUIDInLocator\(int iuid\) const\s*$",
           csig="int PtrGeos_findUIDInLocator(const PtrGeos* self, int iuid)", rewrites=PG_RW,
           contract=find_contract, loops=find_loop),
    ]


def find_contract(c):
    R = c["RMAX"]
    return "\n".join([
        "__CPROVER_requires(0 <= self->_r.n && self->_r.n <= RMAX)",
        "__CPROVER_assigns()",
        "__CPROVER_ensures(-1 <= __CPROVER_return_value && __CPROVER_return_value < self->_r.n)",
        "__CPROVER_ensures(__CPROVER_return_value < 0 || self->_r.a[__CPROVER_return_value] == iuid)",
        # first occurrence / absent
        "__CPROVER_ensures(%s)" % AND("(%d >= self->_r.n || (__CPROVER_return_value >= 0 && %d >= __CPROVER_return_value) || self->_r.a[%d] != iuid)"
                                      % (k, k, k) for k in range(R)),
    ])


def find_loop(c):
    R = c["RMAX"]
    return {1: "\n".join([
        "__CPROVER_assigns(locatorIndex)",
        "__CPROVER_loop_invariant(0 <= locatorIndex && locatorIndex <= self->_r.n)",
        "__CPROVER_loop_invariant(%s)" % AND("(%d >= locatorIndex || self->_r.a[%d] != iuid)" % (k, k) for k in range(R)),
        "__CPROVER_decreases(self->_r.n - locatorIndex)"])}


CHECKARG = Fn("checkArg", "src/Basic/AStringable.cpp", r"^bool checkArg\(const char\* title, int current, int nmax\)\s*$")
IS_UID = Fn("Db::isUIDValid", DBC, r"^bool Db::isUIDValid\(int iuid\) const\s*$", csig="bool isUIDValid(int iuid)")
IS_COL = Fn("Db::isColIdxValid", DBC, r"^bool Db::isColIdxValid\(int icol\) const\s*$", csig="bool isColIdxValid(int icol)")
GET_COL = Fn("Db::getColIdxByUID", DBC, r"^int Db::getColIdxByUID\(int iuid\) const\s*$", csig="int getColIdxByUID(int iuid)")
IS_DEF = Fn("Db::isUIDDefined", DBC, r"^bool Db::isUIDDefined\(int iuid\) const\s*$", csig="bool isUIDDefined(int iuid)")


def harness(call, c, pre=""):
    return """
void vf_harness(void)
{
  vf_havoc_inputs();
  %s
  %s;
  VF_REACH();
}
""" % (pre, call)


COMMON_ASSUME = ["capacities: <= %(UMAX)d identifiers, %(CMAX)d columns x %(EMAX)d samples, %(NLOC)d role types, %(RMAX)d entries per role list "
                 "(quantifier ranges; every loop is closed by its invariant, not unwound)",
                 "std::vector<int>/<double> resize/erase/clear semantics (ivec model contracts, trusted)",
                 "column names (strings) are not modelled: only |_colNames| == _ncol is tracked; uniqueness of names is not proved"]


def A(c):
    return [x % c if "%(" in x else x for x in COMMON_ASSUME]


# ---- units ------------------------------------------------------------------------------------------------

def unit_find(c):
    fns = [f for f in ptrgeos_fns(find_contract(c), find_loop(c)) if f.name in
           ("PtrGeos::getLocatorByIndex", "PtrGeos::getLocatorNumber", "PtrGeos::findUIDInLocator")]
    return Unit("C07.PtrGeos.findUIDInLocator", fns, pre_inputs=pre_inputs(c), prelude=BIND,
                inputs=[("PtrGeos", "W_p"), ("int", "W_iuid")],
                harness=harness("PtrGeos_findUIDInLocator(&W_p, W_iuid)", c),
                enforce="PtrGeos_findUIDInLocator", claim="PtrGeos::findUIDInLocator returns the first position of the identifier in the role list, -1 iff absent; writes nothing",
                assumptions=A(c),
                canaries=[{"fn": "PtrGeos::findUIDInLocator", "rx": r"== iuid\) return \(locatorIndex\)", "rp": "== iuid) return (locatorIndex + 1)",
                           "expect": r"findUIDInLocator\.postcondition"}])


def unit_getuid(c):
    U = c["UMAX"]
    contract = "\n".join([
        "__CPROVER_requires(%s)" % wf(c),
        "__CPROVER_assigns()",
        "__CPROVER_ensures((icol < 0 || icol >= DB.ncol) ==> __CPROVER_return_value == -1)",
        "__CPROVER_ensures((0 <= icol && icol < DB.ncol) ==> (0 <= __CPROVER_return_value && __CPROVER_return_value < DB.uid_n && DB.uid[__CPROVER_return_value] == icol))",
    ])
    loop = {1: "\n".join([
        "__CPROVER_assigns(iuid)",
        "__CPROVER_loop_invariant(0 <= iuid && iuid <= DB.uid_n)",
        "__CPROVER_loop_invariant(%s)" % AND("(%d >= iuid || DB.uid[%d] != icol)" % (u, u) for u in range(U)),
        "__CPROVER_decreases(DB.uid_n - iuid)"])}
    f = Fn("Db::getUIDByColIdx", DBC, r"^int Db::getUIDByColIdx\(int icol\) const\s*$", csig="int getUIDByColIdx(int icol)",
           contract=contract, loops=loop)
    return Unit("C07.getUIDByColIdx", [CHECKARG, IS_COL, f], pre_inputs=pre_inputs(c), prelude=BIND,
                inputs=[("DbS", "DB"), ("PtrGeos", "DBP", "NLOC"), ("int", "W_icol")], harness=harness("getUIDByColIdx(W_icol)", c),
                enforce="getUIDByColIdx",
                claim="Db::getUIDByColIdx: for a valid column index returns the (unique) live identifier designating that column, -1 otherwise",
                assumptions=A(c),
                canaries=[{"fn": "Db::getUIDByColIdx", "rx": r"_uidcol\[iuid\] == icol", "rp": "_uidcol[iuid] >= icol",
                           "expect": r"getUIDByColIdx\.postcondition"}])


def unit_designation_roundtrip(c):
    """lemma over the two contracts: identifier -> column -> identifier is the identity on live identifiers"""
    U = c["UMAX"]
    cu = "\n".join([
        "__CPROVER_requires(%s)" % wf(c),
        "__CPROVER_assigns()",
        "__CPROVER_ensures((icol < 0 || icol >= DB.ncol) ==> __CPROVER_return_value == -1)",
        "__CPROVER_ensures((0 <= icol && icol < DB.ncol) ==> (0 <= __CPROVER_return_value && __CPROVER_return_value < DB.uid_n && DB.uid[__CPROVER_return_value] == icol))",
    ])
    f = Fn("Db::getUIDByColIdx", DBC, r"^int Db::getUIDByColIdx\(int icol\) const\s*$", csig="int getUIDByColIdx(int icol)", contract=cu)
    h = """
void vf_harness(void)
{
  vf_havoc_inputs();
  __CPROVER_assume(%s);
  int u = W_iuid;
  int col = getColIdxByUID(u);
  bool def = isUIDDefined(u);
  __CPROVER_assert((def != 0) == (0 <= u && u < DB.uid_n && DB.uid[u] >= 0), "isUIDDefined: an identifier is reported as defined iff it designates a column");
  if (0 <= u && u < DB.uid_n && DB.uid[u] >= 0) {
    __CPROVER_assert(col == DB.uid[u] && 0 <= col && col < DB.ncol, "identifier designates a column of the table");
    int back = getUIDByColIdx(col);
    __CPROVER_assert(back == u, "identifier -> column -> identifier is the identity");
  } else {
    __CPROVER_assert(col < 0, "dead or invalid identifier designates no column");
  }
  VF_REACH();
}
""" % wf(c)
    return Unit("C07.lemma.uid_col_roundtrip", [CHECKARG, IS_UID, IS_COL, GET_COL, IS_DEF, f], pre_inputs=pre_inputs(c), prelude=BIND,
                inputs=[("DbS", "DB"), ("PtrGeos", "DBP", "NLOC"), ("int", "W_iuid")], harness=h, replace=["getUIDByColIdx"],
                claim="lemma over the contracts of getColIdxByUID (real body) and getUIDByColIdx (contract): identifier and column index designate the same column; isUIDDefined (real body) says 'defined' exactly for the identifiers that designate a column",
                assumptions=A(c))


DEL_RW = [
    (r"\A\{", "{ VF_SNAPSHOT();", 1),
    (r"PtrGeos& p = _p\[iloc\];", "PtrGeos* p = &_p[iloc];", 1),
    (r"\bp\.findUIDInLocator\(", "PtrGeos_findUIDInLocator(p, ", 1),
    (r"\bp\.erase\(", "PtrGeos_erase(p, ", 1),
    (r"_array\.resize\(", "VF_array_resize(", 1),
    (r"_colNames\.erase\(_colNames\.begin\(\) \+ c_del\)", "VF_names_erase(c_del)", 1),
]


def role_lists_after_delete(c, uid="iuid_del"):
    """every role list: entries before the (unique) occurrence of uid keep their place, later ones move up by one"""
    N, R = c["NLOC"], c["RMAX"]
    cl = []
    for t in range(N):
        L = "DBP[%d]._r" % t
        occ = OR("(%d < __CPROVER_old(%s.n) && __CPROVER_old(%s.a[%d]) == %s)" % (k, L, L, k, uid) for k in range(R))
        cl.append("%s.n == __CPROVER_old(%s.n) - (%s ? 1 : 0)" % (L, L, occ))
        for k in range(R):
            before = AND("(__CPROVER_old(%s.a[%d]) != %s)" % (L, m, uid) for m in range(k + 1))
            cl.append("(%d >= %s.n || %s.a[%d] == (%s ? __CPROVER_old(%s.a[%d]) : __CPROVER_old(%s.a[%d])))"
                      % (k, L, L, k, before, L, k, L, min(k + 1, R - 1)))
    return AND(cl)


def unit_delete_column(c):
    U, C, E, N, R = c["UMAX"], c["CMAX"], c["EMAX"], c["NLOC"], c["RMAX"]
    cdel = "__CPROVER_old(DB.uid[iuid_del])"
    post = [
        "DB.ncol == __CPROVER_old(DB.ncol) - 1 && DB.nech == __CPROVER_old(DB.nech) && DB.uid_n == __CPROVER_old(DB.uid_n)",
        "DB.uid[iuid_del] == -1",
        # every other identifier: same column, renumbered past the deleted one; dead ones stay dead
        AND("(%d >= DB.uid_n || %d == iuid_del || DB.uid[%d] == __CPROVER_old(DB.uid[%d]) - (__CPROVER_old(DB.uid[%d]) > %s ? 1 : 0))"
            % (u, u, u, u, u, cdel) for u in range(U)),
        # untouched cells keep their values: cell'(e, c') == cell(e, c' + [c' >= c_del])
        AND("(%d >= DB.nech || %d >= DB.ncol || SAMED(DB.arr[%d + DB.nech * %d], (%d < %s ? __CPROVER_old(DB.arr[%d + DB.nech * %d]) : __CPROVER_old(DB.arr[%d + DB.nech * %d]))))"
            % (e, cc, e, cc, cc, cdel, e, cc, e, min(cc + 1, C - 1)) for e in range(E) for cc in range(C)),
        role_lists_after_delete(c),
        wf(c),
    ]
    contract = "\n".join(
        ["__CPROVER_requires(%s)" % wf(c),
         "__CPROVER_requires(0 <= iuid_del && iuid_del < DB.uid_n && DB.uid[iuid_del] >= 0)",
         "__CPROVER_assigns(DB, DB0, __CPROVER_object_whole(DBP), __CPROVER_object_whole(DBP0))"] + ["__CPROVER_ensures(%s)" % x for x in post])
    L1 = "\n".join([
        "__CPROVER_assigns(iuid, __CPROVER_object_upto(DB.uid, sizeof(DB.uid)))",
        "__CPROVER_loop_invariant(0 <= iuid && iuid <= nmax && nmax == DB.uid_n)",
        "__CPROVER_loop_invariant(%s)" % AND(
            "(%d >= DB.uid_n || DB.uid[%d] == (%d == iuid_del ? -1 : (DB0.uid[%d] - ((%d < iuid && DB0.uid[%d] > c_del) ? 1 : 0))))"
            % (u, u, u, u, u, u) for u in range(U)),
        "__CPROVER_decreases(nmax - iuid)"])
    cells = lambda extra: AND(
        "(%d >= nech || %d >= ncol || SAMED(DB.arr[%d + nech * %d], ((%d >= c_del && (%d + 1 < icol%s)) ? DB0.arr[%d + nech * %d] : DB0.arr[%d + nech * %d])))"
        % (e, cc, e, cc, cc, cc, extra.replace("$e", str(e)).replace("$c", str(cc)), e, min(cc + 1, C - 1), e, cc)
        for e in range(E) for cc in range(C))
    L2 = "\n".join([
        "__CPROVER_assigns(icol, __CPROVER_object_upto(DB.arr, sizeof(DB.arr)))",
        "__CPROVER_loop_invariant(c_del + 1 <= icol && icol <= ncol && ncol == DB0.ncol && nech == DB0.nech && nech == DB.nech)",
        "__CPROVER_loop_invariant(%s)" % cells(""),
        "__CPROVER_decreases(ncol - icol)"])
    L3 = "\n".join([
        "__CPROVER_assigns(iech, __CPROVER_object_upto(DB.arr, sizeof(DB.arr)))",
        "__CPROVER_loop_invariant(0 <= iech && iech <= nech && c_del + 1 <= icol && icol < ncol)",
        "__CPROVER_loop_invariant(%s)" % cells(" || ($c + 1 == icol && $e < iech)"),
        "__CPROVER_decreases(nech - iech)"])
    # role-type loop: lists of types < iloc are done, the others untouched
    lists = []
    for t in range(N):
        L, L0 = "DBP[%d]._r" % t, "DBP0[%d]._r" % t
        occ = OR("(%d < %s.n && %s.a[%d] == iuid_del)" % (k, L0, L0, k) for k in range(R))
        lists.append("%s.n == %s.n - ((%d < iloc && %s) ? 1 : 0)" % (L, L0, t, occ))
        for k in range(R):
            before = AND("(%s.a[%d] != iuid_del)" % (L0, m) for m in range(k + 1))
            lists.append("(%d >= %s.n || %s.a[%d] == ((%d >= iloc || %s) ? %s.a[%d] : %s.a[%d]))"
                         % (k, L, L, k, t, before, L0, k, L0, min(k + 1, R - 1)))
    L4 = "\n".join([
        "__CPROVER_assigns(iloc, __CPROVER_object_whole(DBP))",
        "__CPROVER_loop_invariant(0 <= iloc && iloc <= number && number == NLOC)",
        "__CPROVER_loop_invariant(%s)" % AND(lists),
        "__CPROVER_decreases(number - iloc)"])
    f = Fn("Db::deleteColumnByUID", DBC, r"^void Db::deleteColumnByUID\(int iuid_del\)\s*$", csig="void deleteColumnByUID(int iuid_del)",
           contract=contract, loops={1: L1, 2: L2, 3: L3, 4: L4}, rewrites=DEL_RW)
    pg = ptrgeos_fns(find_contract(c))
    getaddr = Fn("Db::_getAddress", DBC, r"^int Db::_getAddress\(int iech, int icol\) const\s*$", csig="int _getAddress(int iech, int icol)")
    native = r"""
static void vf_native(void)
{
  /* run-time form of the contract (preconditions checked first) */
  int u = W_iuid;
  if (!(0 <= u && u < DB.uid_n && u < UMAX && DB.uid[u] >= 0)) exit(77);
  if (!(DB.ncol >= 1 && DB.ncol <= CMAX && DB.nech >= 0 && DB.nech <= EMAX && DB.uid_n <= UMAX)) exit(77);
  for (int t = 0; t < NLOC; t++) { if (DBP[t]._r.n < 0 || DBP[t]._r.n > RMAX) exit(77); }
  DbS D0 = DB; int c = DB.uid[u]; PtrGeos P0[NLOC]; memcpy(P0, DBP, sizeof P0);
  deleteColumnByUID(u);
  __CPROVER_assert(DB.ncol == D0.ncol - 1, "one column less");
  __CPROVER_assert(DB.uid[u] == -1, "deleted identifier designates nothing");
  for (int v = 0; v < D0.uid_n; v++) if (v != u)
    __CPROVER_assert(DB.uid[v] == D0.uid[v] - (D0.uid[v] > c), "other identifiers keep designating their column");
  for (int e = 0; e < DB.nech; e++) for (int cc = 0; cc < DB.ncol; cc++)
    __CPROVER_assert(DB.arr[e + DB.nech * cc] == D0.arr[e + D0.nech * (cc + (cc >= c))] ||
                     (DB.arr[e + DB.nech * cc] != DB.arr[e + DB.nech * cc]), "untouched cells keep their values");
  for (int t = 0; t < NLOC; t++) { int k2 = 0;
    for (int k = 0; k < P0[t]._r.n; k++) { if (P0[t]._r.a[k] == u) continue;
      __CPROVER_assert(k2 < DBP[t]._r.n && DBP[t]._r.a[k2] == P0[t]._r.a[k], "role lists keep the other identifiers in order"); k2++; }
    __CPROVER_assert(k2 == DBP[t]._r.n, "role list length"); }
}
"""
    ivec_native = r"""
#ifdef VF_NATIVE
void ivec_erase(ivec* v, int i) { for (int k = i; k + 1 < v->n; k++) v->a[k] = v->a[k + 1]; v->n--; }
void ivec_resize(ivec* v, int count, int fill) { for (int k = v->n; k < count; k++) v->a[k] = fill; v->n = count; }
void ivec_clear(ivec* v) { v->n = 0; }
#endif
"""
    return Unit("C07.deleteColumnByUID", [CHECKARG, IS_UID, IS_COL, GET_COL, getaddr] + pg + [f],
                pre_inputs=pre_inputs(c), prelude=BIND + ivec_model(c),
                inputs=[("DbS", "DB"), ("PtrGeos", "DBP", "NLOC"), ("int", "W_iuid")], harness=harness("deleteColumnByUID(W_iuid)", c),
                enforce="deleteColumnByUID", replace=["PtrGeos_findUIDInLocator"], native=native,
                backends=("minisat", "cadical"), timeout=900, split=True,
                claim=("Db::deleteColumnByUID on a live identifier: one column less; the identifier designates nothing; every other "
                       "identifier, name slot, cell and role entry keeps designating the same data (renumbered past the deleted column); "
                       "the identifier is removed from every role list, later entries move up; representation invariant re-established"),
                assumptions=A(c),
                canaries=[
                    {"fn": "Db::deleteColumnByUID", "rx": r"if \(_uidcol\[iuid\] < c_del\) continue;", "rp": "if (_uidcol[iuid] <= c_del + 1) continue;",
                     "expect": r"deleteColumnByUID\.(postcondition|loop_invariant_step)"},
                    {"fn": "Db::deleteColumnByUID", "rx": r"_array\[_getAddress\(iech, icol - 1\)\] = _array\[_getAddress\(iech, icol\)\];",
                     "rp": "_array[_getAddress(iech, icol - 1)] = _array[_getAddress(iech, icol - 1)];",
                     "expect": r"deleteColumnByUID\.(postcondition|loop_invariant_step)"},
                    {"fn": "Db::deleteColumnByUID", "rx": r"if \(found >= 0\) p\.erase\(found\);", "rp": "if (found > 0) p.erase(found);",
                     "expect": r"deleteColumnByUID\.(postcondition|loop_invariant_step)"},
                ])


def unit_delete_column_invalid(c):
    contract = "\n".join([
        "__CPROVER_requires(%s)" % wf(c),
        "__CPROVER_requires(iuid_del < 0 || iuid_del >= DB.uid_n || DB.uid[iuid_del] < 0)",
        "__CPROVER_assigns(DB0, __CPROVER_object_whole(DBP0))",    # frame: the Db itself is not written at all
    ])
    f = Fn("Db::deleteColumnByUID", DBC, r"^void Db::deleteColumnByUID\(int iuid_del\)\s*$", csig="void deleteColumnByUID(int iuid_del)",
           contract=contract, rewrites=DEL_RW)
    pg = ptrgeos_fns(find_contract(c))
    getaddr = Fn("Db::_getAddress", DBC, r"^int Db::_getAddress\(int iech, int icol\) const\s*$", csig="int _getAddress(int iech, int icol)")
    return Unit("C07.deleteColumnByUID.invalid", [CHECKARG, IS_UID, IS_COL, GET_COL, getaddr] + pg + [f],
                pre_inputs=pre_inputs(c), prelude=BIND + ivec_model(c),
                inputs=[("DbS", "DB"), ("PtrGeos", "DBP", "NLOC"), ("int", "W_iuid")], harness=harness("deleteColumnByUID(W_iuid)", c),
                enforce="deleteColumnByUID", replace=["PtrGeos_findUIDInLocator"], havoc_loops=False, unwind=max(c.values()) + 2,
                bounded=None,
                claim="Db::deleteColumnByUID with an invalid or dead identifier writes nothing (empty frame) — early return before any loop",
                assumptions=A(c) + ["loops are unreachable in this case; --unwinding-assertions confirm it"],
                canaries=[{"fn": "Db::deleteColumnByUID", "rx": r"if \(!isColIdxValid\(c_del\)\) return;", "rp": ";",
                           "expect": r"deleteColumnByUID\.(assigns|postcondition)|pointer|bounds"}])


# ---- role (locator) assignment ---------------------------------------------------------------------------------

def cancel_terms(c, uid, old="__CPROVER_old(%s)"):
    """per role list s: (occ_s, [CNL_s[k]]) = iuid occurs in the entry list / entry k of the list after cancelling iuid"""
    N, R = c["NLOC"], c["RMAX"]
    out = []
    for t in range(N):
        L = "DBP[%d]._r" % t
        o = lambda x: old % x
        occ = OR("(%d < %s && %s == %s)" % (k, o(L + ".n"), o("%s.a[%d]" % (L, k)), uid) for k in range(R))
        ent = []
        for k in range(R):
            before = AND("(%s != %s)" % (o("%s.a[%d]" % (L, m)), uid) for m in range(k + 1))
            ent.append("(%s ? %s : %s)" % (before, o("%s.a[%d]" % (L, k)), o("%s.a[%d]" % (L, min(k + 1, R - 1)))))
        out.append((occ, ent, o(L + ".n")))
    return out


def cancel_loop(c, uid):
    N, R = c["NLOC"], c["RMAX"]
    lists = []
    for t in range(N):
        L, L0 = "DBP[%d]._r" % t, "DBP0[%d]._r" % t
        occ = OR("(%d < %s.n && %s.a[%d] == %s)" % (k, L0, L0, k, uid) for k in range(R))
        lists.append("%s.n == %s.n - ((%d < iloc && %s) ? 1 : 0)" % (L, L0, t, occ))
        for k in range(R):
            before = AND("(%s.a[%d] != %s)" % (L0, m, uid) for m in range(k + 1))
            lists.append("(%d >= %s.n || %s.a[%d] == ((%d >= iloc || %s) ? %s.a[%d] : %s.a[%d]))"
                         % (k, L, L, k, t, before, L0, k, L0, min(k + 1, R - 1)))
    return "\n".join([
        "__CPROVER_assigns(iloc, __CPROVER_object_whole(DBP))",
        "__CPROVER_loop_invariant(0 <= iloc && iloc <= number && number == NLOC)",
        "__CPROVER_loop_invariant(%s)" % AND(lists),
        "__CPROVER_decreases(number - iloc)"])


ELOC_RW = [(r"locatorType\.getValue\(\)", "(locatorType)", None)]
CLEARLOC = Fn("Db::clearLocators", DBC, r"^void Db::clearLocators\(const ELoc& locatorType\)\s*$", csig="void clearLocators(int locatorType)",
              rewrites=ELOC_RW + [(r"ELoc::UNKNOWN", "ELOC_UNKNOWN", "opt"), (r"PtrGeos& p = ", "PtrGeos* p = &", 1), (r"\bp\.clear\(\)", "PtrGeos_clear(p)", 1)])
GETLOCNUM = Fn("Db::getLocatorNumber", DBC, r"^int Db::getLocatorNumber\(const ELoc& locatorType\) const\s*$", csig="int getLocatorNumber(int locatorType)",
               rewrites=ELOC_RW + [(r"const PtrGeos& p = ", "const PtrGeos* p = &", 1), (r"\bp\.getLocatorNumber\(\)", "PtrGeos_getLocatorNumber(p)", 1)])
NEXTLOC = Fn("Db::_getNextLocator", DBC, r"^int Db::_getNextLocator\(const ELoc& locatorType\) const\s*$", csig="int _getNextLocator(int locatorType)")
# generic lexical lowering of the C++ idioms used by the locator functions (optional rules: those that fire are listed in the evidence)
DB_LOWER = [
    (r"\bconst PtrGeos& (\w+) = ", r"const PtrGeos* \1 = &", "opt"),
    (r"\bPtrGeos& (\w+) = ", r"PtrGeos* \1 = &", "opt"),
    (r"\b_p\[([^\]]+)\]\.(\w+)\(\)", r"PtrGeos_\2(&_p[\1])", "opt"),
    (r"\b_p\[([^\]]+)\]\.(\w+)\(", r"PtrGeos_\2(&_p[\1], ", "opt"),
    (r"\bp\.(\w+)\(\)", r"PtrGeos_\1(p)", "opt"),
    (r"\bp\.(\w+)\(", r"PtrGeos_\1(p, ", "opt"),
    (r"\b(\w+)\.getValue\(\)", r"(\1)", "opt"),
    (r"ELoc::UNKNOWN", "ELOC_UNKNOWN", "opt"),
    (r"ELoc::fromValue\(", "(", "opt"),
    (r"\bELoc (\w+);", r"int \1;", "opt"),
]
SETLOC_RW = [(r"\A\{", "{ VF_SNAPSHOT();", 1)] + DB_LOWER
GETLOC_COL = Fn("Db::getLocatorByColIdx", DBC, r"^bool Db::getLocatorByColIdx\(int icol,\s*\n\s*ELoc\* ret_locatorType,\s*\n\s*int\* ret_locatorIndex\) const\s*$",
                csig="bool getLocatorByColIdx(int icol, int* ret_locatorType, int* ret_locatorIndex)", rewrites=DB_LOWER)
GETLOC_UID = Fn("Db::getLocatorByUID", DBC, r"^bool Db::getLocatorByUID\(int iuid,\s*\n\s*ELoc\* ret_locatorType,\s*\n\s*int\* ret_locatorIndex\) const\s*$",
                csig="bool getLocatorByUID(int iuid, int* ret_locatorType, int* ret_locatorIndex)", rewrites=DB_LOWER)
SETLOC_SIG = r"^void Db::setLocatorByUID\(int iuid,\s*\n\s*const ELoc& locatorType,\s*\n\s*int locatorIndex,\s*\n\s*bool cleanSameLocator\)\s*$"
SETLOC_CSIG = "void setLocatorByUID(int iuid, int locatorType, int locatorIndex, bool cleanSameLocator)"


def setloc_common_requires(c):
    return ["__CPROVER_requires(%s)" % wf(c),
            "__CPROVER_requires(-1 <= locatorType && locatorType < NLOC && !cleanSameLocator)",
            "__CPROVER_requires(locatorIndex < RMAX && (locatorType < 0 || locatorIndex >= 0 || DBP[locatorType]._r.n < RMAX))"]


def unit_setlocator(c, variant):
    """variant 'ok': live identifier, no index gap -> full postcondition incl. WF.
       variant 'gap' / 'dead': same contract (WF re-established) for the argument classes the function does not validate."""
    N, R = c["NLOC"], c["RMAX"]
    ct = cancel_terms(c, "iuid")
    IDX = "(locatorIndex < 0 ? __CPROVER_old(DBP[locatorType < 0 ? 0 : locatorType]._r.n) : locatorIndex)"
    # number of entries of the target list after cancelling iuid
    CNT = " + ".join("((locatorType == %d) ? (%s - (%s ? 1 : 0)) : 0)" % (t, ct[t][2], ct[t][0]) for t in range(N))
    live = "0 <= iuid && iuid < DB.uid_n && DB.uid[iuid] >= 0"
    nogap = "(locatorType < 0 || %s <= (%s))" % (IDX.replace("__CPROVER_old(DBP[locatorType < 0 ? 0 : locatorType]._r.n)", "DBP[locatorType]._r.n"),
                                                  CNT.replace("__CPROVER_old(", "(")) 
    req = setloc_common_requires(c)
    if variant == "ok":
        req += ["__CPROVER_requires(%s)" % live, "__CPROVER_requires(%s)" % nogap]
    elif variant == "gap":
        req += ["__CPROVER_requires(%s)" % live, "__CPROVER_requires(!%s)" % nogap]
    elif variant == "dead":
        req += ["__CPROVER_requires(0 <= iuid && iuid < DB.uid_n && DB.uid[iuid] < 0 && locatorType >= 0)", "__CPROVER_requires(%s)" % nogap]
    post = []
    if variant == "ok":
        for t in range(N):
            L = "DBP[%d]._r" % t
            occ, ent, n0 = ct[t]
            cn = "(%s - (%s ? 1 : 0))" % (n0, occ)
            # other role types: the list minus iuid
            post.append("(locatorType == %d || (%s.n == %s && %s))" % (
                t, L, cn, AND("(%d >= %s.n || %s.a[%d] == %s)" % (k, L, L, k, ent[k]) for k in range(R))))
            # the target type: iuid sits at the requested rank; the other entries are the old ones (minus iuid)
            post.append("(locatorType != %d || (%s.n == ((%s) >= %s ? (%s) + 1 : %s) && %s.a[%s] == iuid && %s))" % (
                t, L, IDX, cn, IDX, cn, L, IDX,
                AND("(%d >= %s || %d == (%s) || %s.a[%d] == %s)" % (k, cn, k, IDX, L, k, ent[k]) for k in range(R))))
    post.append(wf(c))
    contract = "\n".join(req + ["__CPROVER_assigns(DB0, __CPROVER_object_whole(DBP), __CPROVER_object_whole(DBP0))"] +
                         ["__CPROVER_ensures(%s)" % x for x in post])
    f = Fn("Db::setLocatorByUID", DBC, SETLOC_SIG, csig=SETLOC_CSIG, contract=contract, loops={1: cancel_loop(c, "iuid")}, nloops=1, rewrites=SETLOC_RW)
    fns = [CHECKARG, IS_UID, IS_COL, GET_COL] + ptrgeos_fns(find_contract(c)) + [CLEARLOC, GETLOCNUM, NEXTLOC, GETLOC_COL, GETLOC_UID, f]
    native = r"""
static void vf_native(void)
{
  int u = W_iuid, t = W_type, idx = W_index;
  if (!(0 <= u && u < DB.uid_n && DB.uid_n <= UMAX && -1 <= t && t < NLOC && idx < RMAX)) exit(77);
  for (int s = 0; s < NLOC; s++) if (DBP[s]._r.n < 0 || DBP[s]._r.n > RMAX) exit(77);
  setLocatorByUID(u, t, idx, 0);
  /* representation invariant on the role lists */
  for (int s = 0; s < NLOC; s++) for (int k = 0; k < DBP[s]._r.n; k++) {
    int e = DBP[s]._r.a[k];
    __CPROVER_assert(0 <= e && e < DB.uid_n && DB.uid[e] >= 0, "every role entry designates a live column");
    for (int s2 = 0; s2 < NLOC; s2++) for (int k2 = 0; k2 < DBP[s2]._r.n; k2++)
      if (s2 != s || k2 != k) __CPROVER_assert(DBP[s2]._r.a[k2] != e, "no column has two roles");
  }
}
"""
    claims = {
        "ok": ("Db::setLocatorByUID(live identifier, type, rank<=current count): the identifier gets exactly that role, loses any other, "
               "all other role entries keep their identifiers in order, nothing but the role lists is written; invariant re-established"),
        "gap": "Db::setLocatorByUID with a rank beyond the current count: contract demands the representation invariant (expected to fail: see known findings)",
        "dead": "Db::setLocatorByUID on the identifier of a deleted column: contract demands the representation invariant (expected to fail: see known findings)",
    }
    can = []
    if variant == "ok":
        can = [{"fn": "Db::setLocatorByUID", "rx": r"if \(found >= 0\)\s*\n\s*p\.erase\(found\);", "rp": "if (found > 0) p.erase(found);",
                "expect": r"setLocatorByUID\.(postcondition|loop_invariant_step)"},
               {"fn": "Db::setLocatorByUID", "rx": r"p\.setLocatorByIndex\(locatorIndex, iuid\);", "rp": "p.setLocatorByIndex(nitem > 0 ? 0 : locatorIndex, iuid);",
                "expect": r"setLocatorByUID\.postcondition"}]
    return Unit("C07.setLocatorByUID." + variant, fns, pre_inputs=pre_inputs(c), prelude=BIND + ivec_model(c),
                inputs=[("DbS", "DB"), ("PtrGeos", "DBP", "NLOC"), ("int", "W_iuid"), ("int", "W_type"), ("int", "W_index")],
                harness=harness("setLocatorByUID(W_iuid, W_type, W_index, 0)", c),
                enforce="setLocatorByUID", replace=["PtrGeos_findUIDInLocator"], native=native,
                backends=("minisat", "cadical"), timeout=900, split=(variant == "ok"), fallback_unwind=max(c.values()) + 2,
                claim=claims[variant], assumptions=A(c) + ["cleanSameLocator == false in this unit; role type in [-1, NLOC)"], canaries=can)


def unit_setlocator_invalid(c):
    contract = "\n".join(setloc_common_requires(c) + [
        "__CPROVER_requires(iuid < 0 || iuid >= DB.uid_n)",
        "__CPROVER_assigns(DB0, __CPROVER_object_whole(DBP0))"])
    f = Fn("Db::setLocatorByUID", DBC, SETLOC_SIG, csig=SETLOC_CSIG, contract=contract, rewrites=SETLOC_RW)
    fns = [CHECKARG, IS_UID] + ptrgeos_fns(find_contract(c)) + [CLEARLOC, GETLOCNUM, NEXTLOC, f]
    return Unit("C07.setLocatorByUID.invalid", fns, pre_inputs=pre_inputs(c), prelude=BIND + ivec_model(c),
                inputs=[("DbS", "DB"), ("PtrGeos", "DBP", "NLOC"), ("int", "W_iuid"), ("int", "W_type"), ("int", "W_index")],
                harness=harness("setLocatorByUID(W_iuid, W_type, W_index, 0)", c),
                enforce="setLocatorByUID", replace=["PtrGeos_findUIDInLocator"], unwind=max(c.values()) + 2,
                claim="Db::setLocatorByUID with an identifier outside the table writes nothing (empty frame)", assumptions=A(c),
                canaries=[{"fn": "Db::setLocatorByUID", "rx": r"if \(!isUIDValid\(iuid\)\) return;", "rp": ";",
                           "expect": r"assigns|pointer|bounds|precondition"}])


def setloc_ok_contract(c):
    """the 'ok' contract of setLocatorByUID, for use through --replace-call-with-contract"""
    u = unit_setlocator(c, "ok")
    f = [x for x in u.fns if x.name == "Db::setLocatorByUID"][0]
    return f.contract


def getuid_contract(c):
    return "\n".join([
        "__CPROVER_requires(%s)" % wf(c),
        "__CPROVER_assigns()",
        "__CPROVER_ensures((icol < 0 || icol >= DB.ncol) ==> __CPROVER_return_value == -1)",
        "__CPROVER_ensures((0 <= icol && icol < DB.ncol) ==> (0 <= __CPROVER_return_value && __CPROVER_return_value < DB.uid_n && DB.uid[__CPROVER_return_value] == icol))",
    ])


def unit_setlocators_colidx(c):
    N, R = c["NLOC"], c["RMAX"]
    T = "DBP[locatorType]._r"
    distinct = AND("(%d >= icols_size || icols[%d] != icols[%d])" % (b, a, b) for a in range(R) for b in range(a + 1, R))
    valid = AND("(%d >= icols_size || (0 <= icols[%d] && icols[%d] < DB.ncol))" % (k, k, k) for k in range(R))
    contract = "\n".join([
        "__CPROVER_requires(%s)" % wf(c),
        "__CPROVER_requires(0 <= locatorType && locatorType < NLOC && cleanSameLocator && locatorIndex <= 0)",
        "__CPROVER_requires(0 <= icols_size && icols_size <= RMAX && %s && %s)" % (valid, distinct),
        "__CPROVER_assigns(DB0, __CPROVER_object_whole(DBP), __CPROVER_object_whole(DBP0))",
        # documented meaning of the arguments: the j-th listed column gets role (type, j)
        "__CPROVER_ensures(%s.n == icols_size)" % T,
        "__CPROVER_ensures(%s)" % AND("(%d >= icols_size || (0 <= %s.a[%d] && %s.a[%d] < DB.uid_n && DB.uid[%s.a[%d]] == icols[%d]))"
                                      % (k, T, k, T, k, T, k, k) for k in range(R)),
        "__CPROVER_ensures(%s)" % wf(c),
    ])
    loop = "\n".join([
        "__CPROVER_assigns(icol, DB0, __CPROVER_object_whole(DBP), __CPROVER_object_whole(DBP0))",
        "__CPROVER_loop_invariant(0 <= icol && icol <= ncol && ncol == icols_size && locatorIndex == 0)",
        "__CPROVER_loop_invariant(%s.n == icol)" % T,
        "__CPROVER_loop_invariant(%s)" % AND("(%d >= icol || (0 <= %s.a[%d] && %s.a[%d] < DB.uid_n && DB.uid[%s.a[%d]] == icols[%d]))"
                                             % (k, T, k, T, k, T, k, k) for k in range(R)),
        "__CPROVER_loop_invariant(%s)" % wf(c),
        "__CPROVER_decreases(ncol - icol)",
    ])
    f = Fn("Db::setLocatorsByColIdx", DBC,
           r"^void Db::setLocatorsByColIdx\(const VectorInt& icols,\s*\n\s*const ELoc& locatorType,\s*\n\s*int locatorIndex,\s*\n\s*bool cleanSameLocator\)\s*$",
           csig="void setLocatorsByColIdx(const int* icols, int icols_size, int locatorType, int locatorIndex, bool cleanSameLocator)",
           contract=contract, loops={1: loop},
           rewrites=[(r"\(int\) icols\.size\(\)", "icols_size", 1),
                     (r"setLocatorByUID\(iuid, locatorType, locatorIndex \+ icol\)", "setLocatorByUID(iuid, locatorType, locatorIndex + icol, false)", 1)])
    setloc = Fn("Db::setLocatorByUID", DBC, SETLOC_SIG, csig=SETLOC_CSIG, contract=setloc_ok_contract(c), rewrites=SETLOC_RW)
    getuid = Fn("Db::getUIDByColIdx", DBC, r"^int Db::getUIDByColIdx\(int icol\) const\s*$", csig="int getUIDByColIdx(int icol)",
                contract=getuid_contract(c))
    fns = [CHECKARG, IS_UID, IS_COL] + ptrgeos_fns(find_contract(c)) + [CLEARLOC, GETLOCNUM, NEXTLOC, getuid, setloc, f]
    native = r"""
static void vf_native(void)
{
  int t = W_type, m = W_n;
  if (!(0 <= t && t < NLOC && 0 <= m && m <= RMAX && DB.uid_n <= UMAX && DB.uid_n >= 0 && DB.ncol <= CMAX)) exit(77);
  for (int s = 0; s < NLOC; s++) if (DBP[s]._r.n < 0 || DBP[s]._r.n > RMAX) exit(77);
  for (int a = 0; a < m; a++) { if (W_icols[a] < 0 || W_icols[a] >= DB.ncol) exit(77); for (int b = a + 1; b < m; b++) if (W_icols[a] == W_icols[b]) exit(77); }
  /* identifier table must be a bijection live ids <-> columns */
  for (int col = 0; col < DB.ncol; col++) { int cnt = 0; for (int u = 0; u < DB.uid_n; u++) if (DB.uid[u] == col) cnt++; if (cnt != 1) exit(77); }
  for (int s = 0; s < NLOC; s++) for (int k = 0; k < DBP[s]._r.n; k++) if (DBP[s]._r.a[k] < 0 || DBP[s]._r.a[k] >= DB.uid_n) exit(77);
  setLocatorsByColIdx(W_icols, m, t, 0, 1);
  __CPROVER_assert(DBP[t]._r.n == m, "as many roles of the type as listed columns");
  for (int j = 0; j < m && j < DBP[t]._r.n; j++) { int u = DBP[t]._r.a[j];
    __CPROVER_assert(0 <= u && u < DB.uid_n && DB.uid[u] == W_icols[j], "role (type, j) designates the j-th listed column"); }
}
"""
    return Unit("C07.setLocatorsByColIdx", fns, pre_inputs=pre_inputs(c), prelude=BIND + ivec_model(c),
                inputs=[("DbS", "DB"), ("PtrGeos", "DBP", "NLOC"), ("int", "W_icols", "RMAX"), ("int", "W_n"), ("int", "W_type")],
                harness=harness("setLocatorsByColIdx(W_icols, W_n, W_type, 0, 1)", c),
                enforce="setLocatorsByColIdx", replace=["PtrGeos_findUIDInLocator", "setLocatorByUID", "getUIDByColIdx"], native=native,
                backends=("minisat", "cadical"), timeout=900, split=True,
                claim=("Db::setLocatorsByColIdx(columns, type, 0, clean=true) with distinct valid column indices: afterwards the type has exactly one "
                       "role per listed column, role j designating the j-th listed column (documented meaning of the arguments); invariant "
                       "re-established.  Callees setLocatorByUID / getUIDByColIdx enter through their proved contracts."),
                assumptions=A(c) + ["case cleanSameLocator == true, locatorIndex <= 0; other argument classes not covered by this unit"],
                canaries=[{"fn": "Db::setLocatorsByColIdx", "rx": r"getUIDByColIdx\(icols\[icol\]\)", "rp": "getUIDByColIdx(icol)",
                           "expect": r"setLocatorsByColIdx\.(postcondition|loop_invariant_step)|setLocatorByUID\.precondition"}])


def unit_add_columns(c):
    """identifier table maintenance on column creation (no role requested: the role part is setLocatorsByUID -> setLocatorByUID, under its own contracts)"""
    U, C, E, N, R = c["UMAX"], c["CMAX"], c["EMAX"], c["NLOC"], c["RMAX"]
    same_lists = AND("(DBP[%d]._r.n == __CPROVER_old(DBP[%d]._r.n) && %s)" % (t, t, AND("DBP[%d]._r.a[%d] == __CPROVER_old(DBP[%d]._r.a[%d])" % (t, k, t, k) for k in range(R))) for t in range(N))
    post = [
        "(nadd <= 0) ==> (__CPROVER_return_value == -1 && DB.ncol == __CPROVER_old(DB.ncol) && DB.uid_n == __CPROVER_old(DB.uid_n) && DB.nech == __CPROVER_old(DB.nech) && DB.arr_n == __CPROVER_old(DB.arr_n) && DB.names_n == __CPROVER_old(DB.names_n))",
        "(nadd > 0) ==> (__CPROVER_return_value == __CPROVER_old(DB.uid_n) && DB.uid_n == __CPROVER_old(DB.uid_n) + nadd && DB.ncol == __CPROVER_old(DB.ncol) + nadd)",
        # the new identifiers designate the new columns, in order
        "(nadd > 0) ==> %s" % AND("(%d >= nadd || DB.uid[__CPROVER_old(DB.uid_n) + %d] == __CPROVER_old(DB.ncol) + %d)" % (i, i, i) for i in range(C)),
        # every existing identifier keeps designating its column (dead ones stay dead)
        AND("(%d >= __CPROVER_old(DB.uid_n) || DB.uid[%d] == __CPROVER_old(DB.uid[%d]))" % (u, u, u) for u in range(U)),
        # existing cells keep their values (the storage is column-major: new columns are appended)
        "(nadd > 0 && __CPROVER_old(DB.nech) > 0) ==> %s" % AND("(%d >= __CPROVER_old(DB.arr_n) || SAMED(DB.arr[%d], __CPROVER_old(DB.arr[%d])))" % (k, k, k) for k in range(C * E)),
        same_lists,
        "(nadd > 0) ==> %s" % wf(c),
    ]
    contract = "\n".join(
        ["__CPROVER_requires(%s)" % wf(c),
         "__CPROVER_requires(nadd <= CMAX - DB.ncol && nadd <= UMAX - DB.uid_n && 0 <= nechInit && nechInit <= EMAX && locatorType == ELOC_UNKNOWN)",
         "__CPROVER_assigns(DB, DB0, __CPROVER_object_whole(DBP0))"] + ["__CPROVER_ensures(%s)" % x for x in post])
    L1 = "\n".join([
        "__CPROVER_assigns(i, __CPROVER_object_upto(DB.uid, sizeof(DB.uid)))",
        "__CPROVER_loop_invariant(0 <= i && i <= nadd && nmax == DB0.uid_n && ncol == DB0.ncol && DB.uid_n == nmax + nadd)",
        "__CPROVER_loop_invariant(%s)" % AND("(%d >= nmax || DB.uid[%d] == DB0.uid[%d])" % (u, u, u) for u in range(U)),
        "__CPROVER_loop_invariant(%s)" % AND("(%d >= i || DB.uid[nmax + %d] == ncol + %d)" % (k, k, k) for k in range(C)),
        "__CPROVER_decreases(nadd - i)"])
    f = Fn("Db::addColumnsByConstant", DBC, r"^int Db::addColumnsByConstant\(int nadd,[^{]*?int nechInit\)\s*$",
           csig="int addColumnsByConstant(int nadd, double valinit, int locatorType, int locatorIndex, int nechInit)", contract=contract, loops={1: L1}, nloops=1,
           rewrites=[(r"\A\{", "{ VF_SNAPSHOT();", 1),
                     (r"_array\.resize\(", "VF_array_resize(", 1),
                     (r"_uidcol\.resize\((\w+) \+ (\w+)\);", r"VF_uid_resize(\1 + \2);", 1),
                     # names are strings (not modelled): the whole naming block only keeps the number of names
                     (r"(?s)_colNames\.resize\(nnew\);.*?\(void\) correctNamesForDuplicates\(_colNames\);", "DB.names_n = nnew;   /* names: unit C07.unique_names */", 1),
                     (r"_columnInit\(nadd, ncol, true, valinit\);", "VF_columnInit(nadd, ncol, valinit);", 1),
                     (r"ELoc::UNKNOWN", "ELOC_UNKNOWN", 1),
                     (r"setLocatorsByUID\(nadd, nmax, locatorType, locatorIndex\);", "VF_unreachable_roles();", 1)])
    pre = BIND + """
/* std::vector<int>::resize: new entries are value-initialised (0) */
static void VF_uid_resize(int m) { __CPROVER_assert(0 <= m && m <= UMAX, "modelled identifier capacity");
""" + "".join("  if (DB.uid_n <= %d && %d < m) DB.uid[%d] = 0;\n" % (u, u, u) for u in range(U)) + """  DB.uid_n = m; }
static void VF_columnInit(int nadd, int ncol, double valinit) { }      /* fills only the new columns (Db::_columnInit): values of new cells not claimed */
static void VF_unreachable_roles(void) { __CPROVER_assert(0, "role assignment is outside this unit (locatorType == UNKNOWN)"); }
"""
    return Unit("C07.addColumnsByConstant", [f], pre_inputs=pre_inputs(c), prelude=pre,
                inputs=[("DbS", "DB"), ("PtrGeos", "DBP", "NLOC"), ("int", "W_nadd"), ("double", "W_val"), ("int", "W_nechInit")],
                harness=harness("addColumnsByConstant(W_nadd, W_val, ELOC_UNKNOWN, 0, W_nechInit)", c),
                enforce="addColumnsByConstant", backends=("minisat", "cadical"), timeout=900, split=True, fallback_unwind=C + 2,
                claim=("Db::addColumnsByConstant (no role requested): nothing changes for nadd <= 0; otherwise the returned value is the first new identifier, the new "
                       "identifiers designate the new columns in order, every existing identifier, cell and role entry keeps designating the same data, and the "
                       "representation invariant is re-established"),
                assumptions=A(c) + ["names are strings: the naming block is reduced to the number of names (uniqueness: unit C07.unique_names)",
                                    "the role part (setLocatorsByUID) is excluded by the precondition locatorType == UNKNOWN"],
                canaries=[{"fn": "Db::addColumnsByConstant", "rx": r"_uidcol\[nmax \+ i\] = ncol \+ i;", "rp": "_uidcol[nmax + i] = ncol;",
                           "expect": r"addColumnsByConstant\.(postcondition|loop_invariant_step)"}])


def unit_delete_by_colidx(c):
    """designation by column index reaches the same column as designation by identifier"""
    U = c["UMAX"]
    cu = "\n".join([
        "__CPROVER_requires(%s)" % wf(c),
        "__CPROVER_assigns()",
        "__CPROVER_ensures((icol < 0 || icol >= DB.ncol) ==> __CPROVER_return_value == -1)",
        "__CPROVER_ensures((0 <= icol && icol < DB.ncol) ==> (0 <= __CPROVER_return_value && __CPROVER_return_value < DB.uid_n && DB.uid[__CPROVER_return_value] == icol))",
    ])
    g = Fn("Db::getUIDByColIdx", DBC, r"^int Db::getUIDByColIdx\(int icol\) const\s*$", csig="int getUIDByColIdx(int icol)", contract=cu)
    f = Fn("Db::deleteColumnByColIdx", DBC, r"^void Db::deleteColumnByColIdx\(int icol_del\)\s*$", csig="void deleteColumnByColIdx(int icol_del)",
           rewrites=[  # the form that resolves the column through its NAME (names are matched as regular expressions: any identifiers may come back)
                     (r"VectorInt iuids = _ids\(_colNames\[icol_del\],\s*true\);", "ivec iuids = VF_ids_by_name_of_column(icol_del);", "opt"),
                     (r"iuids\.empty\(\)", "(iuids.n == 0)", "opt"), (r"iuids\[0\]", "iuids.a[0]", "opt")])
    pre = BIND + """
int g_delete_calls, g_deleted_col;
/* Db::deleteColumnByUID (contract: unit C07.deleteColumnByUID): here only which column the identifier designates at the time of the call is recorded */
static void deleteColumnByUID(int iuid) { g_delete_calls++; g_deleted_col = (0 <= iuid && iuid < DB.uid_n) ? DB.uid[iuid] : -2; }
/* _ids(name, flagOne = true): identifiers of the columns whose names MATCH the pattern 'name' (a regular expression): none when several match, and a
   name such as "v.1" also matches "v-1": nothing ties the result to the column the name was taken from */
static ivec VF_ids_by_name_of_column(int icol) { ivec r; r.n = nondet_bool() ? 1 : 0; r.a[0] = nondet_int(); __CPROVER_assume(0 <= r.a[0] && r.a[0] < DB.uid_n && DB.uid[r.a[0]] >= 0); return r; }
"""
    h = harness("g_delete_calls = 0; g_deleted_col = -3; __CPROVER_assume(%s); int col = W_icol; deleteColumnByColIdx(col);\n"
                "  if (0 <= col && col < DB.ncol) { __CPROVER_assert(g_delete_calls == 1, \"a valid column index leads to exactly one deletion\");\n"
                "    __CPROVER_assert(g_deleted_col == col, \"the column deleted is the one the index designates\"); }\n"
                "  else __CPROVER_assert(g_delete_calls == 0, \"an invalid column index deletes nothing\")" % wf(c), c)
    return Unit("C07.deleteColumnByColIdx", [CHECKARG, IS_COL, g, f], pre_inputs=pre_inputs(c) + "int nondet_int(void); _Bool nondet_bool(void);\n", prelude=pre,
                inputs=[("DbS", "DB"), ("PtrGeos", "DBP", "NLOC"), ("int", "W_icol")], harness=h, replace=["getUIDByColIdx"],
                backends=("minisat", "cadical"), timeout=300,
                claim=("Db::deleteColumnByColIdx: a valid column index leads to exactly one call of deleteColumnByUID, for the identifier that designates THAT column "
                       "(getUIDByColIdx through its proved contract); an invalid index deletes nothing"),
                assumptions=A(c) + ["deleteColumnByUID is a recording stub here (its contract: unit C07.deleteColumnByUID)"],
                canaries=[{"fn": "Db::deleteColumnByColIdx", "rx": r"if \(! isColIdxValid\(icol_del\)\) return;", "rp": "if (! isColIdxValid(icol_del - 1)) return;", "expect": r"assertion|precondition"}])


def unit_sample_edits(c):
    """sample edits: addSamples / deleteSample move every remaining cell to the address of the same (sample, column) in the re-dimensioned table"""
    c = dict(c, CMAX=3, EMAX=2, UMAX=4, NLOC=2, RMAX=2)          # smaller caps: three nested/array loops are unwound
    C, E = c["CMAX"], c["EMAX"]
    getaddr = Fn("Db::_getAddress", DBC, r"^int Db::_getAddress\(int iech, int icol\) const\s*$", csig="int _getAddress(int iech, int icol)")
    issamp = Fn("Db::isSampleIndexValid", DBC, r"^bool Db::isSampleIndexValid\(int iech\) const\s*$", csig="bool isSampleIndexValid(int iech)")
    RW = [(r"VectorDouble new_array\(_ncol \* nnew\);", "VF_new_array(_ncol * nnew);", 1), (r"new_array\[", "NEWARR[", None),
          (r"_array = new_array;", "VF_commit_array();", 1), (r"mayChangeSampleNumber\(\)", "1", 1)]
    fa = Fn("Db::addSamples", DBC, r"^int Db::addSamples\(int nadd, double valinit\)\s*$", csig="int addSamples(int nadd, double valinit)", rewrites=RW)
    fd = Fn("Db::deleteSample", DBC, r"^int Db::deleteSample\(int e_del\)\s*$", csig="int deleteSample(int e_del)", rewrites=RW)
    pre = BIND + """
#define NEWCAP (CMAX * (EMAX + 2))
double NEWARR[NEWCAP]; int NEWARR_n;
static void VF_new_array(int m) { __CPROVER_assert(0 <= m && m <= NEWCAP, "modelled array capacity"); NEWARR_n = m; }
static void VF_commit_array(void) { __CPROVER_assert(NEWARR_n <= ACAP, "modelled array capacity"); for (int k = 0; k < ACAP; k++) if (k < NEWARR_n) DB.arr[k] = NEWARR[k]; DB.arr_n = NEWARR_n; }
"""
    h = """
DbS D0;
void vf_harness(void)
{
  vf_havoc_inputs();
  __CPROVER_assume(%s);
  D0 = DB;
  if (W_add)
  {
    __CPROVER_assume(W_n <= EMAX - DB.nech);
    int r = addSamples(W_n, W_val);
    if (W_n <= 0) { __CPROVER_assert(r == -1 && DB.nech == D0.nech && DB.arr_n == D0.arr_n, "adding no sample changes nothing"); }
    else {
      __CPROVER_assert(r == D0.nech && DB.nech == D0.nech + W_n && DB.ncol == D0.ncol && DB.arr_n == DB.ncol * DB.nech, "the table has nadd more samples; the rank of the first new one is returned");
      for (int cc = 0; cc < CMAX; cc++) for (int e = 0; e < EMAX; e++) if (cc < DB.ncol && e < DB.nech)
        __CPROVER_assert(SAMED(DB.arr[e + DB.nech * cc], e < D0.nech ? D0.arr[e + D0.nech * cc] : W_val), "every existing cell keeps its value at (sample, column); the new samples hold the initial value");
    }
  }
  else
  {
    int r = deleteSample(W_e);
    if (!(0 <= W_e && W_e < D0.nech)) { __CPROVER_assert(r != 0 && DB.nech == D0.nech && DB.arr_n == D0.arr_n, "an invalid sample rank deletes nothing"); }
    else {
      __CPROVER_assert(r == 0 && DB.nech == D0.nech - 1 && DB.ncol == D0.ncol && DB.arr_n == DB.ncol * DB.nech, "the table has one sample less");
      for (int cc = 0; cc < CMAX; cc++) for (int e = 0; e < EMAX; e++) if (cc < DB.ncol && e < DB.nech)
        __CPROVER_assert(SAMED(DB.arr[e + DB.nech * cc], D0.arr[(e < W_e ? e : e + 1) + D0.nech * cc]), "every remaining cell keeps its value; samples after the deleted one move up by one");
    }
  }
  __CPROVER_assert(DB.uid_n == D0.uid_n, "the identifier table is untouched");
  VF_REACH();
}
""" % wf(c)
    return Unit("C07.sample_edits", [CHECKARG, getaddr, issamp, fa, fd], pre_inputs=pre_inputs(c), prelude=pre,
                inputs=[("DbS", "DB"), ("PtrGeos", "DBP", "NLOC"), ("_Bool", "W_add"), ("int", "W_n"), ("double", "W_val"), ("int", "W_e")], harness=h,
                unwind=C * (E + 2) + 2, checks=["--bounds-check", "--pointer-check", "--signed-overflow-check"], backends=("minisat", "cadical"), timeout=900,
                bounded="at most %d columns and %d samples (loops unwound with unwinding assertions)" % (C, E),
                claim=("Db::addSamples / Db::deleteSample: the sample count changes by nadd / one, every remaining cell is found at the address of the same (sample, "
                       "column) in the re-dimensioned table, new samples hold the initial value, nothing changes for nadd <= 0 or an invalid rank"),
                assumptions=A(c) + ["BOUNDED stand-in (capacity caps); the temporary VectorDouble is a global array"],
                canaries=[{"fn": "Db::deleteSample", "rx": r"int iad1 = jech \+ nnew \* icol;", "rp": "int iad1 = jech + nech * icol;", "expect": r"assertion|bounds"}])


def unit_clear_locators(c):
    """removing every role of one type; ELoc::UNKNOWN (-1) designates no role list"""
    N, R = c["NLOC"], c["RMAX"]
    others = AND("(locatorType == %d || (DBP[%d]._r.n == __CPROVER_old(DBP[%d]._r.n) && %s))" % (t, t, t, AND("DBP[%d]._r.a[%d] == __CPROVER_old(DBP[%d]._r.a[%d])" % (t, k, t, k) for k in range(R))) for t in range(N))
    contract = "\n".join(["__CPROVER_requires(%s)" % wf(c), "__CPROVER_requires(-1 <= locatorType && locatorType < NLOC)",
                          "__CPROVER_assigns(__CPROVER_object_whole(DBP))",
                          "__CPROVER_ensures(%s)" % AND("(locatorType != %d || DBP[%d]._r.n == 0)" % (t, t) for t in range(N)),
                          "__CPROVER_ensures(%s)" % others, "__CPROVER_ensures(%s)" % wf(c)])
    f = Fn("Db::clearLocators", DBC, r"^void Db::clearLocators\(const ELoc& locatorType\)\s*$", csig="void clearLocators(int locatorType)", contract=contract,
           rewrites=DB_LOWER + [(r"locatorType == ELOC_UNKNOWN", "locatorType == ELOC_UNKNOWN", "opt")])
    return Unit("C07.clearLocators", [f], pre_inputs=pre_inputs(c), prelude=BIND + ivec_model(c) + "static void PtrGeos_clear(PtrGeos* p) { ivec_clear(&p->_r); }\n",
                inputs=[("DbS", "DB"), ("PtrGeos", "DBP", "NLOC"), ("int", "W_loc")], harness=harness("clearLocators(W_loc)", c),
                enforce="clearLocators", checks=["--bounds-check", "--pointer-check"], backends=("minisat", "cadical"), timeout=300,
                claim=("Db::clearLocators for a role type or for ELoc::UNKNOWN (-1, as Db::setLocators passes it when roles are removed): the list of that type is emptied, "
                       "every other list is untouched, no access outside the table of role lists, invariant kept"),
                assumptions=A(c),
                canaries=[{"fn": "Db::clearLocators", "rx": r"p\.clear\(\);", "rp": ";", "expect": r"clearLocators\.postcondition"}])


def unit_unique_names():
    """column names are unique: the two de-duplication routines every column creation / renaming goes through (String.cpp)"""
    pre = """
int nondet_int(); bool nondet_bool();
/* a name is a ghost identity; incrementStringVersion(name) returns a DIFFERENT name that may or may not coincide with any other name of the list */
struct String { int id; bool operator==(const String& o) const { return id == o.id; } };
struct VectorString { String a[4]; int n; int size() const { return n; }
  String& operator[](int i) { __CPROVER_assert(0 <= i && i < n, "name index inside the list"); return a[i]; } };
static String incrementStringVersion(const String& s) { String r; r.id = nondet_int(); __CPROVER_assume(r.id != s.id); return r; }
"""
    fns = [Fn("correctNamesForDuplicates", "src/Basic/String.cpp", r"^void correctNamesForDuplicates\(VectorString &list\)\s*$"),
           Fn("correctNewNameForDuplicates", "src/Basic/String.cpp", r"^void correctNewNameForDuplicates\(VectorString &list, int rank\)\s*$")]
    h = """
void vf_harness()
{
  VectorString l; l.n = nondet_int(); __CPROVER_assume(0 <= l.n && l.n <= 4); for (int i = 0; i < 4; i++) l.a[i].id = nondet_int();
  if (nondet_bool())
  {
    int first = l.n > 0 ? l.a[0].id : 0;
    correctNamesForDuplicates(l);
    for (int i = 0; i < 4; i++) for (int j = 0; j < 4; j++) if (j < i && i < l.n) __CPROVER_assert(!(l.a[i] == l.a[j]), "after correctNamesForDuplicates all names of the list are pairwise different");
    __CPROVER_assert(l.n == 0 || l.a[0].id == first, "the first name is kept");
  }
  else
  {
    int rank = nondet_int(); __CPROVER_assume(0 <= rank && rank < l.n);
    /* the other names are already pairwise different (they are the names of the existing columns) */
    for (int i = 0; i < 4; i++) for (int j = 0; j < 4; j++) if (j < i && i < l.n && i != rank && j != rank) __CPROVER_assume(!(l.a[i] == l.a[j]));
    int o0 = l.a[0].id, o1 = l.a[1].id, o2 = l.a[2].id, o3 = l.a[3].id;
    correctNewNameForDuplicates(l, rank);
    for (int i = 0; i < 4; i++) if (i < l.n && i != rank) __CPROVER_assert(!(l.a[rank] == l.a[i]), "after correctNewNameForDuplicates the new name differs from every other name");
    __CPROVER_assert((rank == 0 || l.a[0].id == o0) && (rank == 1 || l.a[1].id == o1) && (rank == 2 || l.a[2].id == o2) && (rank == 3 || l.a[3].id == o3), "the other names are untouched");
  }
  VF_REACH();
}
"""
    return Unit("C07.unique_names", fns, mode="cpp", prelude=pre, harness=h, unwind=7, unwinding_assertions=False, checks=[], backends=("minisat", "cadical"), timeout=300,
                bounded="lists of at most 4 names; at most 6 renaming attempts per name explored (no unwinding assertion: the retry loop is bounded only by the version strings)",
                claim=("correctNamesForDuplicates / correctNewNameForDuplicates (the routines every column creation and renaming uses): whatever names "
                       "incrementStringVersion produces, on return the names of the list are pairwise different (resp. the new name differs from all the others), "
                       "the first name resp. the other names being untouched"),
                assumptions=["names are ghost identities; incrementStringVersion returns an arbitrary different name (termination of the renaming is not claimed)", "at most 4 names"],
                canaries=[{"fn": "correctNewNameForDuplicates", "rx": r"if \(i == rank\) continue;", "rp": "if (i >= rank) continue;", "expect": r"assertion"}])


def units(tier):
    c = caps(tier)
    return [unit_find(c), unit_getuid(c), unit_designation_roundtrip(c), unit_delete_column(c), unit_delete_column_invalid(c),
            unit_setlocator(c, 'ok'), unit_setlocator(c, 'gap'), unit_setlocator(c, 'dead'), unit_setlocator_invalid(c), unit_setlocators_colidx(c), unit_unique_names(), unit_add_columns(c), unit_delete_by_colidx(c), unit_sample_edits(c), unit_clear_locators(c)]


META = {
    "level": "other",
    "explanation": ("Representation invariant WF(Db) (identifier table is a bijection between live identifiers and columns; role lists hold "
                    "live, pairwise distinct identifiers; sizes agree) is required and re-established by every operation under contract, so it "
                    "holds after any finite sequence of them (induction over the history)."),
    "trusted_base": ["CBMC 6.11 (goto-cc, goto-instrument --dfcc, SAT back ends)", "std::vector model (ivec contracts)",
                     "lexical member binding of class Db / PtrGeos onto C structs (listed under functions_under_contract[].rewrites)"],
    "assumptions": [],
    "not_covered": ["column-name uniqueness (correctNamesForDuplicates, string code)", "DbGrid-specific edits",
                    "operations not listed under functions_under_contract"],
}

MANIFEST = {
    "category": "other",
    "text": ("Representation invariant of Db proved inductive: each editing operation under contract (real bodies from Db.cpp/PtrGeos) "
             "requires and re-establishes it and has its whole-view postcondition discharged by CBMC with loop contracts (no unwinding); "
             "capacities of the containers are capped (stated in evidence)."),
    "note": "Trusted: CBMC, std::vector model, lexical member binding; names are ghost identities in the one bounded unit on name uniqueness (all other units: proved without bound).",
    "design_ref": "DESIGN.md 3 C07",
}
