"""C10 — results depend only on the arguments, not on what was called before (typestate obligations)."""
import os
from tools.vf import Fn, Unit, VERIF

ACL = "src/Covariances/ACovAnisoList.cpp"


def stub(name):
    return open(os.path.join(VERIF, "stubs", name)).read()


def unit_optim_pairing():
    f1 = Fn("ACovAnisoList::evalCovMatrixOptim", ACL, r"^MatrixRectangular ACovAnisoList::evalCovMatrixOptim\(const Db \*db1,[^{]*?const\s*$")
    f2 = Fn("ACovAnisoList::evalCovMatrixSymmetricOptim", ACL,
            r"^MatrixSquareSymmetric ACovAnisoList::evalCovMatrixSymmetricOptim\(const Db \*db1,[^{]*?const\s*$")
    harness = """
void vf_harness()
{
  ACovAnisoList L; Db d1, d2; VectorInt n1, n2; CovCalcMode m; m.all = nondet_bool(); m.nact = nondet_int(); __CPROVER_assume(0 <= m.nact && m.nact <= 2);
  m.act[0] = nondet_int(); m.act[1] = nondet_int(); __CPROVER_assume(0 <= m.act[0] && m.act[0] <= 1 && 0 <= m.act[1] && m.act[1] <= 1);
  g_cache_live = 0;                                   /* requires: no cache pending */
  const Db* p2 = nondet_bool() ? &d2 : (const Db*)0;
  if (nondet_bool()) L.evalCovMatrixOptim(&d1, p2, nondet_int(), nondet_int(), n1, n2, &m);
  else L.evalCovMatrixSymmetricOptim(&d1, nondet_int(), n1, &m);
  __CPROVER_assert(!g_cache_live, "ensures: no optimisation cache (pre-projected points) left behind on any exit");
  VF_REACH();
}
"""
    return Unit("C10.evalCovMatrixOptim.pairing", [f1, f2], mode="cpp", prelude=stub("cov_optim_stub.hpp") + "\nint g_cache_live;\n",
                harness=harness, havoc_loops=True, checks=[],
                claim=("ACovAnisoList::evalCovMatrixOptim / evalCovMatrixSymmetricOptim (real text verbatim, C++ front end): every exit path pairs "
                       "optimizationPreProcess with optimizationPostProcess, and the per-structure evaluation runs only in between — a call "
                       "(including one that returns the empty matrix) leaves no pre-projected sample cache for the next call to pick up; only the basic structures "
                       "active in the calculation mode are evaluated"),
                assumptions=["Route X: function text 100% verbatim against hand-written stub classes (stubs/cov_optim_stub.hpp); contracts in "
                             "assume/assert form because CBMC's C++ front end rejects the contract keywords",
                             "loops over-approximated by goto-instrument --havoc-loops (sound for this typestate obligation, any iteration count)",
                             "only the typestate assertions are checked in this unit (arithmetic/pointer checks are meaningless on havocked loop state)",
                             "stub ghost: optimizationPreProcess sets / optimizationPostProcess clears g_cache_live (their bodies are ACov.cpp:66-95)"],
                trusted=["stub classes Db/VectorInt/MatrixRectangular/CovAniso mirror only the members used by the two functions"],
                canaries=[{"fn": "ACovAnisoList::evalCovMatrixOptim", "rx": r"    optimizationPostProcess\(\);\n    return mat;", "rp": "    optimizationSetTarget(p2);\n    return mat;",
                           "expect": r"vf_harness\.assertion"}])      # (removing the FINAL post-process makes goto-instrument --havoc-loops crash: the early-exit one is used)


KC = "src/Estimation/KrigingCalcul.cpp"
KCH = "include/Estimation/KrigingCalcul.hpp"
KC_FUN_RX = r"^(?:int|void|bool) KrigingCalcul::((?:_need|_delete|_patch|_isPresent|_validForDual|resetLinked|_resetAll)\w*)\("
INPUTS_OF = {   # which inputs each public invalidation entry point replaces (from the setters calling them)
    "resetLinkedToZ": ["Z"], "resetLinkedToLHS": ["Sigma", "X"], "resetLinkedToRHS": ["Sigma0", "X0"],
    "resetLinkedtoVar0": ["Sigma00"], "resetLinkedToBayes": ["PriorMean", "PriorCov"],
    "resetLinkedToColCok": ["Zp", "ColCok"], "resetLinkedToXvalid": ["Xvalid"],
}


def _kc_graph():
    """re-derived from /repo on every run: cached item of each _needX, its direct requests, and the class members"""
    import re
    from tools.vf import REPO, Undecided, match_close
    src = open(os.path.join(REPO, KC), encoding="utf-8", errors="replace").read()
    hdr = open(os.path.join(REPO, KCH), encoding="utf-8", errors="replace").read()
    names = re.findall(KC_FUN_RX, src, re.M)
    bodies = {}
    for m in re.finditer(r"^(?:int|void|bool) KrigingCalcul::(\w+)\([^)]*\)(?: const)?\s*\{", src, re.M):
        i = src.index("{", m.start())
        bodies[m.group(1)] = src[i:match_close(src, i) + 1]
    need = {}
    for fn, body in bodies.items():
        if not fn.startswith("_need"):
            continue
        x = fn[5:]
        deps = set(re.findall(r"_need(\w+)\(\)", body)) - {x}
        for pf in re.findall(r"(_patch\w+)\(", body):
            deps |= set(re.findall(r"_need(\w+)\(\)", bodies.get(pf, "")))
        mm = re.search(r"if \((_\w+) != nullptr\) return 0;", body)
        mv = re.search(r"if \(!(_\w+)\.empty\(\)\) return 0;", body)
        need[x] = {"deps": deps, "ptr": mm.group(1) if mm else None, "vec": mv.group(1) if (mv and not mm) else None}
    if len(need) < 20:
        raise Undecided("KrigingCalcul: only %d _need functions recognised (extraction drift)" % len(need))
    members = re.findall(r"^\s*(const\s+)?(MatrixRectangular|MatrixSquareSymmetric|VectorDouble|VectorInt)(\*?)\s+(_\w+);", hdr, re.M)
    scal = re.findall(r"^\s*(int|bool)\s+(_\w+);", hdr, re.M)
    return names, need, members, scal


def _closure(need):
    clo = {}
    for x in need:
        seen, todo = set(), list(need[x]["deps"])
        while todo:
            y = todo.pop()
            if y in seen:
                continue
            seen.add(y)
            todo += list(need.get(y, {"deps": ()})["deps"])
        clo[x] = seen
    return clo


def unit_krigcalc():
    """modular check of the whole lazy-cache graph in one TU: every real body is emitted under the name REAL_<fn> and calls the
    *contract stubs* of its callees (generated below from the graphs re-derived on this run)"""
    import re
    from tools.vf import Undecided
    names, need, members, scal = _kc_graph()
    clo = _closure(need)
    cached = sorted(x for x in need if need[x]["ptr"] or need[x]["vec"])
    mtype = {nm: (typ, bool(star)) for const, typ, star, nm in members}

    def absent(x, obj="k->"):
        return "%s%s == 0" % (obj, need[x]["ptr"]) if need[x]["ptr"] else "%s%s.empty()" % (obj, need[x]["vec"])

    def make_present(x):
        if need[x]["ptr"]:
            t = mtype[need[x]["ptr"]][0]
            return "%s = &VF_DUMMY_%s;" % (need[x]["ptr"], t)
        return "%s.n = 1;" % need[x]["vec"]

    def make_absent(x):
        return "%s = 0;" % need[x]["ptr"] if need[x]["ptr"] else "%s.n = 0;" % need[x]["vec"]

    # delete graph (direct calls) and its closure, from the real bodies
    src = open(os.path.join(__import__("tools.vf", fromlist=["REPO"]).REPO, KC), encoding="utf-8", errors="replace").read()
    dele = {}
    for m in re.finditer(r"^void KrigingCalcul::_delete(\w+)\(\)\s*\{", src, re.M):
        i = src.index("{", m.start())
        body = src[i:__import__("tools.vf", fromlist=["match_close"]).match_close(src, i) + 1]
        dele[m.group(1)] = set(re.findall(r"_delete(\w+)\(\)", body))
    dclo = {}
    for y in dele:
        seen, todo = set(), list(dele[y])
        while todo:
            z = todo.pop()
            if z in seen:
                continue
            seen.add(z)
            todo += list(dele.get(z, ()))
        dclo[y] = seen | {y}

    decls, stubs = [], []
    for n in names:
        ret = re.search(r"^(int|void|bool) KrigingCalcul::%s\(([^)]*)\)( const)?" % n, src, re.M)
        decls.append("  %s REAL%s(%s)%s;" % (ret.group(1), n, ret.group(2), ret.group(3) or ""))
    for x in sorted(need):
        body = []
        if x in cached:
            body.append("  if (!(%s)) return 0;" % absent(x, ""))
        # a request may build any cache it (transitively) depends on
        for z in sorted(clo[x]):
            if z in cached:
                body.append("  if ((%s) && nondet_bool()) { %s }" % (absent(z, ""), make_present(z)))
        if x in cached:
            body.append("  if (nondet_bool()) { %s return 0; }" % make_present(x))
            body.append("  return 1;")
        else:
            body.append("  return nondet_bool() ? 1 : 0;")
        stubs.append("int KrigingCalcul::_need%s()   /* contract stub: 0 => %s present, 1 => absent; may build what it depends on */\n{\n%s\n}"
                     % (x, x, "\n".join(body)))
    for y in sorted(dele):
        body = ["  %s" % make_absent(z) for z in sorted(dclo[y]) if z in cached]
        stubs.append("void KrigingCalcul::_delete%s()   /* contract stub: %s and everything its delete chain reaches are absent afterwards */\n{\n%s\n}"
                     % (y, y, "\n".join(body)))
    for n in names:
        if n.startswith("_patch"):
            ret = re.search(r"^int KrigingCalcul::%s\(([^)]*)\)" % n, src, re.M)
            stubs.append("int KrigingCalcul::%s(%s) { return nondet_bool() ? 1 : 0; }" % (n, ret.group(1)))
    real = [n for n in names if n.startswith(("_need", "_delete", "resetLinked", "_patch"))]
    helpers = [n for n in names if n not in real]
    cls = Fn("class KrigingCalcul", KCH, r"^class GSTLEARN_EXPORT KrigingCalcul\s*$", take="struct",
             rewrites=[(r"\s*= delete;", ";", 2),
                       (r"\}\s*\Z", "  /* declarations of the real bodies under contract (inserted) */\n" + "\n".join(decls).replace("\\", "\\\\") + "\n}", 1)])
    fns = [cls]
    for n in helpers:
        fns.append(Fn("KrigingCalcul::" + n, KC, r"^(?:int|void|bool) KrigingCalcul::%s\([^)]*\)(?: const)?\s*$" % n))
    for n in real:
        ret = re.search(r"^(int|void|bool) KrigingCalcul::%s\(([^)]*)\)( const)?" % n, src, re.M)
        fns.append(Fn("KrigingCalcul::" + n, KC, r"^(?:int|void|bool) KrigingCalcul::%s\([^)]*\)(?: const)?\s*$" % n,
                      csig="%s KrigingCalcul::REAL%s(%s)%s" % (ret.group(1), n, ret.group(2), ret.group(3) or "")))
    init = []
    for const, typ, star, nm in members:
        if star:
            init.append("  k->%s = nondet_bool() ? &VF_DUMMY_%s : 0;" % (nm, typ))
        else:
            init.append("  k->%s.n = nondet_int();" % nm)
    for typ, nm in scal:
        init.append("  k->%s = nondet_%s();" % (nm, typ))
    cases, sel = [], 0
    for x in cached:
        cases.append("  if (sel == %d) { int r = k->REAL_need%s();\n"
                     "    __CPROVER_assert(r == 0 || (%s), \"_need%s: a failed request leaves no cache entry behind\"); }"
                     % (sel, x, absent(x), x))
        sel += 1
    for y in sorted(dele):
        asserts = "\n".join("    __CPROVER_assert(%s, \"_delete%s: %s is absent afterwards\");" % (absent(z), y, z)
                            for z in sorted(dclo[y]) if z in cached)
        cases.append("  if (sel == %d) { k->REAL_delete%s();\n%s }" % (sel, y, asserts))
        sel += 1
    for entry, ins in sorted(INPUTS_OF.items()):
        if entry not in names:
            raise Undecided("KrigingCalcul::%s not found" % entry)
        stale = sorted(x for x in cached if clo[x] & set(ins))
        asserts = "\n".join("    __CPROVER_assert(%s, \"%s: cached %s (its request graph reaches %s) is invalidated\");"
                            % (absent(x), entry, x, "/".join(sorted(clo[x] & set(ins)))) for x in stale)
        cases.append("  if (sel == %d) { k->REAL%s();\n%s }" % (sel, entry, asserts))
        sel += 1
    harness = ("MatrixRectangular VF_DUMMY_MatrixRectangular(1, 1); MatrixSquareSymmetric VF_DUMMY_MatrixSquareSymmetric(1);\n"
               "VectorDouble VF_DUMMY_VectorDouble(1); VectorInt VF_DUMMY_VectorInt;\n") + "\n".join(stubs) + """
KrigingCalcul VF_K;      /* constructor has no body in this TU: every member is set explicitly below */
void vf_harness()
{
  KrigingCalcul* k = &VF_K;
%s
  int sel = nondet_int();
%s
  VF_REACH();
}
""" % ("\n".join(init), "\n".join(cases))
    return Unit("C10.KrigingCalcul.cache", fns, mode="cpp", prelude=stub("krigcalc_stub.hpp"), harness=harness, havoc_loops=True, checks=[],
                timeout=900, object_bits=12, ignore=r"delete argument must be dynamic object|double delete",
                claim=("KrigingCalcul lazy cache (%d cached items, %d _delete, %d invalidation entry points; real text verbatim, each body checked "
                       "against the contract stubs of its callees): (1) _needX returning 1 leaves X absent; (2) _deleteY "
                       "leaves Y and everything its delete chain reaches absent; (3) after resetLinkedTo<input> every cached item whose request "
                       "graph — re-derived from the _need bodies on this run — reaches the replaced input is absent: no failed or stale "
                       "intermediate can be served to the next call" % (len(cached), len(dele), len(INPUTS_OF))),
                assumptions=["Route X: member functions + class declaration extracted verbatim, compiled by CBMC's C++ front end against "
                             "stubs/krigcalc_stub.hpp (matrix/vector ghosts: presence and possible failure of invert() only); 'private' #defined "
                             "to 'public'; '= delete' removed from two declarations; each real body emitted under the name REAL<fn> so that its "
                             "calls bind to the callee contract stubs (modular check, generated per run)",
                             "object state fully nondeterministic; loops over-approximated by --havoc-loops; only the typestate assertions are checked",
                             "_patch* helpers are nondeterministic-result stubs when called",
                             "CBMC's built-in 'delete' preconditions are ignored: cache pointers point to static stub objects here"],
                trusted=["matrix/vector stub classes; clone()/new return fresh objects; invert() may fail nondeterministically"])


def unit_estimate_status():
    """KrigingSystem::estimate: a failed step of the current target reaches the store routine as a non-zero status AND invalidates the neighbourhood memo,
    so that nothing computed for an earlier target is served for this one or the next."""
    BOOL = "typedef _Bool bool;\n#define true 1\n#define false 0\n"
    pre = BOOL + """
#define messerr(...) ((void)0)
#define message(...) ((void)0)
#define mestitle(...) ((void)0)
#define db_sample_print(...) ((void)0)
#define NT_IMAGE 1
#define NT_UNIQUE 2
#define NT_MOVING 3
#define M_Simple 1
#define M_Init 2
bool _isReady, _flagFactorKriging, _flagNeighOnly, _flagBayes, _flagDataChanged, _flagStd, _flagVarZ, _flagSimu, _flagWeights, _flagKeypairWeights, _flagAnam, _flagGlobal;
int _iechOut, _nclasses; bool g_flagXvalid;
/* ghost log */
int g_fail, g_store_calls, g_store_status, g_changed_calls, g_wgt_calls, g_steps_after_fail, g_local_model;
static int step(void) { if (g_fail) g_steps_after_fail++; int rc = nondet_bool() ? 1 : 0; if (rc) g_fail = 1; return rc; }
static void work(void) { if (g_fail) g_steps_after_fail++; }
static bool VF_isActive(int iech) { return nondet_bool(); }
static void VF_select(void) {}
static bool VF_isUnchanged(void) { return nondet_bool(); }
static void VF_setIsChanged(void) { g_changed_calls++; }
static void VF_setLocalModel(int m) { g_local_model = m; }
static int _setInternalShortCutVariablesNeigh(void) { return step(); }
static int _prepar(void) { return step(); }
static void _dualCalcul(void) { work(); }
static int _rhsCalcul(void) { return step(); }          /* returns 1 when a drift function is undefined at the target */
static void _rhsIsoToHetero(void) { work(); } static void _rhsDump(void) {} static void _wgtCalcul(void) { g_wgt_calls++; work(); } static void _wgtDump(int status) {} static void _saveWeights(int status) {}
static void _bayesCorrectVariance(void) {}
static void store(int status) { g_store_calls++; g_store_status = status; }
static void _neighCalcul(int status, int tab) { store(status); } static void _estimateCalculImage(int status) { store(status); } static void _estimateCalculXvalidUnique(int status) { store(status); }
static void _simulateCalcul(int status) { store(status); } static void _estimateCalcul(int status) { store(status); }
static void _transformGaussianToRaw(void) {} static void _simulateDump(int status) {} static void _krigingDump(int status) {}
"""
    f = Fn("KrigingSystem::estimate", "src/Estimation/KrigingSystem.cpp", r"^int KrigingSystem::estimate\(int iech_out\)\s*$", csig="int KrigingSystem_estimate(int iech_out)",
           rewrites=[(r"_neigh->getType\(\) == ENeigh::(\w+)", r"(W_neighType == NT_\1)", None),
                     (r"_neigh->getFlagXvalid\(\)", "g_flagXvalid", None), (r"_neigh->setFlagXvalid\((\w+)\)", r"g_flagXvalid = \1", None),
                     (r"_dbout->isActive\(_iechOut\)", "VF_isActive(_iechOut)", 1), (r"OptDbg::setCurrentIndex\(_iechOut \+ 1\);", ";", "opt"),
                     (r"OptDbg::query\(EDbg::\w+\)", "0", None), (r"OptDbg::force\(\)", "W_force", None),
                     (r"_model->getActiveFactor\(\)", "0", "opt"),
                     (r"_neigh->select\(_iechOut, _nbgh\);", "VF_select();", 1), (r"_neigh->isUnchanged\(\)", "VF_isUnchanged()", None),
                     (r"_neigh->getFlagContinuous\(\)", "W_continuous", None), (r"_neigh->setIsChanged\(\);", "VF_setIsChanged();", "opt"),
                     (r"_setLocalModel\(_model(\w+)\)", r"VF_setLocalModel(M_\1)", None),
                     (r"VectorDouble tab = _neigh->summary\(_iechOut\);", "int tab = 0;", 1)])
    h = """
void vf_harness(void)
{
  vf_havoc_inputs();
  __CPROVER_assume(NT_IMAGE <= W_neighType && W_neighType <= NT_MOVING);
  /* (a havocked _Bool may hold a non-canonical bit pattern: normalise) */
  _isReady = 1; _flagFactorKriging = 0; _flagNeighOnly = W_neighOnly ? 1 : 0; _flagBayes = W_bayes ? 1 : 0; _flagDataChanged = W_dataChanged ? 1 : 0; _flagStd = W_std ? 1 : 0;
  _flagVarZ = W_varz ? 1 : 0; _flagSimu = W_simu ? 1 : 0; _flagWeights = W_weights ? 1 : 0; _flagKeypairWeights = W_kp ? 1 : 0; _flagAnam = W_anam ? 1 : 0; _flagGlobal = W_global ? 1 : 0;
  g_flagXvalid = W_xvalid ? 1 : 0;
  g_fail = 0; g_store_calls = 0; g_store_status = 0; g_changed_calls = 0; g_wgt_calls = 0; g_steps_after_fail = 0; g_local_model = M_Init;
  int rc = KrigingSystem_estimate(W_iech);
  __CPROVER_assert(g_store_calls <= 1, "at most one store routine runs for a target");
  __CPROVER_assert(g_store_calls == 0 || ((g_store_status != 0) == (g_fail != 0)),
                   "the store routine receives a non-zero status exactly when a step of THIS target failed (neighbourhood shortcuts, left-hand side, right-hand side)");
  __CPROVER_assert(g_steps_after_fail == 0, "no further step of the system is computed after a failed one");
  __CPROVER_assert(!g_fail || g_changed_calls >= 1, "a failed target invalidates the neighbourhood memo, so that the next target rebuilds its system");
  __CPROVER_assert(g_wgt_calls == 0 || !g_fail, "weights are derived only from a completely built system");
  VF_REACH();
}
"""
    return Unit("C10.estimate.status", [f], prelude=pre, harness=h, pre_inputs=BOOL + "int nondet_int(void); _Bool nondet_bool(void);\n", unwind=2,
                inputs=[("int", "W_iech"), ("int", "W_neighType"), ("bool", "W_neighOnly"), ("bool", "W_bayes"), ("bool", "W_dataChanged"), ("bool", "W_std"), ("bool", "W_varz"),
                        ("bool", "W_simu"), ("bool", "W_weights"), ("bool", "W_kp"), ("bool", "W_anam"), ("bool", "W_global"), ("bool", "W_xvalid"), ("bool", "W_force"), ("bool", "W_continuous")],
                checks=["--signed-overflow-check"], backends=("minisat", "cadical"), timeout=300,
                claim=("KrigingSystem::estimate (real text, every callee a stub that may fail): for every option combination the store routine of the target receives a "
                       "non-zero status exactly when one of the steps of THIS target failed, no step is computed after a failed one, weights are derived only from a "
                       "completely built system, and a failed target invalidates the neighbourhood memo - so no value computed for an earlier target is served"),
                assumptions=["Route C: every callee of estimate() is a stub logging into ghost counters; each step that returns a status may fail nondeterministically",
                             "debug printing (OptDbg::query) off"],
                canaries=[{"fn": "KrigingSystem::estimate", "rx": r"status = _prepar\(\);", "rp": "_prepar();", "expect": r"assertion"}])


def unit_single_target():
    """CalcKriging::_run with a single target requested (krigtest): exactly that target is processed, and its system is the one exported"""
    pre = """
#define nullptr 0
int nondet_int(); bool nondet_bool();
struct Db { int n; int getSampleNumber() const { return n; } };
struct Model {}; struct ANeigh {}; struct EKrigOpt {}; struct VectorInt {}; struct MatrixRectangular {}; struct VectorDouble {}; struct MatrixSquareSymmetric {}; struct AAnam {};
struct OptDbg { static void defineAll() {} static void undefineAll() {} };
static void mes_process(const char*, int, int) {}
int g_est_calls, g_est_last, g_export_calls, g_export_after;
class KrigingSystem { public:
  KrigingSystem(Db*, Db*, Model*, ANeigh*) {}
  int updKrigOptEstim(int, int, int) { return nondet_bool(); } int setKrigOptCalcul(const EKrigOpt&, const VectorInt&, bool) { return nondet_bool(); }
  int setKrigOptColCok(const VectorInt&) { return nondet_bool(); } int setKrigOptMatLC(const MatrixRectangular*) { return nondet_bool(); } int setKrigOptDGM(bool) { return nondet_bool(); }
  void setKrigOptBayes(bool, const VectorDouble&, const MatrixSquareSymmetric&) {} int setKrigoptCode(bool) { return nondet_bool(); } int setKrigOptAnamophosis(AAnam*) { return nondet_bool(); }
  int setKrigOptXValid(bool, bool, bool, bool, bool) { return nondet_bool(); } int updKrigOptNeighOnly(int) { return nondet_bool(); } bool isReady() { return nondet_bool(); }
  int estimate(int iech_out) { g_est_calls++; g_est_last = iech_out; return nondet_bool(); }
  void conclusion() {} };
class CalcKriging { public:
  Db* _dbin; Db* _dbout; Model* _model; ANeigh* _neigh; int _iptrEst, _iptrStd, _iptrVarZ, _iptrNeigh, _iechSingleTarget, _flagXvalidEst, _flagXvalidStd, _flagXvalidVarZ;
  EKrigOpt _calcul; VectorInt _ndiscs, _rankColCok; const MatrixRectangular* _matLC; VectorDouble _priorMean; MatrixSquareSymmetric _priorCov; AAnam* _anam;
  bool _flagPerCell, _flagDGM, _flagBayes, _flagProf, _flagGam, _flagXvalid, _flagKfold, _flagNeighOnly, _verboseSingleTarget;
  Db* getDbin() const { return _dbin; } Db* getDbout() const { return _dbout; } Model* getModel() const { return _model; } ANeigh* getNeigh() const { return _neigh; }
  void _storeResultsForExport(const KrigingSystem& ksys) { g_export_calls++; g_export_after = g_est_last; }
  bool _run(); };
"""
    f = Fn("CalcKriging::_run", "src/Estimation/CalcKriging.cpp", r"^bool CalcKriging::_run\(\)\s*$")
    h = """
void vf_harness()
{
  CalcKriging K; Db din, dout; Model m; ANeigh n; dout.n = 3;
  K._dbin = &din; K._dbout = &dout; K._model = &m; K._neigh = &n; K._matLC = 0; K._anam = 0;
  K._flagPerCell = nondet_bool(); K._flagDGM = nondet_bool(); K._flagBayes = nondet_bool(); K._flagProf = nondet_bool(); K._flagGam = nondet_bool(); K._flagXvalid = nondet_bool();
  K._flagKfold = nondet_bool(); K._flagNeighOnly = nondet_bool(); K._verboseSingleTarget = nondet_bool(); K._flagXvalidEst = 1; K._flagXvalidStd = 1; K._flagXvalidVarZ = 0;
  K._iechSingleTarget = nondet_int(); __CPROVER_assume(-1 <= K._iechSingleTarget && K._iechSingleTarget < 3);
  g_est_calls = 0; g_est_last = -1; g_export_calls = 0; g_export_after = -1;
  bool ok = K._run();
  if (ok && K._iechSingleTarget < 0) __CPROVER_assert(g_est_calls == 3 && g_export_calls == 0, "without a single target every target is processed and nothing is exported");
  if (ok && K._iechSingleTarget >= 0) {
    __CPROVER_assert(g_est_calls == 1 && g_est_last == K._iechSingleTarget, "with a single target requested exactly that target is processed (rank 0 included)");
    __CPROVER_assert(g_export_calls == 1 && g_export_after == K._iechSingleTarget, "and the system exported is the one of that target"); }
  VF_REACH();
}
"""
    return Unit("C10.CalcKriging.single_target", [f], mode="cpp", prelude=pre, harness=h, unwind=5, checks=[], backends=("minisat", "cadical"), timeout=300,
                bounded="3 targets (unwinding assertions)",
                claim=("CalcKriging::_run (behind kriging / krigtest): with a single target requested exactly that target is estimated - rank 0 included - and the system "
                       "exported afterwards is the one of that target; otherwise every target is processed and nothing is exported"),
                assumptions=["Route X; KrigingSystem is a stub whose option setters and estimate() may fail"],
                canaries=[{"fn": "CalcKriging::_run", "rx": r"if \(_iechSingleTarget >= 0\) _storeResultsForExport\(ksys\);", "rp": ";", "expect": r"assertion"}])


def unit_seeding_shared():
    """seeding at the entry of every random procedure: a requested seed always (re)seeds the generator in use, whatever was requested before (unit shared with C13)"""
    import copy
    from specs import C13
    u = copy.copy(C13.unit_seed())
    u.name = "C10.law_set_random_seed"
    u.claim = "[a seeded procedure does not continue the stream left by earlier calls: its results depend on its seed argument only] " + u.claim
    return u


def units(tier):
    return [unit_optim_pairing(), unit_krigcalc(), unit_estimate_status(), unit_single_target(), unit_seeding_shared()]


META = {
    "level": "proof",
    "explanation": "Typestate obligations on caches and process-wide state; the general statement over all library functions is not claimed.",
    "trusted_base": ["CBMC 6.11 incl. its C++ front end", "hand-written stub classes (Route X)"],
    "assumptions": [],
    "not_covered": ["static work arrays in legacy src/Core/*.cpp", "OptDbg tables", "default space"],
}
MANIFEST = {
    "category": "proof",
    "text": ("Typestate contracts (cache pairing, cache invalidation, generator state) on the real function text; loop-free or loops "
             "over-approximated by havocking, so every history of iterations is covered."),
    "note": "Trusted: CBMC C++ front end, stub classes, listed ghost contracts of callees.",
    "design_ref": "DESIGN.md 3 C10",
}
