"""C08 — saving and reloading gives back an equivalent object: pairing of _serialize / _deserialize on a ghost tape (NeighMoving, ANeigh)."""
import os
from tools.vf import Fn, Unit, VERIF

NM = "src/Neigh/NeighMoving.cpp"
AN = "src/Neigh/ANeigh.cpp"
RW = [(r"_recordRead<int>\(is,\s*\"[^\"]*\",\s*", "VF_read_int(", "opt"), (r"_recordRead<double>\(is,\s*\"[^\"]*\",\s*", "VF_read_double(", "opt"),
      (r"_recordWrite<int>\(os,\s*\"[^\"]*\",\s*", "VF_write_int(", "opt"), (r"_recordWrite<double>\(os,\s*\"[^\"]*\",\s*", "VF_write_double(", "opt")]


def unit_neighmoving():
    fns = [
        Fn("ANeigh::_deserialize", AN, r"^bool ANeigh::_deserialize\(std::istream& is, bool /\*verbose\*/\)\s*$", csig="bool ANeigh::_deserialize(std::istream& is, bool verbose)", rewrites=RW),
        Fn("ANeigh::_serialize", AN, r"^bool ANeigh::_serialize\(std::ostream& os, bool /\*verbose\*/\) const\s*$", csig="bool ANeigh::_serialize(std::ostream& os, bool verbose) const", rewrites=RW),
        Fn("NeighMoving::getFlagSector", NM, r"^bool NeighMoving::getFlagSector\(\) const\s*$"),
        Fn("NeighMoving::_deserialize", NM, r"^bool NeighMoving::_deserialize\(std::istream& is, bool verbose\)\s*$", rewrites=RW),
        Fn("NeighMoving::_serialize", NM, r"^bool NeighMoving::_serialize\(std::ostream& os, bool verbose\) const\s*$", rewrites=RW),
    ]
    h = """
Tape g_tape; int g_type_mismatch;
#define SAME(x, y) ((x) == (y) || ((x) != (x) && (y) != (y)))
void vf_harness()
{
  /* an arbitrary moving neighbourhood 'a' in 1 or 2 dimensions, with or without anisotropy / rotation */
  NeighMoving a; a._ndimA = nondet_int(); __CPROVER_assume(1 <= a._ndimA && a._ndimA <= 2);
  a._nMini = nondet_int(); a._nMaxi = nondet_int(); a._nSect = nondet_int(); a._nSMax = nondet_int(); __CPROVER_assume(a._nSect >= 1);
  __CPROVER_assume(a._ndimA > 1 || a._nSect == 1);      /* sectors need 2-D (constructor invariant) */
  BiTargetCheckDistance A; a._biPtDist = &A;
  A._ndim = a._ndimA; A._radius = nondet_double(); __CPROVER_assume(!FFFF(A._radius));
  A._flagAniso = nondet_bool(); A._flagRotation = A._flagAniso && nondet_bool();
  A._anisoCoeffs.n = A._ndim; A._anisoRotMat.n = A._ndim * A._ndim;
  for (int i = 0; i < 2; i++) A._anisoCoeffs.a[i] = A._flagAniso ? nondet_double() : 1.;
  for (int i = 0; i < 4; i++) A._anisoRotMat.a[i] = A._flagRotation ? nondet_double() : ((i == 0 || i == A._ndim + 1) ? 1. : 0.);
  g_tape.n = 0; g_tape.rd = 0; g_type_mismatch = 0;
  std::ostream os; std::istream is;
  bool w = a._serialize(os, false);
  __CPROVER_assert(w, "writing succeeds");
  NeighMoving b; b._biPtDist = 0; b._ndimA = 0; b._nMini = 0; b._nMaxi = 0; b._nSect = 0; b._nSMax = 0;
  bool r = b._deserialize(is, false);
  __CPROVER_assert(r, "what was written can be read back");
  __CPROVER_assert(g_tape.rd == g_tape.n && !g_type_mismatch, "the reader consumes exactly the records written, with the same types");
  __CPROVER_assert(b._ndimA == a._ndimA && b._nMini == a._nMini && b._nMaxi == a._nMaxi && b._nSect == a._nSect && b._nSMax == a._nSMax, "counts and space dimension are restored");
  __CPROVER_assert(SAME(b._biPtDist->_radius, A._radius), "the radius is restored");
  __CPROVER_assert(b._biPtDist->_flagAniso == A._flagAniso, "the anisotropy flag is restored");
  if (A._flagAniso) for (int i = 0; i < 2; i++) if (i < A._ndim)
    __CPROVER_assert(SAME(b._biPtDist->_anisoCoeffs.a[i], A._anisoCoeffs.a[i]), "the anisotropy coefficients are restored unchanged");
  __CPROVER_assert(b._biPtDist->_flagRotation == A._flagRotation, "the rotation flag is restored");
  if (A._flagRotation) for (int i = 0; i < 4; i++) if (i < A._ndim * A._ndim)
    __CPROVER_assert(SAME(b._biPtDist->_anisoRotMat.a[i], A._anisoRotMat.a[i]), "the rotation matrix is restored");
  VF_REACH();
}
"""
    return Unit("C08.NeighMoving.roundtrip", fns, mode="cpp", prelude=open(os.path.join(VERIF, "stubs", "neigh_serial_stub.hpp")).read(), harness=h, unwind=6, checks=[],
                ignore=r"delete argument must be dynamic object|double delete", backends=("minisat", "cadical"), timeout=600,
                bounded="space dimension 1 or 2 (loops unwound with unwinding assertions)",
                claim=("NeighMoving (with ANeigh): for every neighbourhood (counts, radius, with/without anisotropy and rotation) reading back what _serialize "
                       "wrote consumes exactly the records written with matching types and restores every defining parameter: counts, space dimension, radius, "
                       "anisotropy coefficients, rotation flag and rotation matrix"),
                assumptions=["Route X: the neutral file is a ghost tape of typed records (text formatting, 15 digits, NA token not modelled); _recordRead/_recordWrite "
                             "calls renamed by must-fire rewrites (member templates with explicit <T> are outside CBMC's front end)",
                             "BiTargetCheckDistance enters through a stub mirroring its constructor and accessors (create(radius, coeffs): anisotropic iff coeffs "
                             "given, coefficients stored as given, identity rotation, rotation flag false)",
                             "space dimension <= 2"],
                trusted=["stubs/neigh_serial_stub.hpp"],
                canaries=[{"fn": "NeighMoving::_serialize", "rx": r"_recordWrite<int>\(os, \"\", getNSMax\(\)\);", "rp": "_recordWrite<int>(os, \"\", getNSect());", "expect": r"assertion"}])


def _aneigh():
    return [Fn("ANeigh::_deserialize", AN, r"^bool ANeigh::_deserialize\(std::istream& is, bool /\*verbose\*/\)\s*$", csig="bool ANeigh::_deserialize(std::istream& is, bool verbose)", rewrites=RW),
            Fn("ANeigh::_serialize", AN, r"^bool ANeigh::_serialize\(std::ostream& os, bool /\*verbose\*/\) const\s*$", csig="bool ANeigh::_serialize(std::ostream& os, bool verbose) const", rewrites=RW)]


def _simple_unit(cls, src, harness, claim, canary, bounded=None):
    fns = _aneigh() + [
        Fn(cls + "::_deserialize", src, r"^bool %s::_deserialize\(std::istream& is, bool verbose\)\s*$" % cls, rewrites=RW),
        Fn(cls + "::_serialize", src, r"^bool %s::_serialize\(std::ostream& os, bool verbose\) const\s*$" % cls, rewrites=RW)]
    return Unit("C08.%s.roundtrip" % cls, fns, mode="cpp", prelude=open(os.path.join(VERIF, "stubs", "neigh_serial_stub.hpp")).read(),
                harness="Tape g_tape; int g_type_mismatch;\n#define SAME(x, y) ((x) == (y) || ((x) != (x) && (y) != (y)))\n" + harness, unwind=6, checks=[],
                ignore=r"delete argument must be dynamic object|double delete", backends=("minisat", "cadical"), timeout=600, bounded=bounded, claim=claim,
                assumptions=["Route X: the neutral file is a ghost tape of typed records (text formatting, 15 digits, NA token not modelled); _recordRead/_recordWrite "
                             "calls renamed by must-fire rewrites", "the reloaded object starts as the default-constructed object that createFromNF builds "
                             "(members as initialised by the class's default constructor, mirrored in the harness)"],
                trusted=["stubs/neigh_serial_stub.hpp"], canaries=[canary])


def unit_neighbench():
    h = """
void vf_harness()
{
  NeighBench a; a._ndimA = nondet_int(); __CPROVER_assume(1 <= a._ndimA && a._ndimA <= 1048576); a._width = nondet_double(); __CPROVER_assume(!FFFF(a._width));
  BiTargetCheckBench A; A._idimBench = -1; A._width = a._width; a._biPtBench = &A;      /* constructor: create(-1, _width) */
  g_tape.n = 0; g_tape.rd = 0; g_type_mismatch = 0;
  std::ostream os; std::istream is;
  __CPROVER_assert(a._serialize(os, false), "writing succeeds");
  NeighBench b; b._ndimA = 0; b._width = 0.; BiTargetCheckBench B; B._idimBench = -1; B._width = 0.; b._biPtBench = &B;   /* new NeighBench() */
  __CPROVER_assert(b._deserialize(is, false), "what was written can be read back");
  __CPROVER_assert(g_tape.rd == g_tape.n && !g_type_mismatch, "the reader consumes exactly the records written, with the same types");
  __CPROVER_assert(b._ndimA == a._ndimA, "the space dimension is restored");
  __CPROVER_assert(SAME(b.getWidth(), a.getWidth()), "the bench width used by the search (getWidth) is restored");
  __CPROVER_assert(SAME(b._biPtBench->getWidth(), a._biPtBench->getWidth()), "the bench width of the pair checker is restored");
  VF_REACH();
}
"""
    return _simple_unit("NeighBench", "src/Neigh/NeighBench.cpp", h,
                        "NeighBench: for every width and space dimension the reloaded neighbourhood has the same dimension, the same width in the member used by "
                        "the search (_width / getWidth) and the same width in its pair checker",
                        {"fn": "NeighBench::_serialize", "rx": r"_biPtBench->getWidth\(\)", "rp": "2. * _biPtBench->getWidth()", "expect": r"assertion"})


def unit_neighimage():
    h = """
void vf_harness()
{
  NeighImage a; a._ndimA = nondet_int(); __CPROVER_assume(1 <= a._ndimA && a._ndimA <= 3); a._skip = nondet_int();
  a._imageRadius.n = a._ndimA; for (int i = 0; i < 4; i++) a._imageRadius.a[i] = nondet_int();
  g_tape.n = 0; g_tape.rd = 0; g_type_mismatch = 0;
  std::ostream os; std::istream is;
  __CPROVER_assert(a._serialize(os, false), "writing succeeds");
  NeighImage b; b._ndimA = 0; b._skip = 0; b._imageRadius.n = 0;             /* new NeighImage(): empty radius vector */
  __CPROVER_assert(b._deserialize(is, false), "what was written can be read back");
  __CPROVER_assert(g_tape.rd == g_tape.n && !g_type_mismatch, "the reader consumes exactly the records written, with the same types");
  __CPROVER_assert(b._ndimA == a._ndimA && b._skip == a._skip, "dimension and skipping factor are restored");
  __CPROVER_assert(b._imageRadius.n == a._ndimA, "the reloaded radius vector has one entry per dimension");
  for (int i = 0; i < 3; i++) if (i < a._ndimA && i < b._imageRadius.n)
    __CPROVER_assert(b._imageRadius.a[i] == a._imageRadius.a[i], "the image radii are restored");
  VF_REACH();
}
"""
    return _simple_unit("NeighImage", "src/Neigh/NeighImage.cpp", h,
                        "NeighImage: for every skipping factor and radii (1 to 3 dimensions) reloading writes only inside the radius vector of the object "
                        "being filled and restores dimension, skipping factor and every radius",
                        {"fn": "NeighImage::_serialize", "rx": r"getSkip\(\)", "rp": "getSkip() + 1", "expect": r"assertion"},
                        bounded="space dimension 1 to 3 (loops unwound with unwinding assertions)")


def unit_neighcell():
    h = """
void vf_harness()
{
  NeighCell a; a._ndimA = nondet_int(); __CPROVER_assume(1 <= a._ndimA && a._ndimA <= 1048576); a._nMini = nondet_int();
  g_tape.n = 0; g_tape.rd = 0; g_type_mismatch = 0;
  std::ostream os; std::istream is;
  __CPROVER_assert(a._serialize(os, false), "writing succeeds");
  NeighCell b; b._ndimA = 0; b._nMini = 1;
  __CPROVER_assert(b._deserialize(is, false), "what was written can be read back");
  __CPROVER_assert(g_tape.rd == g_tape.n && !g_type_mismatch, "the reader consumes exactly the records written, with the same types");
  __CPROVER_assert(b._ndimA == a._ndimA && b._nMini == a._nMini, "dimension and minimum count are restored");
  VF_REACH();
}
"""
    return _simple_unit("NeighCell", "src/Neigh/NeighCell.cpp", h, "NeighCell: dimension and minimum number of samples are restored",
                        {"fn": "NeighCell::_serialize", "rx": r"getNMini\(\)", "rp": "getNMini() + 1", "expect": r"assertion"})



# ---------------------------------------------------------------------------------------------------------------------------
# generic ghost-tape units (stubs/tape_stub.hpp)
RW2 = [(r"_recordRead<int>\s*\(is,\s*\"[^\"]*\",\s*", "VF_read_int(", "opt"), (r"_recordRead<double>\s*\(is,\s*\"[^\"]*\",\s*", "VF_read_double(", "opt"),
       (r"_recordWrite<int>\s*\(os,\s*\"[^\"]*\",\s*", "VF_write_int(", "opt"), (r"_recordWrite<double>\s*\(os,\s*\"[^\"]*\",\s*", "VF_write_double(", "opt"),
       (r"_recordWriteVec<double>\s*\(os,\s*\"[^\"]*\",\s*", "VF_writeVec_double(", "opt"), (r"_recordReadVec<double>\s*\(is,\s*\"[^\"]*\",\s*", "VF_readVec_double(", "opt"),
       (r"_recordWriteVec<int>\s*\(os,\s*\"[^\"]*\",\s*", "VF_writeVec_int(", "opt"), (r"_recordReadVec<int>\s*\(is,\s*\"[^\"]*\",\s*", "VF_readVec_int(", "opt"),
       (r"_tableWrite\s*\(os,\s*\"[^\"]*\",\s*", "VF_tableWrite(", "opt"), (r"_tableRead\s*\(is,\s*\"[^\"]*\",\s*", "VF_tableRead(", "opt")]
TAPE_ASSUME = ["Route X: the neutral file is a ghost tape of typed records (scalar records and vector lines); text formatting, 15 digits, NA token and comments "
               "are not modelled; _recordRead/_recordWrite/_recordReadVec/_recordWriteVec/_tableRead/_tableWrite calls renamed by must-fire rewrites",
               "class members enter through stub class declarations mirroring the headers; the reloaded object starts as createFromNF builds it (default constructor)",
               "vectors hold at most 4 elements (loops unwound with unwinding assertions)"]


def tape_unit(name, fns, classes, harness, claim, canary, bounded="vectors of at most 4 elements", unwind=6, timeout=600, defines=""):
    pre = defines + open(os.path.join(VERIF, "stubs", "tape_stub.hpp")).read() + classes
    return Unit("C08.%s.roundtrip" % name, fns, mode="cpp", prelude=pre, harness="Tape g_tape; int g_type_mismatch;\n" + harness, unwind=unwind, checks=[],
                ignore=r"delete argument must be dynamic object|double delete", backends=("minisat", "cadical"), timeout=timeout, bounded=bounded, claim=claim,
                assumptions=TAPE_ASSUME, trusted=["stubs/tape_stub.hpp"], canaries=[canary])


def pair(cls, src, unnamed_verbose=False, extra=()):
    v = r"bool /\*verbose\*/" if unnamed_verbose else "bool verbose"
    kw = {}
    return [Fn(cls + "::_deserialize", src, r"^bool %s::_deserialize\(std::istream& is, %s\)\s*$" % (cls, v),
               csig=("bool %s::_deserialize(std::istream& is, bool verbose)" % cls) if unnamed_verbose else None, rewrites=RW2 + list(extra)),
            Fn(cls + "::_serialize", src, r"^bool %s::_serialize\(std::ostream& os, %s\) const\s*$" % (cls, v),
               csig=("bool %s::_serialize(std::ostream& os, bool verbose) const" % cls) if unnamed_verbose else None, rewrites=RW2 + list(extra))]


def unit_polygons():
    fns = (pair("PolyLine2D", "src/Basic/PolyLine2D.cpp", True) + pair("PolyElem", "src/Polygon/PolyElem.cpp") + pair("Polygons", "src/Polygon/Polygons.cpp") +
           [Fn("Polygons::addPolyElem", "src/Polygon/Polygons.cpp", r"^void Polygons::addPolyElem\(const PolyElem& polyelem\)\s*$")])
    classes = """
class PolyLine2D { public: VectorDouble _x; VectorDouble _y; int getNPoints() const { return (int) _x.size(); }
  bool _serialize(std::ostream& os, bool verbose) const; bool _deserialize(std::istream& is, bool verbose); };
class PolyElem : public PolyLine2D { public: double _zmin; double _zmax;
  PolyElem() : _zmin(TEST), _zmax(TEST) {}
  bool _serialize(std::ostream& os, bool verbose) const; bool _deserialize(std::istream& is, bool verbose); };
struct PolyElemVec { PolyElem a[2]; int n; PolyElemVec() : n(0) {} void clear() { n = 0; } int size() const { return n; }
  void push_back(const PolyElem& p) { __CPROVER_assert(n < 2, "modelled capacity: two polygon elements"); a[n] = p; n = n + 1; }
  const PolyElem& operator[](int i) const { __CPROVER_assert(0 <= i && i < n, "polygon index inside the list"); PolyElem* p = (PolyElem*) (a + i); return *p; } };
class Polygons { public: PolyElemVec _polyelems;
  int getPolyElemNumber() const { return _polyelems.size(); }
  const PolyElem& getPolyElem(int ipol) const { return _polyelems[ipol]; }
  void addPolyElem(const PolyElem& polyelem);
  bool _serialize(std::ostream& os, bool verbose) const; bool _deserialize(std::istream& is, bool verbose); };
"""
    h = """
void vf_harness()
{
  Polygons a; int npol = nondet_int(); __CPROVER_assume(1 <= npol && npol <= 2); a._polyelems.n = npol;
  for (int k = 0; k < 2; k++) { PolyElem& e = a._polyelems.a[k]; int np = nondet_int(); __CPROVER_assume(3 <= np && np <= 4);   /* addPolyElem keeps >= 3 vertices */
    e._x.n = np; e._y.n = np; for (int i = 0; i < 4; i++) { e._x.a[i] = nondet_double(); e._y.a[i] = nondet_double(); } e._zmin = nondet_double(); e._zmax = nondet_double(); }
  TAPE_RESET(); std::ostream os; std::istream is;
  __CPROVER_assert(a._serialize(os, false), "writing succeeds");
  Polygons b;
  __CPROVER_assert(b._deserialize(is, false), "what was written can be read back");
  __CPROVER_assert(TAPE_CONSUMED(), "the reader consumes exactly the records written, with the same types");
  __CPROVER_assert(b._polyelems.n == npol, "the number of polygon elements is restored");
  for (int k = 0; k < 2; k++) if (k < npol && k < b._polyelems.n) { const PolyElem& e = a._polyelems.a[k]; const PolyElem& f = b._polyelems.a[k];
    __CPROVER_assert(f._x.n == e._x.n && f._y.n == e._x.n, "the number of vertices is restored");
    __CPROVER_assert(SAME(f._zmin, e._zmin) && SAME(f._zmax, e._zmax), "the vertical limits are restored (undefined stays undefined)");
    for (int i = 0; i < 4; i++) if (i < e._x.n && i < f._x.n) __CPROVER_assert(SAME(f._x.a[i], e._x.a[i]) && SAME(f._y.a[i], e._y.a[i]), "the vertices are restored"); }
  VF_REACH();
}
"""
    return tape_unit("Polygons", fns, classes, h,
                     "Polygons (with PolyElem, PolyLine2D): for every set of 1-2 polygon elements of 3-4 vertices and any vertical limits, reading back what "
                     "_serialize wrote consumes exactly the records written and restores the element count, every vertex and the vertical limits",
                     {"fn": "PolyElem::_serialize", "rx": r"\"Z-Maximum\", _zmax", "rp": "\"Z-Maximum\", _zmin", "expect": r"assertion"}, unwind=6)



def unit_faults():
    fns = pair("PolyLine2D", "src/Basic/PolyLine2D.cpp", True) + pair("Faults", "src/Faults/Faults.cpp") + [
        Fn("Faults::addFault", "src/Faults/Faults.cpp", r"^void Faults::addFault\(const PolyLine2D& fault\)\s*$")]
    classes = """
class PolyLine2D { public: VectorDouble _x; VectorDouble _y; int getNPoints() const { return (int) _x.size(); } VF_SERIAL_WRAPPERS;
  PolyLine2D() {} PolyLine2D(const PolyLine2D& o) { _x = o._x; _y = o._y; } PolyLine2D& operator=(const PolyLine2D& o) { _x = o._x; _y = o._y; return *this; } };
VF_LIST(PolyLineVec, PolyLine2D, 2);
class Faults { public: PolyLineVec _faults; int getNFaults() const { return (int) _faults.size(); } void addFault(const PolyLine2D& fault);
  bool _serialize(std::ostream& os, bool verbose) const; bool _deserialize(std::istream& is, bool verbose); };
"""
    h = """
void vf_harness()
{
  Faults a; int nf = nondet_int(); __CPROVER_assume(0 <= nf && nf <= 2); a._faults.n = nf;
  for (int k = 0; k < 2; k++) { PolyLine2D& e = a._faults.a[k]; int np = nondet_int(); __CPROVER_assume(1 <= np && np <= 3);
    e._x.n = np; e._y.n = np; for (int i = 0; i < 4; i++) { e._x.a[i] = nondet_double(); e._y.a[i] = nondet_double(); } }
  TAPE_RESET(); std::ostream os; std::istream is;
  __CPROVER_assert(a._serialize(os, false), "writing succeeds");
  Faults b;
  __CPROVER_assert(b._deserialize(is, false), "what was written can be read back");
  __CPROVER_assert(TAPE_CONSUMED(), "the reader consumes exactly the records written, with the same types");
  __CPROVER_assert(b._faults.n == nf, "the number of faults is restored");
  for (int k = 0; k < 2; k++) if (k < nf && k < b._faults.n) { const PolyLine2D& e = a._faults.a[k]; const PolyLine2D& f = b._faults.a[k];
    __CPROVER_assert(f._x.n == e._x.n && f._y.n == e._x.n, "the number of vertices is restored");
    for (int i = 0; i < 3; i++) if (i < e._x.n && i < f._x.n) __CPROVER_assert(SAME(f._x.a[i], e._x.a[i]) && SAME(f._y.a[i], e._y.a[i]), "the vertices are restored"); }
  VF_REACH();
}
"""
    return tape_unit("Faults", fns, classes, h, "Faults (with PolyLine2D): 0-2 faults of 1-3 vertices: count, vertex counts and every vertex are restored",
                     {"fn": "PolyLine2D::_serialize", "rx": r"buffer\[1\] = _y\[i\];", "rp": "buffer[1] = _x[i];", "expect": r"assertion"})


def unit_table():
    fns = pair("Table", "src/Matrix/Table.cpp", True)
    classes = """
class Table { public: double v[3][3]; int _nrows, _ncols;
  int getNRows() const { return _nrows; } int getNCols() const { return _ncols; }
  void reset(int nrows, int ncols) { __CPROVER_assert(0 <= nrows && nrows <= 3 && 0 <= ncols && ncols <= 3, "modelled table capacity"); _nrows = nrows; _ncols = ncols;
    for (int i = 0; i < 3; i++) for (int j = 0; j < 3; j++) v[i][j] = 0.; }
  double getValue(int irow, int icol) const { __CPROVER_assert(0 <= irow && irow < _nrows && 0 <= icol && icol < _ncols, "cell inside the table"); return v[irow][icol]; }
  void setValue(int irow, int icol, double value) { __CPROVER_assert(0 <= irow && irow < _nrows && 0 <= icol && icol < _ncols, "cell inside the table"); v[irow][icol] = value; }
  bool _serialize(std::ostream& os, bool verbose) const; bool _deserialize(std::istream& is, bool verbose); };
"""
    h = """
void vf_harness()
{
  Table a; a._nrows = nondet_int(); a._ncols = nondet_int(); __CPROVER_assume(0 <= a._nrows && a._nrows <= 3 && 0 <= a._ncols && a._ncols <= 3);
  for (int i = 0; i < 3; i++) for (int j = 0; j < 3; j++) a.v[i][j] = nondet_double();
  TAPE_RESET(); std::ostream os; std::istream is;
  __CPROVER_assert(a._serialize(os, false), "writing succeeds");
  Table b; b._nrows = 0; b._ncols = 0;
  __CPROVER_assert(b._deserialize(is, false), "what was written can be read back");
  __CPROVER_assert(TAPE_CONSUMED(), "the reader consumes exactly the records written, with the same types");
  __CPROVER_assert(b._nrows == a._nrows && b._ncols == a._ncols, "the table dimensions are restored");
  for (int i = 0; i < 3; i++) for (int j = 0; j < 3; j++) if (i < a._nrows && j < a._ncols) __CPROVER_assert(SAME(b.v[i][j], a.v[i][j]), "every cell is restored in its row and column");
  VF_REACH();
}
"""
    return tape_unit("Table", fns, classes, h, "Table: up to 3x3 cells: dimensions and every cell (row/column order) are restored; row/column names and title are "
                     "not part of the neutral file and are not compared",
                     {"fn": "Table::_serialize", "rx": r"getValue\(irow, icol\)", "rp": "getValue(irow, 0)", "expect": r"assertion"},
                     bounded="at most 3 rows and 3 columns")


def unit_anamhermite():
    fns = pair("AnamContinuous", "src/Anamorphosis/AnamContinuous.cpp", True) + pair("AnamHermite", "src/Anamorphosis/AnamHermite.cpp") + [
        Fn("AnamHermite::getPsiHns", "src/Anamorphosis/AnamHermite.cpp", r"^VectorDouble AnamHermite::getPsiHns\(\) const\s*$")]
    classes = """
struct Interval { double _vmin, _vmax; double getVmin() const { return _vmin; } double getVmax() const { return _vmax; } void setVmin(double v) { _vmin = v; } void setVmax(double v) { _vmax = v; } };
class AnamContinuous { public: Interval _az, _ay, _pz, _py; double _mean, _variance;
  double getMean() const { return _mean; } double getVariance() const { return _variance; } void setMean(double m) { _mean = m; } void setVariance(double v) { _variance = v; }
  double getAymax() const { return _ay.getVmax(); } double getAymin() const { return _ay.getVmin(); } double getAzmax() const { return _az.getVmax(); } double getAzmin() const { return _az.getVmin(); }
  double getPymax() const { return _py.getVmax(); } double getPymin() const { return _py.getVmin(); } double getPzmax() const { return _pz.getVmax(); } double getPzmin() const { return _pz.getVmin(); }
  void setAzmin(double v) { _az.setVmin(v); } void setAzmax(double v) { _az.setVmax(v); } void setAymin(double v) { _ay.setVmin(v); } void setAymax(double v) { _ay.setVmax(v); }
  void setPzmin(double v) { _pz.setVmin(v); } void setPzmax(double v) { _pz.setVmax(v); } void setPymin(double v) { _py.setVmin(v); } void setPymax(double v) { _py.setVmax(v); }
  bool _serialize(std::ostream& os, bool verbose) const; bool _deserialize(std::istream& is, bool verbose); };
class AnamHermite : public AnamContinuous { public: double _rCoef; VectorDouble _psiHn;
  bool isChangeSupportDefined() const { return (_rCoef < 1.); }
  int getNbPoly() const { return (int) _psiHn.size(); }
  VectorDouble getPsiHns() const;
  double getRCoef() const { return _rCoef; }
  void setPsiHns(const VectorDouble& psi_hn) { _psiHn = psi_hn; }
  void setRCoef(double r_coef) { _rCoef = r_coef; _mean = nondet_double(); _variance = nondet_double(); }   /* calculateMeanAndVariance(): recomputed, not compared */
  bool _serialize(std::ostream& os, bool verbose) const; bool _deserialize(std::istream& is, bool verbose); };
"""
    h = """
void vf_harness()
{
  AnamHermite a; a._rCoef = nondet_double(); __CPROVER_assume(0. < a._rCoef && a._rCoef <= 1.);       /* with or without a change of support */
  int nb = nondet_int(); __CPROVER_assume(1 <= nb && nb <= 3); a._psiHn.n = nb; for (int i = 0; i < 4; i++) a._psiHn.a[i] = nondet_double();
  a._az._vmin = nondet_double(); a._az._vmax = nondet_double(); a._ay._vmin = nondet_double(); a._ay._vmax = nondet_double();
  a._pz._vmin = nondet_double(); a._pz._vmax = nondet_double(); a._py._vmin = nondet_double(); a._py._vmax = nondet_double(); a._mean = nondet_double(); a._variance = nondet_double();
  TAPE_RESET(); std::ostream os; std::istream is;
  __CPROVER_assert(a._serialize(os, false), "writing succeeds");
  AnamHermite b; b._rCoef = 1.; b._psiHn.n = 0;
  __CPROVER_assert(b._deserialize(is, false), "what was written can be read back");
  __CPROVER_assert(TAPE_CONSUMED(), "the reader consumes exactly the records written, with the same types");
  __CPROVER_assert(SAME(b._az._vmin, a._az._vmin) && SAME(b._az._vmax, a._az._vmax) && SAME(b._ay._vmin, a._ay._vmin) && SAME(b._ay._vmax, a._ay._vmax), "the absolute bounds are restored");
  __CPROVER_assert(SAME(b._pz._vmin, a._pz._vmin) && SAME(b._pz._vmax, a._pz._vmax) && SAME(b._py._vmin, a._py._vmin) && SAME(b._py._vmax, a._py._vmax), "the practical bounds are restored");
  __CPROVER_assert(b._rCoef == a._rCoef, "the change of support coefficient is restored");
  __CPROVER_assert(b._psiHn.n == nb, "the number of Hermite coefficients is restored");
  for (int i = 0; i < 3; i++) if (i < nb && i < b._psiHn.n) __CPROVER_assert(SAME(b._psiHn.a[i], a._psiHn.a[i]), "the Hermite coefficients are restored as stored (the change of support is not applied twice)");
  VF_REACH();
}
"""
    return tape_unit("AnamHermite", fns, classes, h,
                     "AnamHermite (with AnamContinuous): 1-3 coefficients, with or without a change of support coefficient: bounds, coefficient r and the stored "
                     "Hermite coefficients are restored; mean and variance are recomputed on reload (setRCoef) and not compared",
                     {"fn": "AnamContinuous::_serialize", "rx": r"getPymax\(\)", "rp": "getPzmax()", "expect": r"assertion"},
                     bounded="at most 3 Hermite coefficients")



def unit_fracenviron():
    FR = "src/Fractures/"
    fns = pair("FracFamily", FR + "FracFamily.cpp", True) + pair("FracFault", FR + "FracFault.cpp", True) + pair("FracEnviron", FR + "FracEnviron.cpp")
    classes = """
class FracFamily { public: double _orient, _dorient, _theta0, _alpha, _ratcst, _prop1, _prop2, _aterm, _bterm, _range; VF_SERIAL_WRAPPERS; };
class FracFault { public: double _coord, _orient; VectorDouble _thetal, _thetar, _rangel, _ranger;
  FracFault() {} FracFault(const FracFault& o) { _coord = o._coord; _orient = o._orient; _thetal = o._thetal; _thetar = o._thetar; _rangel = o._rangel; _ranger = o._ranger; }
  FracFault& operator=(const FracFault& o) { _coord = o._coord; _orient = o._orient; _thetal = o._thetal; _thetar = o._thetar; _rangel = o._rangel; _ranger = o._ranger; return *this; }
  int getNFamilies() const { return (int) _thetal.size(); } VF_SERIAL_WRAPPERS; };
VF_LIST(FamVec, FracFamily, 2);
VF_LIST(FaultVec, FracFault, 1);
class FracEnviron { public: double _xmax, _ymax, _deltax, _deltay, _mean, _stdev; FamVec _families; FaultVec _faults;
  int getNFamilies() const { return (int) _families.size(); } int getNFaults() const { return (int) _faults.size(); }
  const FracFault& getFault(int i) const { return _faults[i]; } const FracFamily& getFamily(int i) const { return _families[i]; }
  void addFamily(const FracFamily& family) { _families.push_back(family); } void addFault(const FracFault& fault) { _faults.push_back(fault); }
  bool _serialize(std::ostream& os, bool verbose) const; bool _deserialize(std::istream& is, bool verbose); };
"""
    h = """
#define FAMEQ(f, e) (SAME(f._orient, e._orient) && SAME(f._dorient, e._dorient) && SAME(f._theta0, e._theta0) && SAME(f._alpha, e._alpha) && SAME(f._ratcst, e._ratcst) && \\
                     SAME(f._prop1, e._prop1) && SAME(f._prop2, e._prop2) && SAME(f._aterm, e._aterm) && SAME(f._bterm, e._bterm) && SAME(f._range, e._range))
void vf_harness()
{
  FracEnviron a; a._xmax = nondet_double(); a._ymax = nondet_double(); a._deltax = nondet_double(); a._deltay = nondet_double(); a._mean = nondet_double(); a._stdev = nondet_double();
  int nfam = nondet_int(); __CPROVER_assume(0 <= nfam && nfam <= 2); a._families.n = nfam;
  for (int k = 0; k < 2; k++) { FracFamily& e = a._families.a[k]; e._orient = nondet_double(); e._dorient = nondet_double(); e._theta0 = nondet_double(); e._alpha = nondet_double();
    e._ratcst = nondet_double(); e._prop1 = nondet_double(); e._prop2 = nondet_double(); e._aterm = nondet_double(); e._bterm = nondet_double(); e._range = nondet_double(); }
  int nfl = nondet_int(); __CPROVER_assume(0 <= nfl && nfl <= 1); a._faults.n = nfl;
  { FracFault& e = a._faults.a[0]; e._coord = nondet_double(); e._orient = nondet_double(); e._thetal.n = nfam; e._thetar.n = nfam; e._rangel.n = nfam; e._ranger.n = nfam;
    for (int i = 0; i < 4; i++) { e._thetal.a[i] = nondet_double(); e._thetar.a[i] = nondet_double(); e._rangel.a[i] = nondet_double(); e._ranger.a[i] = nondet_double(); } }
  TAPE_RESET(); std::ostream os; std::istream is;
  __CPROVER_assert(a._serialize(os, false), "writing succeeds");
  FracEnviron b; b._xmax = 0.; b._ymax = 0.; b._deltax = 0.; b._deltay = 0.; b._mean = 0.; b._stdev = 0.;
  __CPROVER_assert(b._deserialize(is, false), "what was written can be read back");
  __CPROVER_assert(TAPE_CONSUMED(), "the reader consumes exactly the records written, with the same types");
  __CPROVER_assert(SAME(b._xmax, a._xmax) && SAME(b._ymax, a._ymax) && SAME(b._deltax, a._deltax) && SAME(b._deltay, a._deltay) && SAME(b._mean, a._mean) && SAME(b._stdev, a._stdev), "the environment parameters are restored");
  __CPROVER_assert(b._families.n == nfam && b._faults.n == nfl, "the numbers of families and faults are restored");
  for (int k = 0; k < 2; k++) if (k < nfam && k < b._families.n) { const FracFamily& e = a._families.a[k]; const FracFamily& f = b._families.a[k];
    __CPROVER_assert(FAMEQ(f, e), "every family parameter is restored in its own field"); }
  if (nfl == 1 && b._faults.n == 1) { const FracFault& e = a._faults.a[0]; const FracFault& f = b._faults.a[0];
    __CPROVER_assert(SAME(f._coord, e._coord) && SAME(f._orient, e._orient), "fault position and orientation are restored");
    __CPROVER_assert(f._thetal.n == nfam && f._thetar.n == nfam && f._rangel.n == nfam && f._ranger.n == nfam, "the per-family vectors of the fault keep their length");
    for (int i = 0; i < 2; i++) if (i < nfam && f._thetal.n == nfam && f._thetar.n == nfam && f._rangel.n == nfam && f._ranger.n == nfam)
      __CPROVER_assert(SAME(f._thetal.a[i], e._thetal.a[i]) && SAME(f._thetar.a[i], e._thetar.a[i]) && SAME(f._rangel.a[i], e._rangel.a[i]) && SAME(f._ranger.a[i], e._ranger.a[i]), "the per-family densities and ranges of the fault are restored in their own vectors"); }
  VF_REACH();
}
"""
    return tape_unit("FracEnviron", fns, classes, h,
                     "FracEnviron (with FracFamily, FracFault): 0-2 families and 0-1 main fault: the six environment parameters, the ten parameters of each family "
                     "and position, orientation and the four per-family vectors of the fault are restored, each in its own field",
                     {"fn": "FracFamily::_serialize", "rx": r"\"Survival probability \(constant term\)\", _prop1", "rp": "\"Survival probability (constant term)\", _prop2", "expect": r"assertion"},
                     bounded="at most 2 families and 1 fault", defines="#define TAPE_MAX 64\n")



DB_TABLE_PART = """
/* the table part (Db::_serialize / Db::_deserialize, unit C09.Db_deserialize for the reader) is one sentinel record here */
class Db { public: bool _serialize(std::ostream& os, bool verbose) const { return VF_write_int(424242); }
  bool _deserialize(std::istream& is, bool verbose) { int v = 0; return VF_read_int(v) && v == 424242; } };
"""
EXPR_STMT = [(r"(?m)^(\s*)(ret && Db::_(?:de)?serialize\((?:is|os), verbose\));", r"\1(void) (\2);", "opt")]   # 'a && f();' is mis-parsed as a declaration


def unit_dbgrid():
    fns = pair("DbGrid", "src/Db/DbGrid.cpp", extra=EXPR_STMT) + [Fn("DbGrid::getNDim", "src/Db/DbGrid.cpp", r"^int DbGrid::getNDim\(\) const\s*$")]
    classes = DB_TABLE_PART + """
struct Grid { int _nDim; VectorInt _nx; VectorDouble _x0, _dx, _angles;
  int getNDim() const { return _nDim; } int getNX(int i) const { return _nx[i]; } double getX0(int i) const { return _x0[i]; } double getDX(int i) const { return _dx[i]; }
  double getRotAngle(int i) const { return _angles[i]; } };
class DbGrid : public Db { public: Grid _grid;
  int getNDim() const;
  int getNX(int idim) const { return _grid.getNX(idim); } double getDX(int idim) const { return _grid.getDX(idim); } double getX0(int idim) const { return _grid.getX0(idim); }
  double getAngle(int idim) const { return _grid.getRotAngle(idim); }
  /* contract of gridDefine -> Grid::resetFromVector + Rotation::setAngles: dimension = nx.size(); refuses negative counts / meshes; stores the four
     vectors as given (the second angle of a 2-D rotation is forced to 0) */
  int gridDefine(const VectorInt& nx, const VectorDouble& dx, const VectorDouble& x0, const VectorDouble& angles)
  { _grid._nDim = nx.size(); _grid._nx = nx;
    for (int i = 0; i < VCAP; i++) if (i < nx.n && nx.a[i] < 0) return 1;
    _grid._x0 = x0; _grid._dx = dx;
    for (int i = 0; i < VCAP; i++) if (i < dx.n && dx.a[i] < 0.) return 1;
    _grid._angles = angles; if (_grid._nDim == 2 && angles.n == 2) _grid._angles.a[1] = 0.;
    return 0; }
  bool _serialize(std::ostream& os, bool verbose) const; bool _deserialize(std::istream& is, bool verbose); };
"""
    h = """
void vf_harness()
{
  DbGrid a; int nd = nondet_int(); __CPROVER_assume(1 <= nd && nd <= 3); a._grid._nDim = nd;
  a._grid._nx.n = nd; a._grid._x0.n = nd; a._grid._dx.n = nd; a._grid._angles.n = nd;
  for (int i = 0; i < 4; i++) { a._grid._nx.a[i] = nondet_int(); a._grid._x0.a[i] = nondet_double(); a._grid._dx.a[i] = nondet_double(); a._grid._angles.a[i] = nondet_double();
    __CPROVER_assume(a._grid._nx.a[i] >= 0 && a._grid._dx.a[i] >= 0.); }                 /* what the Grid constructor accepts */
  __CPROVER_assume(nd != 2 || a._grid._angles.a[1] == 0.);                               /* Rotation::setAngles invariant in 2-D */
  TAPE_RESET(); std::ostream os; std::istream is;
  __CPROVER_assert(a._serialize(os, false), "writing succeeds");
  DbGrid b; b._grid._nDim = 0;
  __CPROVER_assert(b._deserialize(is, false), "what was written can be read back");
  __CPROVER_assert(TAPE_CONSUMED(), "the reader consumes exactly the records written, with the same types");
  __CPROVER_assert(b._grid._nDim == nd && b._grid._nx.n == nd && b._grid._x0.n == nd && b._grid._dx.n == nd && b._grid._angles.n == nd, "the space dimension is restored");
  for (int i = 0; i < 3; i++) if (i < nd && b._grid._nx.n == nd && b._grid._x0.n == nd && b._grid._dx.n == nd && b._grid._angles.n == nd)
    __CPROVER_assert(b._grid._nx.a[i] == a._grid._nx.a[i] && SAME(b._grid._x0.a[i], a._grid._x0.a[i]) && SAME(b._grid._dx.a[i], a._grid._dx.a[i]) && SAME(b._grid._angles.a[i], a._grid._angles.a[i]),
                     "node count, origin, mesh and angle of every dimension are restored");
  VF_REACH();
}
"""
    return tape_unit("DbGrid", fns, classes, h,
                     "DbGrid (grid header; the table part is a sentinel record): 1-3 dimensions: dimension, node counts, origin, mesh and rotation angles are restored "
                     "and the table part is read at the position where it was written",
                     {"fn": "DbGrid::_serialize", "rx": r"getX0\(idim\)", "rp": "getDX(idim)", "expect": r"assertion"}, bounded="space dimension 1 to 3")


def unit_dbline():
    fns = pair("DbLine", "src/Db/DbLine.cpp", extra=EXPR_STMT) + [
        Fn("DbLine::_isLineNumberValid", "src/Db/DbLine.cpp", r"^bool DbLine::_isLineNumberValid\(int iline\) const\s*$"),
        Fn("DbLine::getLineNumber", "src/Db/DbLine.cpp", r"^int DbLine::getLineNumber\(\) const\s*$"),
        Fn("DbLine::getLineSampleCount", "src/Db/DbLine.cpp", r"^int DbLine::getLineSampleCount\(int iline\) const\s*$")]
    classes = DB_TABLE_PART + """
struct VectorVectorInt { VectorInt a[2]; int n; VectorVectorInt() : n(0) {} bool empty() const { return n <= 0; } int size() const { return n; }
  void resize(int k) { __CPROVER_assert(0 <= k && k <= 2, "modelled capacity: two lines"); for (int i = n; i < k && i < 2; i++) a[i].n = 0; n = k; }
  VectorInt& operator[](int i) { __CPROVER_assert(0 <= i && i < n, "line index inside the list"); return a[i]; }
  const VectorInt& operator[](int i) const { __CPROVER_assert(0 <= i && i < n, "line index inside the list"); VectorInt* q = (VectorInt*) (a + i); return *q; } };
class DbLine : public Db { public: VectorVectorInt _lineAdds; int _ndimL;
  int getNDim() const { return _ndimL; }
  bool _isLineNumberValid(int iline) const; int getLineNumber() const; int getLineSampleCount(int iline) const;
  bool _serialize(std::ostream& os, bool verbose) const; bool _deserialize(std::istream& is, bool verbose); };
"""
    h = """
void vf_harness()
{
  DbLine a; a._ndimL = nondet_int(); int nl = nondet_int(); __CPROVER_assume(0 <= nl && nl <= 2); a._lineAdds.n = nl;
  for (int k = 0; k < 2; k++) { int ns = nondet_int(); __CPROVER_assume(1 <= ns && ns <= 3); a._lineAdds.a[k].n = ns; for (int i = 0; i < 4; i++) a._lineAdds.a[k].a[i] = nondet_int(); }
  TAPE_RESET(); std::ostream os; std::istream is;
  __CPROVER_assert(a._serialize(os, false), "writing succeeds");
  DbLine b; b._ndimL = a._ndimL;                  /* the space dimension of a reloaded DbLine comes from its table part */
  __CPROVER_assert(b._deserialize(is, false), "what was written can be read back");
  __CPROVER_assert(TAPE_CONSUMED(), "the reader consumes exactly the records written, with the same types");
  __CPROVER_assert(b._lineAdds.n == nl, "the number of lines is restored");
  for (int k = 0; k < 2; k++) if (k < nl && k < b._lineAdds.n) {
    __CPROVER_assert(b._lineAdds.a[k].n == a._lineAdds.a[k].n, "the number of samples of every line is restored");
    for (int i = 0; i < 3; i++) if (i < a._lineAdds.a[k].n && i < b._lineAdds.a[k].n) __CPROVER_assert(b._lineAdds.a[k].a[i] == a._lineAdds.a[k].a[i], "the sample addresses of every line are restored"); }
  VF_REACH();
}
"""
    return tape_unit("DbLine", fns, classes, h,
                     "DbLine (line organisation; the table part is a sentinel record): 0-2 lines of 1-3 samples: line count, sample counts and every sample address are restored",
                     {"fn": "DbLine::_serialize", "rx": r"getLineSampleCount\(iline\)\);", "rp": "getLineSampleCount(0));", "expect": r"assertion"}, bounded="at most 2 lines of 3 samples")



def unit_model(tag, ndmax, nvmax, ncmax, nbmax):
    extra = [(r"_recordRead\(is,\s*\"Flag for Anisotropy\",\s*", "VF_read_int(", "opt"),                 # the one call that leaves <T> to deduction
             (r"_recordRead<String>\s*\(is,\s*\"[^\"]*\",\s*", "VF_read_str(", "opt"), (r"_recordWrite<String>\s*\(os,\s*\"[^\"]*\",\s*", "VF_write_str(", "opt"),
             (r"DriftFactory::createDriftByIdentifier\(", "VF_createDrift(", "opt")]
    fns = pair("Model", "src/Model/Model.cpp", True, extra=extra)
    classes = """
/* strings on the tape: a drift identifier is a ghost tag (DriftFactory::createDriftByIdentifier / ADrift::getDriftName trusted to be inverse of each other) */
struct StringT { int tag; StringT() : tag(0) {} };
#define String StringT
static bool VF_write_str(const StringT& s) { return VF_put((double) s.tag, 3); }
static bool VF_read_str(StringT& s) { double d; if (!VF_get(d, 3)) return false; s.tag = (int) d; return true; }
bool __CPROVER_uninterpreted_hasparam(int);           /* does this covariance type have a third parameter (then scadef depends on it) */
struct ECovV { int v; int getValue() const { return v; } };
struct ECov { static int fromValue(int t) { return t; } static bool existsValue(int t) { return t >= 0 && t < 64; } };
#define NVM 2
class CovContext { public: int _nvar, _ndim; double _field; double _mean[NVM]; double _covar0[NVM][NVM];
  CovContext() : _nvar(0), _ndim(0), _field(0.) {}
  CovContext(int nvar, int ndim) : _nvar(nvar), _ndim(ndim), _field(0.) { for (int i = 0; i < NVM; i++) { _mean[i] = 0.; for (int j = 0; j < NVM; j++) _covar0[i][j] = 0.; } }
  CovContext(const CovContext& o) { *this = o; }
  CovContext& operator=(const CovContext& o) { _nvar = o._nvar; _ndim = o._ndim; _field = o._field; for (int i = 0; i < NVM; i++) { _mean[i] = o._mean[i]; for (int j = 0; j < NVM; j++) _covar0[i][j] = o._covar0[i][j]; } return *this; }
  void setField(double f) { _field = f; } int getSpace() const { return _ndim; }
  double getMean(int i) const { __CPROVER_assert(0 <= i && i < _nvar && i < NVM, "variable rank"); return _mean[i]; }
  double getCovar0(int i, int j) const { __CPROVER_assert(0 <= i && i < _nvar && 0 <= j && j < _nvar && i < NVM && j < NVM, "variable ranks"); return _covar0[i][j]; } };
double __CPROVER_uninterpreted_rmax(double, double);    /* isotropic-equivalent range and coefficients: floating-point, not compared */
double __CPROVER_uninterpreted_coef(double, double);
/* contract of CovAniso as the pair uses it (CovAniso.cpp): setParam installs the third parameter; setRanges / setRangeIsotropic convert ranges into
   scales by dividing by scadef(type, param) and therefore need the parameter ALREADY installed; setAnisoRotation stores a column-major matrix */
class CovAniso { public: int _type, _ndim; double _param; bool _paramSet, _flagAniso, _flagRot; double _rangeIso; VectorDouble _ranges, _rot;
  CovAniso() : _type(0), _ndim(0), _param(1.), _paramSet(false), _flagAniso(false), _flagRot(false), _rangeIso(0.) {}
  CovAniso(int type, const CovContext& c) : _type(type), _ndim(c._ndim), _param(1.), _paramSet(false), _flagAniso(false), _flagRot(false), _rangeIso(0.) {}
  CovAniso(const CovAniso& o) { *this = o; }
  CovAniso& operator=(const CovAniso& o) { _type = o._type; _ndim = o._ndim; _param = o._param; _paramSet = o._paramSet; _flagAniso = o._flagAniso; _flagRot = o._flagRot;
    _rangeIso = o._rangeIso; _ranges = o._ranges; _rot = o._rot; return *this; }
  void setParam(double p) { _param = p; _paramSet = true; }
  void setRanges(const VectorDouble& r) { __CPROVER_assert(_paramSet || !__CPROVER_uninterpreted_hasparam(_type), "ranges are converted to scales (range / scadef(type, parameter)) with the third parameter already installed");
    _ranges = r; _flagAniso = true; }
  void setRangeIsotropic(double r) { __CPROVER_assert(_paramSet || !__CPROVER_uninterpreted_hasparam(_type), "the range is converted to a scale (range / scadef(type, parameter)) with the third parameter already installed");
    _rangeIso = r; _flagAniso = false; }
  void setAnisoRotation(const VectorDouble& rot) { _rot = rot; _flagRot = true; }
  ECovV getType() const { ECovV e; e.v = _type; return e; }
  double getParam() const { return _param; } bool getFlagAniso() const { return _flagAniso; } bool getFlagRotation() const { return _flagRot; }
  double getRange() const { return _flagAniso ? __CPROVER_uninterpreted_rmax(_ranges.a[0], _ranges.a[1]) : _rangeIso; }
  double getAnisoCoeffs(int i) const { return __CPROVER_uninterpreted_coef(_ranges[i], getRange()); }
  double getAnisoRotMat(int i, int j) const { return _rot[j * _ndim + i]; } };
struct ACovAnisoList { CovAniso a[2]; int n; ACovAnisoList() : n(0) {} ACovAnisoList(int space) : n(0) {}
  void addCov(const CovAniso* c) { __CPROVER_assert(n < 2, "modelled capacity: two basic structures"); a[n] = *c; n = n + 1; } };
struct ADrift { int tag; StringT getDriftName() const { StringT s; s.tag = tag; return s; } };
static ADrift* VF_createDrift(const StringT& name) { ADrift* d = new ADrift(); d->tag = name.tag; return d; }
struct DriftList { int tags[2]; int n; DriftList() : n(0) {} DriftList(const CovContext& c) : n(0) {}
  void addDrift(const ADrift* d) { __CPROVER_assert(n < 2, "modelled capacity: two drift functions"); tags[n] = d->tag; n = n + 1; } };
class Model { public: CovContext _ctxt; ACovAnisoList _covs; DriftList _drifts; ADrift _driftObj[2]; double _sill[2][NVM][NVM];
  void _clear() {} void _create() {}
  void setCovList(const ACovAnisoList* l) { _covs.n = l->n; _covs.a[0] = l->a[0]; _covs.a[1] = l->a[1]; }
  void setDriftList(const DriftList* l) { _drifts.n = l->n; _drifts.tags[0] = l->tags[0]; _drifts.tags[1] = l->tags[1]; _driftObj[0].tag = l->tags[0]; _driftObj[1].tag = l->tags[1]; }
  void setMean(double m, int ivar) { __CPROVER_assert(0 <= ivar && ivar < _ctxt._nvar && ivar < NVM, "variable rank"); _ctxt._mean[ivar] = m; }
  void setSill(int icov, int i, int j, double v) { __CPROVER_assert(0 <= icov && icov < _covs.n && 0 <= i && i < _ctxt._nvar && 0 <= j && j < _ctxt._nvar && i < NVM && j < NVM, "structure and variable ranks"); _sill[icov][i][j] = v; }
  void setCovar0(int i, int j, double v) { __CPROVER_assert(0 <= i && i < _ctxt._nvar && 0 <= j && j < _ctxt._nvar && i < NVM && j < NVM, "variable ranks"); _ctxt._covar0[i][j] = v; }
  int getDimensionNumber() const { return _ctxt._ndim; } int getVariableNumber() const { return _ctxt._nvar; } double getField() const { return _ctxt._field; }
  int getCovaNumber() const { return _covs.n; } int getDriftNumber() const { return _drifts.n; }
  const CovAniso* getCova(int i) const { __CPROVER_assert(0 <= i && i < _covs.n, "structure rank"); return (CovAniso*) (_covs.a + i); }
  const ADrift* getDrift(int i) const { __CPROVER_assert(0 <= i && i < _drifts.n, "drift rank"); return (ADrift*) (_driftObj + i); }
  const CovContext& getContext() const { CovContext* q = (CovContext*) &_ctxt; return *q; }
  double getSill(int icov, int i, int j) const { __CPROVER_assert(0 <= icov && icov < _covs.n && 0 <= i && i < _ctxt._nvar && 0 <= j && j < _ctxt._nvar, "structure and variable ranks"); return _sill[icov][i][j]; }
  bool _serialize(std::ostream& os, bool verbose) const; bool _deserialize(std::istream& is, bool verbose); };
"""
    h = """
void vf_harness()
{
  Model a; int nd = nondet_int(), nv = nondet_int(), nc = nondet_int(), nb = nondet_int();
  __CPROVER_assume(1 <= nd && nd <= NDMAX && 1 <= nv && nv <= NVMAX && 0 <= nc && nc <= NCMAX && 0 <= nb && nb <= NBMAX);
  a._ctxt._ndim = nd; a._ctxt._nvar = nv; a._ctxt._field = nondet_double(); a._covs.n = nc; a._drifts.n = nb;
  for (int i = 0; i < 2; i++) { a._ctxt._mean[i] = nondet_double(); a._drifts.tags[i] = nondet_int(); a._driftObj[i].tag = a._drifts.tags[i]; for (int j = 0; j < 2; j++) a._ctxt._covar0[i][j] = nondet_double(); }
  for (int k = 0; k < 2; k++) { CovAniso& c = a._covs.a[k]; c._type = nondet_int(); __CPROVER_assume(ECov::existsValue(c._type)); c._ndim = nd; c._param = nondet_double(); c._paramSet = true; c._flagAniso = nondet_bool(); c._flagRot = c._flagAniso && nondet_bool();
    c._rangeIso = nondet_double(); c._ranges.n = nd; c._rot.n = nd * nd; for (int i = 0; i < VCAP; i++) { c._ranges.a[i] = nondet_double(); c._rot.a[i] = nondet_double(); }
    for (int i = 0; i < 2; i++) for (int j = 0; j < 2; j++) a._sill[k][i][j] = nondet_double(); }
  TAPE_RESET(); std::ostream os; std::istream is;
  __CPROVER_assert(a._serialize(os, false), "writing succeeds");
  Model b;
  __CPROVER_assert(b._deserialize(is, false), "what was written can be read back");
  __CPROVER_assert(TAPE_CONSUMED(), "the reader consumes exactly the records written, with the same types");
  __CPROVER_assert(b._ctxt._ndim == nd && b._ctxt._nvar == nv && SAME(b._ctxt._field, a._ctxt._field) && b._covs.n == nc && b._drifts.n == nb, "dimension, variable count, field, structure and drift counts are restored");
  for (int k = 0; k < 2; k++) if (k < nc && k < b._covs.n) { const CovAniso& c = a._covs.a[k]; const CovAniso& d = b._covs.a[k];
    __CPROVER_assert(d._type == c._type && SAME(d._param, c._param), "type and third parameter of every basic structure are restored");
    __CPROVER_assert(d._flagAniso == c._flagAniso && d._flagRot == c._flagRot, "anisotropy and rotation flags are restored");
    if (c._flagRot && d._flagRot) for (int i = 0; i < VCAP; i++) if (i < nd * nd && d._rot.n == nd * nd) __CPROVER_assert(SAME(d._rot.a[i], c._rot.a[i]), "every entry of the rotation matrix returns to its own row and column");
    if (!c._flagAniso) __CPROVER_assert(SAME(d._rangeIso, c._rangeIso), "the isotropic range is restored");
    for (int i = 0; i < 2; i++) for (int j = 0; j < 2; j++) if (i < nv && j < nv) __CPROVER_assert(SAME(b._sill[k][i][j], a._sill[k][i][j]), "every sill returns to its own structure and variable pair"); }
  for (int i = 0; i < 2; i++) if (i < nb && i < b._drifts.n) __CPROVER_assert(b._drifts.tags[i] == a._drifts.tags[i], "the drift functions are restored in order");
  if (nb == 0) for (int i = 0; i < 2; i++) if (i < nv) __CPROVER_assert(SAME(b._ctxt._mean[i], a._ctxt._mean[i]), "without drift the means are restored");
  for (int i = 0; i < 2; i++) for (int j = 0; j < 2; j++) if (i < nv && j < nv) __CPROVER_assert(SAME(b._ctxt._covar0[i][j], a._ctxt._covar0[i][j]), "the variance-covariance at the origin is restored");
  VF_REACH();
}
"""
    return tape_unit("Model." + tag, fns, classes, h,
                     ("Model: 1-%d dimensions, 1-%d variables, 0-%d basic structures (any type / parameter / anisotropy / rotation), 0-%d drift functions: the record sequence " % (ndmax, nvmax, ncmax, nbmax)) +
                     "pairs, counts, field, every structure's type, third parameter, flags, rotation matrix entries (row/column), isotropic range, sills, drift "
                     "functions, means and covariance at the origin are restored, and the third parameter is installed BEFORE the ranges are converted to scales. "
                     "Anisotropic ranges (coefficient x range, floating point) are not compared",
                     {"fn": "Model::_serialize", "rx": r"cova->getParam\(\)", "rp": "cova->getRange()", "expect": r"assertion"},
                     bounded="at most %d dimensions, %d variables, %d structures, %d drift functions" % (ndmax, nvmax, ncmax, nbmax), unwind=max(ndmax * ndmax, 2) + 2, timeout=1200,
                     defines="#define TAPE_MAX %d\n#define VCAP %d\n#define NDMAX %d\n#define NVMAX %d\n#define NCMAX %d\n#define NBMAX %d\n" % (
                         8 + ncmax * (6 + ndmax + ndmax * ndmax) + nbmax + nvmax + ncmax * nvmax * nvmax + nvmax * nvmax, max(ndmax * ndmax, 2), ndmax, nvmax, ncmax, nbmax))


def zycor_null_value():
    """static fact re-derived on every run: the number spelled by the token the writer puts for an undefined cell"""
    import os, re
    from tools.vf import REPO, Undecided
    src = open(os.path.join(REPO, "src/OutputFormat/GridZycor.cpp"), encoding="utf-8", errors="replace").read()
    m = re.search(r'#define ZYCOR_NULL_CH\s+"([^"]*)"', src)
    if not m:
        raise Undecided("ZYCOR_NULL_CH not found in GridZycor.cpp")
    return repr(float(m.group(1)))


def unit_zycor(NX=2):
    """grid exchange format written and read by the library: Zycor.  Writer and reader (real text) chained on typed ghost tapes"""
    from tools.vf import Fn, Unit
    ZF = "src/OutputFormat/GridZycor.cpp"
    pre = """
typedef _Bool bool;
#define true 1
#define false 0
#define NXM %d
#define NCELL (NXM * NXM)
#define TEST 1.234e30
#define TEST_COMP 1.000e30
#define FFFF(x) ((x) != (x) || (x) > TEST_COMP)
#define SAMED(x, y) ((x) == (y) || ((x) != (x) && (y) != (y)))
#define VF_NULL_TOKEN_VALUE %s        /* value spelled by ZYCOR_NULL_CH in the source of this run */
#define messerr(...) ((void)0)
/* typed tapes standing for the file */
double TD[16 + NCELL]; int td_w, td_r; int TI[8]; int ti_w, ti_r; int ts_r; int g_tape_bad;
static void VF_w_int(int v) { if (ti_w >= 8) { g_tape_bad = 1; return; } TI[ti_w] = v; ti_w = ti_w + 1; }
static void VF_w_double(double v) { if (td_w >= 16 + NCELL) { g_tape_bad = 1; return; } TD[td_w] = v; td_w = td_w + 1; }
static int VF_r_int(int* v) { if (ti_r >= ti_w) return 1; *v = TI[ti_r]; ti_r = ti_r + 1; return 0; }
static int VF_r_double(double* v) { if (td_r >= td_w) return 1; *v = TD[td_r]; td_r = td_r + 1; return 0; }
static int VF_r_str(char* s) { const char* seq[4] = { "@", "GRID", "", "@" }; if (ts_r >= 4) return 1; int k = 0; while (seq[ts_r][k]) { s[k] = seq[ts_r][k]; k++; } s[k] = 0; ts_r = ts_r + 1; return 0; }
static int strcmp(const char* a, const char* b) { int k = 0; while (a[k] && a[k] == b[k]) k++; return (int) a[k] - (int) b[k]; }
static int _fileWriteOpen(void) { return 0; } static int _fileReadOpen(void) { return 0; } static void _fileClose(void) {}
static int VF_getNX(int i) { return W_nx[i]; } static double VF_getX0(int i) { return W_x0[i]; } static double VF_getDX(int i) { return W_dx[i]; }
static double VF_getArray(int ii) { __CPROVER_assert(0 <= ii && ii < W_nx[0] * W_nx[1], "writer: cell rank inside the grid"); return W_val[ii]; }
int R_nx[2]; double R_tab[NCELL]; int R_done;
static void VF_reset(const int* nx, const double* tab) { R_nx[0] = nx[0]; R_nx[1] = nx[1]; for (int k = 0; k < NCELL; k++) R_tab[k] = tab[k]; R_done = 1; }
""" % (NX, zycor_null_value())
    w = Fn("GridZycor::writeInFile", ZF, r"^int GridZycor::writeInFile\(\)\s*$", csig="int GridZycor_writeInFile(void)",
           rewrites=[(r'fprintf\(_file, "!\\n"\);', ";", 2), (r'fprintf\(_file, "!  File created by gstlearn package\\n"\);', ";", 1),
                     (r'fprintf\(_file, "@GRID ZYCOR FILE    ,   GRID,  %d\\n", nbyline\);', "VF_w_int(nbyline);", 1),
                     (r'fprintf\(_file, "     15, %13lg,    ,    0,     1\\n", testval\);', "VF_w_int(15); VF_w_double(testval); VF_w_int(0); VF_w_int(1);", 1),
                     (r'(?s)fprintf\(_file, "%6d, %6d, %13lf, %13lf, %13lf, %13lf\\n", nx\[1\], nx\[0\], x0\[0\],\s*xf\[0\], x0\[1\], xf\[1\]\);',
                      "VF_w_int(nx[1]); VF_w_int(nx[0]); VF_w_double(x0[0]); VF_w_double(xf[0]); VF_w_double(x0[1]); VF_w_double(xf[1]);", 1),
                     (r'fprintf\(_file, " %15lf, %15lf, %15lf\\n", rbid, rbid, rbid\);', "VF_w_double(rbid); VF_w_double(rbid); VF_w_double(rbid);", 1),
                     (r'fprintf\(_file, "@\\n"\);', ";", 1),
                     (r"_dbgrid->getNX\(i\)", "VF_getNX(i)", 1), (r"_dbgrid->getX0\(i\)", "VF_getX0(i)", 1), (r"_dbgrid->getDX\(i\)", "VF_getDX(i)", 1),
                     (r"_dbgrid->getArray\(ii, _cols\[0\]\)", "VF_getArray(ii)", 1),
                     # one value of a line: its decimal spelling, or the fixed token of an undefined cell
                     (r'gslSPrintf\(&card\[ind\], "%15g", buff\[yy\]\);', "VF_w_double(buff[yy]);", 2),
                     (r"memcpy\(&card\[ind\], \(char\*\) ZYCOR_NULL_CH, 15\);", "VF_w_double(VF_NULL_TOKEN_VALUE);", 2),
                     (r'gslSPrintf\(&card\[15 \* (nbyline|kk)\], "\\n"\);', ";", 2), (r'fprintf\(_file, "%s", card\);', ";", 2)])
    r = Fn("GridZycor::readGridFromFile", ZF, r"^DbGrid\*\s+GridZycor::readGridFromFile\(\)\s*$", csig="int GridZycor_readGridFromFile(void)",
           rewrites=[(r"DbGrid\* dbgrid = nullptr;", "int dbgrid = 0;", 1), (r"VectorInt nx\(2\);", "int nx[2];", 1), (r"VectorDouble dx\(2\);", "double dx[2];", 1), (r"VectorDouble x0\(2\);", "double x0[2];", 1),
                     (r"_file_delimitors\([^;]*\);", ";", 2),
                     (r'_record_read\(_file, "%s", string\)', "VF_r_str(string)", 4),
                     (r'_record_read\(_file, "%d", &(\w+(\[\d\])?)\)', r"VF_r_int(&\1)", 6),
                     (r'_record_read\(_file, "%l[gf]", &(\w+(\[\d\])?)\)', r"VF_r_double(&\1)", 9),
                     (r"VectorDouble tab\(size\);", 'double tab[NCELL]; __CPROVER_assert(0 <= size && size <= NCELL, "reader: modelled grid capacity");', 1),
                     (r"tab\[\(nx\[1\] - iy - 1\) \* nx\[0\] \+ ix\] = value;",
                      '{ int vf_k = (nx[1] - iy - 1) * nx[0] + ix; __CPROVER_assert(0 <= vf_k && vf_k < size, "reader: cell rank inside the grid"); tab[vf_k] = value; }', 1),
                     (r"dbgrid = new DbGrid\(\);", "dbgrid = 1;", 1), (r"dbgrid->reset\(nx,dx,x0,VectorDouble\(\),ELoadBy::SAMPLE,tab\);", "VF_reset(nx, tab);", 1)])
    h = """
void vf_harness(void)
{
  vf_havoc_inputs();
  __CPROVER_assume(1 <= W_nx[0] && W_nx[0] <= NXM && 1 <= W_nx[1] && W_nx[1] <= NXM);
  for (int k = 0; k < NCELL; k++) __CPROVER_assume(FFFF(W_val[k]) ? W_val[k] == TEST : (W_val[k] > -1.e20 && W_val[k] < 1.e20));   /* a cell is undefined (TEST) or an ordinary value */
  td_w = 0; td_r = 0; ti_w = 0; ti_r = 0; ts_r = 0; g_tape_bad = 0; R_done = 0;
  int rcw = GridZycor_writeInFile();
  __CPROVER_assert(rcw == 0 && !g_tape_bad, "the writer succeeds");
  int g = GridZycor_readGridFromFile();
  __CPROVER_assert(g != 0 && R_done, "the reader accepts the file the writer produced");
  __CPROVER_assert(R_nx[0] == W_nx[0] && R_nx[1] == W_nx[1], "same numbers of nodes");
  for (int k = 0; k < NCELL; k++) if (k < W_nx[0] * W_nx[1])
    __CPROVER_assert(SAMED(R_tab[k], W_val[k]), "every cell comes back with its value, an undefined cell comes back undefined");
  VF_REACH();
}
"""
    return Unit("C08.GridZycor.roundtrip", [w, r], prelude=pre, harness=h, pre_inputs="", unwind=NX * NX + 3, checks=["--bounds-check", "--pointer-check"],
                backends=("minisat", "cadical"), timeout=900,
                inputs=[("int", "W_nx", "2"), ("double", "W_x0", "2"), ("double", "W_dx", "2"), ("double", "W_val", str(NX * NX))],
                bounded="grids up to %dx%d; unwind %d with unwinding assertions" % (NX, NX, NX * NX + 3),
                claim=("GridZycor::writeInFile followed by GridZycor::readGridFromFile (real text of both, chained on typed ghost tapes standing for the file): the reader accepts "
                       "what the writer produced, finds the same numbers of nodes, and every cell comes back with its value in its place — an undefined cell comes back undefined "
                       "(the null value announced in the header is the number spelled by the token written for undefined cells, %s, re-read from the source on this run)" % zycor_null_value()),
                assumptions=["decimal formatting / parsing of a number is the identity (text layer not modelled); mesh and origin (written with 6 decimals) not compared",
                             "record reader = typed tapes: ints, doubles and the four keyword strings in the order of the calls"],
                canaries=[{"fn": "GridZycor::readGridFromFile", "rx": r"if \(value == test\) value = TEST;", "rp": ";", "expect": r"assertion"}])


def units(tier):
    return ([unit_model("one_structure", 2, 2, 1, 1), unit_model("rotation", 2, 1, 1, 0)] if tier != "quick" else []) + [unit_model("two_structures", 1, 1, 2, 2), unit_dbgrid(), unit_dbline(), unit_fracenviron(), unit_neighmoving(), unit_neighbench(), unit_neighimage(), unit_neighcell(), unit_polygons(), unit_faults(), unit_table(), unit_anamhermite(), unit_zycor(2 if tier == 'quick' else 3)]


META = {
    "level": "other",
    "explanation": ("Bounded pairing proofs of _serialize/_deserialize on a ghost tape of typed records for nine class families; text formatting and the "
                    "remaining classes are not covered."),
    "trusted_base": ["CBMC 6.11 C++ front end", "stub class declarations mirroring the headers (members, trivial accessors)", "ghost tape of typed records (stubs/tape_stub.hpp)",
                     "contract stubs: BiTargetCheckDistance/Bench, CovAniso (typestate: parameter before ranges), gridDefine, Db table part as a sentinel record"],
    "assumptions": [],
    "not_covered": ["Db / DbGraphO / DbMesh table parts, Vario (bench, cylinder radius, breaks, dates not written; undefined lags written as 0; calculation type stored since fix f32775000, demonstration only), "
                    "meshes, rules, discrete / empirical anamorphoses", "text formatting (15 digits, NA token, comments, line structure)", "grid exchange formats other than Zycor",
                    "anisotropic ranges of a Model (coefficient x range in floating point)",
                    "re-writing the reloaded object gives the same file (follows from equality of the defining members for the covered classes only)"],
}
MANIFEST = {
    "category": "other",
    "text": ("Partial, bounded: _serialize/_deserialize pairing on a ghost tape of typed records for NeighMoving/Bench/Image/Cell, Polygons, Faults, Table, AnamHermite, "
             "FracEnviron, DbGrid header, DbLine organisation and Model (all option combinations, small sizes): same record sequence both ways, every defining member restored; Zycor grid exchange format: writer and reader chained, values and undefined cells restored (bounded)."),
    "note": "Text formatting and the other classes N/A; sizes bounded (stated per unit).",
    "design_ref": "DESIGN.md 3 C08",
}
