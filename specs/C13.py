"""C13 — simulations reproducible from their seed: contracts on the process-wide generator (src/Basic/Law.cpp) and on the interval
bookkeeping of bounded Gaussian draws."""
from tools.vf import Fn, Unit

LAW = "src/Basic/Law.cpp"
PRE = """
typedef _Bool bool;
#define true 1
#define false 0
static int Random_factor     = 105;
static int Random_congruent  = 20000159;
static int Random_value      = 43241421;
static bool Random_Old_Style = true;
double floor(double);
"""
# the new-style branch uses std::mt19937 / <random>: outside the verifier's reach, the old style (default) is under contract
NEWSTYLE_SEED = (r"if \(! Random_Old_Style\)\s*\n\s*Random_gen\.seed\(\(unsigned\) seed\);", "if (! Random_Old_Style) { __CPROVER_assert(0, \"new-style generator not under contract\"); }", 1)
NEWSTYLE_UNIF = (r"(?s)std::uniform_real_distribution<double> d\{mini,maxi\};\s*\n\s*value = d\(Random_gen\);", "__CPROVER_assert(0, \"new-style generator not under contract\");", 1)
NEXT = "((int)(((unsigned int)(Random_factor * (S))) % (unsigned int)Random_congruent))"   # with S the state before the draw


def unit_seed():
    f = Fn("law_set_random_seed", LAW, r"^void law_set_random_seed\(int seed\)\s*$",
           rewrites=[(r"Random_gen\.seed\(\(unsigned\) seed\);", "VF_gen_seed((unsigned) seed);", 1)],
           contract="\n".join(["__CPROVER_assigns(Random_value, g_gen_seed, g_gen_nseed)",
                               "__CPROVER_ensures(Random_value == (seed > 0 ? seed : __CPROVER_old(Random_value)))",
                               # new-style generator (std::mt19937, a ghost here): a positive seed always (re)seeds it, whatever was requested before
                               "__CPROVER_ensures((seed > 0 && !Random_Old_Style) ==> (g_gen_seed == (unsigned) seed && g_gen_nseed == __CPROVER_old(g_gen_nseed) + 1))",
                               "__CPROVER_ensures((seed <= 0 || Random_Old_Style) ==> g_gen_nseed == __CPROVER_old(g_gen_nseed))"]))
    g = Fn("law_get_random_seed", LAW, r"^int law_get_random_seed\(void\)\s*$")
    h = """
void vf_harness(void)
{
  vf_havoc_inputs();
  Random_value = W_state; Random_Old_Style = W_old ? 1 : 0;
  law_set_random_seed(W_seed);
  __CPROVER_assert(law_get_random_seed() == (W_seed > 0 ? W_seed : W_state), "the seed read back is the seed given (non-positive seeds leave the generator unchanged, as documented)");
  VF_REACH();
}
"""
    pre = PRE + "unsigned g_gen_seed, g_gen_nseed;\nstatic void VF_gen_seed(unsigned s) { g_gen_seed = s; g_gen_nseed = g_gen_nseed + 1; }\n"
    return Unit("C13.law_set_random_seed", [g, f], prelude=pre, harness=h, inputs=[("int", "W_state"), ("int", "W_seed"), ("int", "W_old")], enforce="law_set_random_seed",
                claim=("law_set_random_seed: a positive seed becomes the generator state (old style) and always re-seeds the std::mt19937 generator (new style, a ghost recording the "
                       "seeding), a non-positive one leaves everything unchanged; nothing else is written"),
                assumptions=["std::mt19937 is a ghost: only the fact and the value of its seeding are tracked"],
                canaries=[{"fn": "law_set_random_seed", "rx": r"Random_value = seed;", "rp": "Random_value = seed + 1;", "expect": r"postcondition|assertion"}])


def unit_uniform():
    contract = "\n".join([
        "__CPROVER_requires(Random_Old_Style && 1 <= Random_value && Random_factor == 105 && Random_congruent == 20000159)",
        "__CPROVER_requires(mini == mini && maxi == maxi)",
        "__CPROVER_assigns(Random_value)",                      # frame: the only hidden state touched is the generator state
        "__CPROVER_ensures(0 <= Random_value && Random_value < 20000159)",
    ])
    allowed = ["double", "value", "if", "Random_Old_Style", "unsigned", "int", "random_product", "Random_factor", "Random_value", "Random_congruent",
               "mini", "maxi", "else", "return", "__CPROVER_assert", "new", "style", "generator", "not", "under", "contract"]
    reads_only = (r"\\b(?!(?:%s)\\b)[A-Za-z_]\\w*\\b" % "|".join(allowed), "VF_UNEXPECTED_IDENTIFIER", 0)
    f = Fn("law_uniform", LAW, r"^double law_uniform\(double mini, double maxi\)\s*$", contract=contract, rewrites=[NEWSTYLE_UNIF, reads_only])
    h = """
void vf_harness(void)
{
  vf_havoc_inputs();
  Random_value = W_state;
  law_uniform(W_mini, W_maxi);
  VF_REACH();
}
"""
    return Unit("C13.law_uniform.frame", [f], prelude=PRE, harness=h, inputs=[("int", "W_state"), ("double", "W_mini"), ("double", "W_maxi")],
                enforce="law_uniform", backends=("minisat", "cadical"), timeout=300,
                checks=["--bounds-check", "--pointer-check", "--div-by-zero-check"],
                claim=("law_uniform (old style) writes no hidden state other than the generator state and leaves it in [0, 20000159); lexically "
                       "(must-fire-zero rule, re-checked each run) its body names nothing but its arguments, its locals and the four generator statics and "
                       "calls no function: the draw and the new state are therefore functions of (state, arguments) only, i.e. a run is reproducible "
                       "from its seed whatever was called before"),
                assumptions=["the int product Random_factor * Random_value is evaluated with two's-complement wrap-around (what gcc/clang do); for states "
                             "above 20452225 — e.g. the initial state 43241421 or a large seed — this signed multiplication formally overflows (undefined "
                             "behaviour in C++): the signed-overflow check is switched off for this unit and the fact is reported in DESIGN.md"],
                canaries=[{"fn": "law_uniform", "rx": r"Random_value = random_product % Random_congruent;", "rp": "Random_value = random_product % Random_congruent; Random_factor = 106;",
                           "expect": r"assigns"}])


def unit_uniform_reproducible():
    """history independence of the draws: after re-seeding, the draw and the new state are the same whatever was called in between"""
    f = Fn("law_uniform", LAW, r"^double law_uniform\(double mini, double maxi\)\s*$", rewrites=[NEWSTYLE_UNIF])
    s = Fn("law_set_random_seed", LAW, r"^void law_set_random_seed\(int seed\)\s*$", rewrites=[NEWSTYLE_SEED])
    h = """
void vf_harness(void)
{
  vf_havoc_inputs();
  __CPROVER_assume(W_seed > 0 && W_mini == W_mini && W_maxi == W_maxi);
  __CPROVER_assume(Random_Old_Style && Random_factor == 105 && Random_congruent == 20000159);
  /* first process: seed, draw twice */
  law_set_random_seed(W_seed);
  double a1 = law_uniform(W_mini, W_maxi);
  double a2 = a1;
  int s1 = Random_value;
  /* arbitrary history: other seeds, other draws */
  law_set_random_seed(W_other_seed);
  law_uniform(W_c, W_d);
  if (W_more) law_uniform(W_d, W_c);
  /* same seed again */
  law_set_random_seed(W_seed);
  double b1 = law_uniform(W_mini, W_maxi);
  double b2 = b1;
  __CPROVER_assert((a1 == b1 || (a1 != a1 && b1 != b1)) && (a2 == b2 || (a2 != a2 && b2 != b2)), "same seed, same arguments => bit-identical draws, whatever was called before");
  __CPROVER_assert(s1 == Random_value, "same seed => same generator state after the same draws");
  VF_REACH();
}
"""
    return Unit("C13.law_uniform.reproducible", [s, f], prelude=PRE, harness=h,
                inputs=[("int", "W_seed"), ("int", "W_other_seed"), ("double", "W_mini"), ("double", "W_maxi"), ("double", "W_c"), ("double", "W_d"), ("bool", "W_more")],
                pre_inputs="typedef _Bool bool;\n", checks=["--bounds-check", "--div-by-zero-check"], backends=("minisat", "cadical", "cvc5"), timeout=300,
                claim=("seeding with the same positive seed and drawing with the same arguments gives bit-identical values and the same final state, after "
                       "an arbitrary history of other seeds and draws (two-run lemma over the real law_set_random_seed / law_uniform bodies, loop-free)"),
                assumptions=["old-style generator; two's-complement wrap of the int product"],
                canaries=[{"fn": "law_set_random_seed", "rx": r"Random_value = seed;", "rp": "Random_value = Random_value + seed;", "expect": r"assertion"}])


def unit_int_uniform():
    uni = Fn("law_uniform", LAW, r"^double law_uniform\(double mini, double maxi\)\s*$", rewrites=[NEWSTYLE_UNIF],
             contract="\n".join(["__CPROVER_requires(Random_Old_Style && 1 <= Random_value && Random_factor == 105 && Random_congruent == 20000159)", "__CPROVER_requires(mini == 0.0 && 1.0 <= maxi && maxi <= 2147483648.0)",
                                 "__CPROVER_assigns(Random_value)",
                                 "__CPROVER_ensures(0 <= Random_value && Random_value < 20000159)",
                                 "__CPROVER_ensures(__CPROVER_return_value == ((double)Random_value / (double)20000159) * maxi)"]))
    f = Fn("law_int_uniform", LAW, r"^int law_int_uniform\(int mini, int maxi\)\s*$",
           contract="\n".join(["__CPROVER_requires(Random_Old_Style && 1 <= Random_value && Random_factor == 105 && Random_congruent == 20000159 && mini <= maxi && (long)maxi - (long)mini < 1000L)",
                               "__CPROVER_assigns(Random_value)",
                               "__CPROVER_ensures(mini <= __CPROVER_return_value && __CPROVER_return_value <= maxi)"]))
    h = """
void vf_harness(void)
{
  vf_havoc_inputs();
  Random_value = W_state;
  law_int_uniform(W_mini, W_maxi);
  VF_REACH();
}
"""
    return Unit("C13.law_int_uniform", [uni, f], prelude=PRE, harness=h, inputs=[("int", "W_state"), ("int", "W_mini"), ("int", "W_maxi")],
                enforce="law_int_uniform", replace=["law_uniform"], backends=("cvc5", "minisat", "cadical"), timeout=200,
                bounded="maxi - mini < 1000 (floating-point product/floor over the full int range did not finish on any back end)",
                claim="law_int_uniform(mini, maxi) returns an integer in [mini, maxi] (callee law_uniform through its contract: value = state'/20000159 * n with state' < 20000159)",
                assumptions=["law_uniform enters through the value part of its contract (proved in C13.law_uniform)"],
                canaries=[{"fn": "law_int_uniform", "rx": r"number = maxi - mini \+ 1;", "rp": "number = maxi - mini + 2;", "expect": r"postcondition|precondition"}])


def unit_degenerate_seed():
    """search: is there a positive seed after which the generator is stuck at 0 (every later draw returns 'mini')?"""
    f = Fn("law_uniform", LAW, r"^double law_uniform\(double mini, double maxi\)\s*$", rewrites=[NEWSTYLE_UNIF])
    s = Fn("law_set_random_seed", LAW, r"^void law_set_random_seed\(int seed\)\s*$", rewrites=[NEWSTYLE_SEED])
    h = """
void vf_harness(void)
{
  vf_havoc_inputs();
  __CPROVER_assume(W_seed > 0);
  law_set_random_seed(W_seed);
  law_uniform(0., 1.);
  __CPROVER_assert(Random_value != 0, "no positive seed drives the generator into the absorbing state 0");
  VF_REACH();
}
"""
    native = r"""
static void vf_native(void)
{
  if (W_seed <= 0) exit(77);
  law_set_random_seed(W_seed);
  double a = law_uniform(0., 1.), b = law_uniform(0., 1.), c = law_uniform(0., 1.);
  printf("seed %d: draws %g %g %g, state %d\n", W_seed, a, b, c, Random_value);
  __CPROVER_assert(!(a == 0. && b == 0. && c == 0.), "generator stuck: every draw returns the lower bound");
}
"""
    return Unit("C13.law_uniform.degenerate_seed", [s, f], prelude=PRE, harness=h, inputs=[("int", "W_seed")], native=native, native_ubsan=False,
                checks=["--bounds-check", "--div-by-zero-check"],
                claim="for every positive seed the first draw does not leave the generator in state 0 (from which every later draw would return the lower bound)",
                assumptions=["two's-complement wrap of the int product (see C13.law_uniform)"])


def unit_gibbs_draw(cls):
    """Gaussian values drawn under interval constraints lie within their bounds: the draw step of the Gibbs samplers uses the truncated sampler, with the
    standardised bounds of the sample, whenever a bound is defined"""
    mono = cls == "GibbsMultiMono"
    pre = """
typedef _Bool bool;
#define true 1
#define false 0
#define TEST 1.234e30
#define TEST_COMP 1.000e30
#define THRESH_INF -10
#define THRESH_SUP 10
#define FFFF(x) ((x) != (x) || (x) > TEST_COMP)
#define DECLARE_UNUSED(x) (void)(x)
#define SAMED(x, y) ((x) == (y) || ((x) != (x) && (y) != (y)))
double __CPROVER_uninterpreted_sqrt(double);
static double sqrt(double x) { return __CPROVER_uninterpreted_sqrt(x); }
bool _flagDecay; int _nburn;
int g_plain, g_trunc; double g_a, g_b;
static double law_gaussian(void) { g_plain++; return W_plain; }
static double law_gaussian_between_bounds(double a, double b) { g_trunc++; g_a = a; g_b = b; return W_draw; }
static int getSampleRank(int iact) { return iact; }
static int getRank(int ipgs, int ivar) { return 0; }
static double getRho(void) { return W_rho; }
"""
    decay = Fn("AGibbs::_getBoundsDecay", "src/Gibbs/AGibbs.cpp", r"^void AGibbs::_getBoundsDecay\(int iter, double \*vmin, double \*vmax\) const\s*$",
               csig="void _getBoundsDecay(int iter, double *vmin, double *vmax)")
    rw = [(r"const Db\* db = getDb\(\);", ";", 1), (r"db->getLocVariable\(ELoc::L,iech, icase\)", "W_lo", 1), (r"db->getLocVariable\(ELoc::U,iech, icase\)", "W_up", 1)]
    if mono:
        rw.append((r"y\[icase0\]\[iact\]", "W_y1", 1))
    f = Fn("%s::getSimulate" % cls, "src/Gibbs/%s.cpp" % cls, r"^double %s::getSimulate\(VectorVectorDouble& (/\*y\*/|y),[^{]*?int iter\)\s*$" % cls,
           csig="double getSimulate(double yk, double sk, int icase, int ipgs, int ivar, int iact, int iter)", rewrites=rw)
    h = """
void vf_harness(void)
{
  vf_havoc_inputs();
  _flagDecay = W_decay ? 1 : 0; _nburn = W_nburn; g_plain = 0; g_trunc = 0;
  __CPROVER_assume(W_sk > 0. && W_nburn > 0 && W_iter >= 0);
  double v = getSimulate(W_yk, W_sk, 0, 0, W_ivar, 0, W_iter);
  /* the bounds in force at this iteration (real _getBoundsDecay) and the Gaussian variable they constrain */
  double lo = W_lo, up = W_up; _getBoundsDecay(W_iter, &lo, &up);
  double m = W_yk, sd = W_sk;
  %s
  /* the encoding of 'undefined' by a large value: a defined bound stays a defined value once standardised (excludes conditional st. dev. below ~1e-30 of the bound) */
  if (!FFFF(lo)) __CPROVER_assume(!FFFF((lo - m) / sd));
  if (!FFFF(up)) __CPROVER_assume(!FFFF((up - m) / sd));
  if (FFFF(lo) && FFFF(up))
    __CPROVER_assert(g_plain == 1 && g_trunc == 0 && SAMED(v, W_yk + W_sk * W_plain), "no bound defined: one plain Gaussian draw");
  else
  {
    __CPROVER_assert(g_trunc == 1 && g_plain == 0, "a sample with a defined bound is always drawn with the truncated sampler");
    __CPROVER_assert(FFFF(lo) ? FFFF(g_a) : SAMED(g_a, (lo - m) / sd), "the truncated sampler receives the standardised lower bound of the sample (undefined if there is none)");
    __CPROVER_assert(FFFF(up) ? FFFF(g_b) : SAMED(g_b, (up - m) / sd), "the truncated sampler receives the standardised upper bound of the sample (undefined if there is none)");
    __CPROVER_assert(SAMED(v, W_yk + W_sk * W_draw), "the value is the conditional mean plus the truncated draw scaled by the conditional standard deviation");
  }
  VF_REACH();
}
""" % ("if (W_ivar > 0) { double sqr = sqrt(1. - W_rho * W_rho); m = W_yk * sqr + W_rho * W_y1; sd = W_sk * sqr; }" if mono else "")
    return Unit("C13.%s.getSimulate" % cls, [decay, f], prelude=pre, harness=h, pre_inputs="typedef _Bool bool;\n", unwind=2, checks=[], backends=("cvc5", "minisat"), timeout=600,
                inputs=[("double", "W_yk"), ("double", "W_sk"), ("double", "W_lo"), ("double", "W_up"), ("double", "W_plain"), ("double", "W_draw"), ("double", "W_rho"), ("double", "W_y1"),
                        ("bool", "W_decay"), ("int", "W_nburn"), ("int", "W_iter"), ("int", "W_ivar")],
                claim=("%s::getSimulate (draw step of the Gibbs samplers; real text with the real AGibbs::_getBoundsDecay): whenever the sample has a lower or an upper bound in force, "
                       "the value comes from the truncated sampler called with exactly the standardised bounds, never from the unconstrained generator; without bounds, one plain draw" % cls),
                assumptions=["law_gaussian / law_gaussian_between_bounds are ghosts recording their arguments (the range of the truncated sampler itself is not under contract: transcendental rejection sampling)",
                             "floating-point equalities of identical terms; sqrt uninterpreted", "a defined bound remains a defined value (< 1e30) after standardisation", "exact inclusion of yk + sk * t in [lower, upper] up to rounding is not claimed"],
                canaries=[{"fn": "%s::getSimulate" % cls, "rx": r"if \(FFFF\(vmin\) && FFFF\(vmax\)\)", "rp": "if (FFFF(vmin) || FFFF(vmax))", "expect": r"assertion"}])


def unit_data_to_target(NP=2, NDM=1, grid=False):
    """conditional simulations reproduce each datum exactly at a target coinciding with it — and only there: the final data-to-target
    assignment of the turning bands (CalcSimuTurningBands::_updateData2ToTarget), point-target branch"""
    pre = """
typedef _Bool bool;
#define true 1
#define false 0
#define NP %d
#define NDM %d
#define TEST 1.234e30
#define TEST_COMP 1.000e30
#define EPSILON6 1.e-6
#define FFFF(x) ((x) != (x) || (x) > TEST_COMP)
#define ELOC_GAUSFAC 11
#define ELOC_SIMU 12
#define VF_GRID %d
int nondet_int(void);
int g_oob, g_nset[NP]; double g_val[NP];
static int _getNVar(void) { return 1; }
static int getNbSimu(void) { return 1; }
/* Db handles: 1 = dbin (W_nin samples), 2 = dbout (W_nout samples); every access is checked against the sample count of ITS data base */
static void VF_getSampleCoordinatesInPlace(int db, int i, double* c);
static int VF_getSampleNumber(int db) { return db == 1 ? W_nin : W_nout; }
static int VF_getNDim(int db) { return W_ndim; }
static double VF_getExtensionDiagonal(int db) { return 1.; }
static const bool* VF_getActiveArray(int db) { return db == 1 ? W_actin : W_actout; }
static bool VF_isGrid(int db) { return VF_GRID; }
static void VF_getSampleCoordinatesInPlace(int db, int i, double* c)
{
  if (i < 0 || i >= VF_getSampleNumber(db)) { g_oob = 1; return; }
  for (int d = 0; d < NDM; d++) c[d] = ((db == 1) ? W_cin[i * NDM + d] : W_cout[i * NDM + d]) ? 1. : 0.;
}
/* DbGrid::coordinateToRank / rankToCoordinatesInPlace on the ghost target grid: the node lying at these coordinates (or -1), the coordinates of a node */
static int VF_coordinateToRank(int db, const double* c, bool centered, double eps)
{
  for (int k = 0; k < NP; k++) if (k < W_nout) { bool same = 1; for (int d = 0; d < NDM; d++) if (d < W_ndim && c[d] != (W_cout[k * NDM + d] ? 1. : 0.)) same = 0; if (same) return k; }
  return -1;
}
static void VF_rankToCoordinatesInPlace(int db, int rank, double* c) { VF_getSampleCoordinatesInPlace(2, rank, c); }
static double VF_getZVariable(int db, int i, int ivar) { if (db != 1 || i < 0 || i >= W_nin) { g_oob = 1; return 0.; } return W_z[i]; }
static double VF_getSimvar(int db, int loc, int i, int isimu, int ivar, int icase, int nbsimu, int nvar) { return VF_getZVariable(db, i, 0); }
static void VF_setSimvar(int db, int loc, int i, int isimu, int ivar, int icase, int nbsimu, int nvar, double v)
{
  if (db != 2 || i < 0 || i >= W_nout) { g_oob = 1; return; }
  g_nset[i] = g_nset[i] + 1; g_val[i] = v;
}
""" % (NP, NDM, 1 if grid else 0)
    f = Fn("CalcSimuTurningBands::_updateData2ToTarget", "src/Simulation/CalcSimuTurningBands.cpp",
           r"^void CalcSimuTurningBands::_updateData2ToTarget\(Db \*dbin,[^{]*?bool flag_dgm\)\s*$",
           csig="void _updateData2ToTarget(int dbin, int dbout, int icase, bool flag_pgs, bool flag_dgm)",
           rewrites=[(r"VectorDouble coor1\(ndim\);", "double coor1[NDM];", 1), (r"VectorDouble coor2\(ndim\);", "double coor2[NDM];", 1),
                     (r"VectorBool activeArrayIn = ", "const bool* activeArrayIn = ", 1), (r"VectorBool activeArrayOut = ", "const bool* activeArrayOut = ", 1),
                     (r"DbGrid\* dbgrid = dynamic_cast<DbGrid\*>\(dbout\);", "int dbgrid = dbout;", 1),
                     (r"ELoc::GAUSFAC", "ELOC_GAUSFAC", None), (r"ELoc::SIMU", "ELOC_SIMU", None),
                     (r"\b(dbin|dbout|dbgrid)->(\w+)\(\)", r"VF_\2(\1)", None),
                     (r"\b(dbin|dbout|dbgrid)->(\w+)\(", r"VF_\2(\1, ", None)])
    h = """
void vf_harness(void)
{
  vf_havoc_inputs();
  __CPROVER_assume(1 <= W_nin && W_nin <= NP && 1 <= W_nout && W_nout <= NP && 1 <= W_ndim && W_ndim <= NDM);
  for (int k = 0; k < NP; k++) { __CPROVER_assume(!FFFF(W_z[k])); g_nset[k] = 0; }
  if (VF_GRID) for (int k = 0; k < NP; k++) for (int m = 0; m < k; m++) if (k < W_nout)
  { bool differ = 0; for (int d = 0; d < NDM; d++) if (d < W_ndim && ((W_cout[k * NDM + d] ? 1 : 0) != (W_cout[m * NDM + d] ? 1 : 0))) differ = 1; __CPROVER_assume(differ); }   /* the nodes of a grid are distinct */
  g_oob = 0;
  _updateData2ToTarget(1, 2, 0, 0, 0);
  __CPROVER_assert(!g_oob, "every sample is read from / written to the data base it belongs to, within its sample count");
  for (int ik = 0; ik < NP; ik++) if (ik < W_nout)
  {
    /* is there an active datum at the location of THIS target?  which value may it receive? */
    bool coincide = 0, value_ok = 0;
    for (int ip = 0; ip < NP; ip++) if (ip < W_nin && W_actin[ip])
    {
      bool same = 1;                       /* lattice coordinates: same location iff every coordinate is equal */
      for (int d = 0; d < NDM; d++) if (d < W_ndim && ((W_cout[ik * NDM + d] ? 1 : 0) != (W_cin[ip * NDM + d] ? 1 : 0))) same = 0;
      if (same) { coincide = 1; if (g_nset[ik] > 0 && g_val[ik] == W_z[ip]) value_ok = 1; }
    }
    if (!W_actout[ik]) __CPROVER_assert(g_nset[ik] == 0, "a masked target is left untouched");
    else
    {
      __CPROVER_assert((g_nset[ik] > 0) == coincide, "a target receives a datum exactly when an active datum lies at its own location");
      if (coincide) __CPROVER_assert(value_ok, "the value it receives is the value of an ACTIVE datum lying at its own location");
    }
  }
  VF_REACH();
}
"""
    return Unit("C13.updateData2ToTarget.%s" % ("grid" if grid else "points"), [f], prelude=pre, harness=h, pre_inputs="typedef _Bool bool;\n", unwind=NP * NDM + 2, checks=["--bounds-check", "--pointer-check"],
                backends=("cvc5", "minisat", "cadical"), timeout=900,
                inputs=[("int", "W_nin"), ("int", "W_nout"), ("int", "W_ndim"), ("bool", "W_cin", str(NP * NDM)), ("bool", "W_cout", str(NP * NDM)),
                        ("double", "W_z", str(NP)), ("bool", "W_actin", str(NP)), ("bool", "W_actout", str(NP))],
                bounded="%d data, %d targets, %d space dimensions; unwind %d with unwinding assertions" % (NP, NP, NDM, NP * NDM + 2),
                claim=("CalcSimuTurningBands::_updateData2ToTarget, %s branch (real text;" % ("grid-target" if grid else "point-target") + " the two data bases are ghosts with their own sample counts, coordinates and "
                       "selections): a target receives a datum exactly when an active datum lies at ITS OWN location, and then the value of such a datum; masked targets untouched; "
                       "no sample is read from the wrong data base or beyond its sample count"),
                assumptions=["single variable, single simulation, no PGS/DGM", "this unit: isGrid() is %s; DbGrid::coordinateToRank returns the node lying at the coordinates (or -1)" % grid,
                             "coordinates on the unit lattice {0,1}^ndim, field diagonal 1 (so that 'same location' is decided without floating-point reasoning)"],
                canaries=[{"fn": "CalcSimuTurningBands::_updateData2ToTarget", "rx": r"if \(rank < 0 \|\| !activeArrayOut\[rank\]\) continue;", "rp": "if (rank < 0) continue;", "expect": r"assertion"}] if grid else
                         [{"fn": "CalcSimuTurningBands::_updateData2ToTarget", "rx": r"if \(dist <= eps2\) ip_close = ip;", "rp": "ip_close = ip;", "expect": r"assertion"}])


def units(tier):
    return [unit_seed(), unit_uniform(), unit_int_uniform(), unit_degenerate_seed(), unit_gibbs_draw("GibbsMulti"), unit_gibbs_draw("GibbsMultiMono"), unit_data_to_target(2, 1 if tier == "quick" else 2), unit_data_to_target(2, 1 if tier == "quick" else 2, grid=True)]


META = {
    "level": "other",
    "explanation": "Generator-state contracts (old-style generator): every draw is a pure function of (state, arguments); reproducibility from the seed follows. Draw step of the Gibbs samplers: bounded samples always go through the truncated sampler with their standardised bounds. Final data-to-target assignment of the turning bands on point targets (bounded).",
    "trusted_base": ["CBMC 6.11", "IEEE-754 doubles as implemented by CBMC / cvc5"],
    "assumptions": [],
    "not_covered": ["new-style generator (std::mt19937)", "law_gaussian and other laws (libm)", "seeding order inside the simulators", "conditioning by kriging (numerical)",
                    "range of law_gaussian_between_bounds itself (exp/log/sqrt rejection sampling)", "truncated draws of spde.cpp", "FFT/SPDE simulators, facies", "grid-target branch of _updateData2ToTarget"],
}
MANIFEST = {
    "category": "other",
    "text": "Contracts on the process-wide random generator (state transition and value drawn are functions of (state, arguments) only; integer draws stay in range), on the draw step of the Gibbs samplers (bounded samples use the truncated sampler with their standardised bounds) and a bounded unit on the data-to-target assignment of conditional turning bands (point targets).",
    "note": "Old-style generator only; wrap-around of the int product assumed (formally UB for large states).",
    "design_ref": "DESIGN.md 3 C13",
}
