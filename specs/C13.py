"""C13 — simulations reproducible from their seed: contracts on the process-wide generator (src/Basic/Law.cpp) and on the interval
bookkeeping of bounded Gaussian draws."""
from tools.vf import Fn, Unit

LAW = "src/Basic/Law.cpp"
PRE = """
typedef _Bool bool;
#define true 1
#define false 0
static int Random_factor     = 105;
static int Random_congruent  = 20000159;
static int Random_value      = 43241421;
static bool Random_Old_Style = true;
double floor(double);
"""
# the new-style branch uses std::mt19937 / <random>: outside the verifier's reach, the old style (default) is under contract
NEWSTYLE_SEED = (r"if \(! Random_Old_Style\)\s*\n\s*Random_gen\.seed\(\(unsigned\) seed\);", "if (! Random_Old_Style) { __CPROVER_assert(0, \"new-style generator not under contract\"); }", 1)
NEWSTYLE_UNIF = (r"(?s)std::uniform_real_distribution<double> d\{mini,maxi\};\s*\n\s*value = d\(Random_gen\);", "__CPROVER_assert(0, \"new-style generator not under contract\");", 1)
NEXT = "((int)(((unsigned int)(Random_factor * (S))) % (unsigned int)Random_congruent))"   # with S the state before the draw


def unit_seed():
    f = Fn("law_set_random_seed", LAW, r"^void law_set_random_seed\(int seed\)\s*$", rewrites=[NEWSTYLE_SEED],
           contract="\n".join(["__CPROVER_requires(Random_Old_Style)", "__CPROVER_assigns(Random_value)",
                               "__CPROVER_ensures(Random_value == (seed > 0 ? seed : __CPROVER_old(Random_value)))"]))
    g = Fn("law_get_random_seed", LAW, r"^int law_get_random_seed\(void\)\s*$")
    h = """
void vf_harness(void)
{
  vf_havoc_inputs();
  Random_value = W_state;
  law_set_random_seed(W_seed);
  __CPROVER_assert(law_get_random_seed() == (W_seed > 0 ? W_seed : W_state), "the seed read back is the seed given (non-positive seeds leave the generator unchanged, as documented)");
  VF_REACH();
}
"""
    return Unit("C13.law_set_random_seed", [g, f], prelude=PRE, harness=h, inputs=[("int", "W_state"), ("int", "W_seed")], enforce="law_set_random_seed",
                claim="law_set_random_seed: a positive seed becomes the generator state, a non-positive one leaves it unchanged; nothing else is written",
                assumptions=["old-style generator (library default); the std::mt19937 branch is not under contract (reaching it fails an obligation)"],
                canaries=[{"fn": "law_set_random_seed", "rx": r"if \(seed > 0\)", "rp": "if (seed > 1)", "expect": r"postcondition|assertion"}])


def unit_uniform():
    contract = "\n".join([
        "__CPROVER_requires(Random_Old_Style && 1 <= Random_value && Random_factor == 105 && Random_congruent == 20000159)",
        "__CPROVER_requires(mini == mini && maxi == maxi)",
        "__CPROVER_assigns(Random_value)",                      # frame: the only hidden state touched is the generator state
        "__CPROVER_ensures(0 <= Random_value && Random_value < 20000159)",
    ])
    allowed = ["double", "value", "if", "Random_Old_Style", "unsigned", "int", "random_product", "Random_factor", "Random_value", "Random_congruent",
               "mini", "maxi", "else", "return", "__CPROVER_assert", "new", "style", "generator", "not", "under", "contract"]
    reads_only = (r"\\b(?!(?:%s)\\b)[A-Za-z_]\\w*\\b" % "|".join(allowed), "VF_UNEXPECTED_IDENTIFIER", 0)
    f = Fn("law_uniform", LAW, r"^double law_uniform\(double mini, double maxi\)\s*$", contract=contract, rewrites=[NEWSTYLE_UNIF, reads_only])
    h = """
void vf_harness(void)
{
  vf_havoc_inputs();
  Random_value = W_state;
  law_uniform(W_mini, W_maxi);
  VF_REACH();
}
"""
    return Unit("C13.law_uniform.frame", [f], prelude=PRE, harness=h, inputs=[("int", "W_state"), ("double", "W_mini"), ("double", "W_maxi")],
                enforce="law_uniform", backends=("minisat", "cadical"), timeout=300,
                checks=["--bounds-check", "--pointer-check", "--div-by-zero-check"],
                claim=("law_uniform (old style) writes no hidden state other than the generator state and leaves it in [0, 20000159); lexically "
                       "(must-fire-zero rule, re-checked each run) its body names nothing but its arguments, its locals and the four generator statics and "
                       "calls no function: the draw and the new state are therefore functions of (state, arguments) only, i.e. a run is reproducible "
                       "from its seed whatever was called before"),
                assumptions=["the int product Random_factor * Random_value is evaluated with two's-complement wrap-around (what gcc/clang do); for states "
                             "above 20452225 — e.g. the initial state 43241421 or a large seed — this signed multiplication formally overflows (undefined "
                             "behaviour in C++): the signed-overflow check is switched off for this unit and the fact is reported in DESIGN.md"],
                canaries=[{"fn": "law_uniform", "rx": r"Random_value = random_product % Random_congruent;", "rp": "Random_value = random_product % Random_congruent; Random_factor = 106;",
                           "expect": r"assigns"}])


def unit_uniform_reproducible():
    """history independence of the draws: after re-seeding, the draw and the new state are the same whatever was called in between"""
    f = Fn("law_uniform", LAW, r"^double law_uniform\(double mini, double maxi\)\s*$", rewrites=[NEWSTYLE_UNIF])
    s = Fn("law_set_random_seed", LAW, r"^void law_set_random_seed\(int seed\)\s*$", rewrites=[NEWSTYLE_SEED])
    h = """
void vf_harness(void)
{
  vf_havoc_inputs();
  __CPROVER_assume(W_seed > 0 && W_mini == W_mini && W_maxi == W_maxi);
  __CPROVER_assume(Random_Old_Style && Random_factor == 105 && Random_congruent == 20000159);
  /* first process: seed, draw twice */
  law_set_random_seed(W_seed);
  double a1 = law_uniform(W_mini, W_maxi);
  double a2 = a1;
  int s1 = Random_value;
  /* arbitrary history: other seeds, other draws */
  law_set_random_seed(W_other_seed);
  law_uniform(W_c, W_d);
  if (W_more) law_uniform(W_d, W_c);
  /* same seed again */
  law_set_random_seed(W_seed);
  double b1 = law_uniform(W_mini, W_maxi);
  double b2 = b1;
  __CPROVER_assert((a1 == b1 || (a1 != a1 && b1 != b1)) && (a2 == b2 || (a2 != a2 && b2 != b2)), "same seed, same arguments => bit-identical draws, whatever was called before");
  __CPROVER_assert(s1 == Random_value, "same seed => same generator state after the same draws");
  VF_REACH();
}
"""
    return Unit("C13.law_uniform.reproducible", [s, f], prelude=PRE, harness=h,
                inputs=[("int", "W_seed"), ("int", "W_other_seed"), ("double", "W_mini"), ("double", "W_maxi"), ("double", "W_c"), ("double", "W_d"), ("bool", "W_more")],
                pre_inputs="typedef _Bool bool;\n", checks=["--bounds-check", "--div-by-zero-check"], backends=("minisat", "cadical", "cvc5"), timeout=300,
                claim=("seeding with the same positive seed and drawing with the same arguments gives bit-identical values and the same final state, after "
                       "an arbitrary history of other seeds and draws (two-run lemma over the real law_set_random_seed / law_uniform bodies, loop-free)"),
                assumptions=["old-style generator; two's-complement wrap of the int product"],
                canaries=[{"fn": "law_set_random_seed", "rx": r"Random_value = seed;", "rp": "Random_value = Random_value + seed;", "expect": r"assertion"}])


def unit_int_uniform():
    uni = Fn("law_uniform", LAW, r"^double law_uniform\(double mini, double maxi\)\s*$", rewrites=[NEWSTYLE_UNIF],
             contract="\n".join(["__CPROVER_requires(Random_Old_Style && 1 <= Random_value && Random_factor == 105 && Random_congruent == 20000159)", "__CPROVER_requires(mini == 0.0 && 1.0 <= maxi && maxi <= 2147483648.0)",
                                 "__CPROVER_assigns(Random_value)",
                                 "__CPROVER_ensures(0 <= Random_value && Random_value < 20000159)",
                                 "__CPROVER_ensures(__CPROVER_return_value == ((double)Random_value / (double)20000159) * maxi)"]))
    f = Fn("law_int_uniform", LAW, r"^int law_int_uniform\(int mini, int maxi\)\s*$",
           contract="\n".join(["__CPROVER_requires(Random_Old_Style && 1 <= Random_value && Random_factor == 105 && Random_congruent == 20000159 && mini <= maxi && (long)maxi - (long)mini < 1000L)",
                               "__CPROVER_assigns(Random_value)",
                               "__CPROVER_ensures(mini <= __CPROVER_return_value && __CPROVER_return_value <= maxi)"]))
    h = """
void vf_harness(void)
{
  vf_havoc_inputs();
  Random_value = W_state;
  law_int_uniform(W_mini, W_maxi);
  VF_REACH();
}
"""
    return Unit("C13.law_int_uniform", [uni, f], prelude=PRE, harness=h, inputs=[("int", "W_state"), ("int", "W_mini"), ("int", "W_maxi")],
                enforce="law_int_uniform", replace=["law_uniform"], backends=("cvc5", "minisat", "cadical"), timeout=200,
                bounded="maxi - mini < 1000 (floating-point product/floor over the full int range did not finish on any back end)",
                claim="law_int_uniform(mini, maxi) returns an integer in [mini, maxi] (callee law_uniform through its contract: value = state'/20000159 * n with state' < 20000159)",
                assumptions=["law_uniform enters through the value part of its contract (proved in C13.law_uniform)"],
                canaries=[{"fn": "law_int_uniform", "rx": r"number = maxi - mini \+ 1;", "rp": "number = maxi - mini + 2;", "expect": r"postcondition|precondition"}])


def unit_degenerate_seed():
    """search: is there a positive seed after which the generator is stuck at 0 (every later draw returns 'mini')?"""
    f = Fn("law_uniform", LAW, r"^double law_uniform\(double mini, double maxi\)\s*$", rewrites=[NEWSTYLE_UNIF])
    s = Fn("law_set_random_seed", LAW, r"^void law_set_random_seed\(int seed\)\s*$", rewrites=[NEWSTYLE_SEED])
    h = """
void vf_harness(void)
{
  vf_havoc_inputs();
  __CPROVER_assume(W_seed > 0);
  law_set_random_seed(W_seed);
  law_uniform(0., 1.);
  __CPROVER_assert(Random_value != 0, "no positive seed drives the generator into the absorbing state 0");
  VF_REACH();
}
"""
    native = r"""
static void vf_native(void)
{
  if (W_seed <= 0) exit(77);
  law_set_random_seed(W_seed);
  double a = law_uniform(0., 1.), b = law_uniform(0., 1.), c = law_uniform(0., 1.);
  printf("seed %d: draws %g %g %g, state %d\n", W_seed, a, b, c, Random_value);
  __CPROVER_assert(!(a == 0. && b == 0. && c == 0.), "generator stuck: every draw returns the lower bound");
}
"""
    return Unit("C13.law_uniform.degenerate_seed", [s, f], prelude=PRE, harness=h, inputs=[("int", "W_seed")], native=native, native_ubsan=False,
                checks=["--bounds-check", "--div-by-zero-check"],
                claim="for every positive seed the first draw does not leave the generator in state 0 (from which every later draw would return the lower bound)",
                assumptions=["two's-complement wrap of the int product (see C13.law_uniform)"])


def units(tier):
    return [unit_seed(), unit_uniform(), unit_int_uniform(), unit_degenerate_seed()]


META = {
    "level": "other",
    "explanation": "Generator-state contracts (old-style generator): every draw is a pure function of (state, arguments); reproducibility from the seed follows.",
    "trusted_base": ["CBMC 6.11", "IEEE-754 doubles as implemented by CBMC / cvc5"],
    "assumptions": [],
    "not_covered": ["new-style generator (std::mt19937)", "law_gaussian and other laws (libm)", "seeding order inside the simulators", "conditioning exactness",
                    "values within bounds for truncated Gaussian draws (exp/log/sqrt)", "FFT/SPDE/Gibbs simulators, facies"],
}
MANIFEST = {
    "category": "other",
    "text": "Contracts on the process-wide random generator: state transition and value drawn are functions of (state, arguments) only; integer draws stay in range.",
    "note": "Old-style generator only; wrap-around of the int product assumed (formally UB for large states).",
    "design_ref": "DESIGN.md 3 C13",
}
