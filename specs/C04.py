"""C04 — accelerated code paths give the same answers as the plain ones: the bookkeeping clauses only, re-using the units built for C06 and C10
(k-NN heap/sort kernels of the ball tree; lazy cache of the algebraic kriging calculator; optimised covariance cache pairing)."""
import copy
from specs import C06, C10


def _rename(u, name, claim_prefix):
    v = copy.copy(u)
    v.name = name
    v.claim = claim_prefix + u.claim
    return v


def unit_optim_cell():
    """the optimised evaluation fills, for one target column, exactly the cells the plain pairwise evaluation would, with the same (variable pair, sample) arguments"""
    from tools.vf import Fn, Unit
    BOOL = "typedef _Bool bool;\n#define true 1\n#define false 0\n"
    pre = BOOL + """
#define SAMED(x, y) ((x) == (y) || ((x) != (x) && (y) != (y)))
#define NV 2
#define NS 2
#define NR (NV * NS)
#define NC 3
int ivars_n, ivars_a[NV], index1_n[NV], index1_a[NV][NS]; double RES[NR][NC];
double __CPROVER_uninterpreted_sill(int, int); double __CPROVER_uninterpreted_dist(int); double __CPROVER_uninterpreted_cor(double); double __CPROVER_uninterpreted_prod(double, double); double __CPROVER_uninterpreted_sum(double, double);    /* EOperator::ADD */
static double VF_sill(int i, int j) { return __CPROVER_uninterpreted_sill(i, j); }
static double VF_dist(int iech) { return __CPROVER_uninterpreted_dist(iech); }          /* distance between the pre-projected sample iech and the pre-projected target */
static double VF_cor(double h) { return __CPROVER_uninterpreted_cor(h); }
static double VF_prod(double a, double b) { return __CPROVER_uninterpreted_prod(a, b); }  /* sill * correlation (floating-point product kept symbolic) */
static void VF_add(int irow, int icol, double v) { __CPROVER_assert(0 <= irow && irow < NR && 0 <= icol && icol < NC, "cell inside the matrix"); RES[irow][icol] = __CPROVER_uninterpreted_sum(RES[irow][icol], v); }
"""
    f = Fn("CovAniso::evalOptimInPlace", "src/Covariances/CovAniso.cpp", r"^void CovAniso::evalOptimInPlace\(MatrixRectangular& res,[^{]*?bool flagSym\) const\s*$",
           csig="void CovAniso_evalOptimInPlace(int ivar2, int icol, bool flagSym)",
           rewrites=[(r"\(int\) ivars\.size\(\)", "ivars_n", 1), (r"ivars\[(\w+)\]", r"ivars_a[\1]", 1),
                     (r"\(int\) index1\[(\w+)\]\.size\(\)", r"index1_n[\1]", 1), (r"index1\[(\w+)\]\[(\w+)\]", r"index1_a[\1][\2]", 1),
                     (r"mode == nullptr \|\| ! mode->getUnitary\(\)", "!W_unitary", 1),
                     (r"_sill\.getValue\(", "VF_sill(", 1), (r"_p2A\.getDistance\(_p1As\[(\w+)\]\)", r"VF_dist(\1)", 1),
                     (r"_evalCorFromH\((\w+), mode\)", r"VF_cor(\1)", 1),
                     (r"res\.updValue\((\w+), (\w+), EOperator::ADD, sill \* cov\);", r"VF_add(\1, \2, VF_prod(sill, cov));", 1)])
    h = """
double OLD[NR][NC];
void vf_harness(void)
{
  vf_havoc_inputs();
  ivars_n = W_nvar; __CPROVER_assume(1 <= ivars_n && ivars_n <= NV);
  for (int v = 0; v < NV; v++) { ivars_a[v] = W_ivars[v]; index1_n[v] = W_n1[v]; __CPROVER_assume(0 <= index1_n[v] && index1_n[v] <= NS); for (int k = 0; k < NS; k++) index1_a[v][k] = W_index1[v * NS + k]; }
  __CPROVER_assume(0 <= W_icol && W_icol < NC);
  for (int r = 0; r < NR; r++) for (int c = 0; c < NC; c++) { RES[r][c] = W_res[r * NC + c]; OLD[r][c] = RES[r][c]; }
  CovAniso_evalOptimInPlace(W_ivar2, W_icol, W_flagSym);
  int row = 0;
  for (int v = 0; v < NV; v++) if (v < ivars_n) for (int k = 0; k < NS; k++) if (k < index1_n[v]) {
    bool filled = !W_flagSym || row <= W_icol;
    double sill = W_unitary ? 1. : __CPROVER_uninterpreted_sill(ivars_a[v], W_ivar2);
    double expect = filled ? __CPROVER_uninterpreted_sum(OLD[row][W_icol], __CPROVER_uninterpreted_prod(sill, __CPROVER_uninterpreted_cor(__CPROVER_uninterpreted_dist(index1_a[v][k])))) : OLD[row][W_icol];
    __CPROVER_assert(SAMED(RES[row][W_icol], expect), "row (variable v, its k-th valid sample) of the target column receives sill(v, target variable) x correlation(distance to THAT sample); only the upper triangle in symmetric mode");
    row++; }
  for (int r = 0; r < NR; r++) for (int c = 0; c < NC; c++) if (c != W_icol || r >= row) __CPROVER_assert(SAMED(RES[r][c], OLD[r][c]), "no other cell is touched");
  VF_REACH();
}
"""
    return Unit("C04.evalOptimInPlace.cells", [f], prelude=pre, harness=h, pre_inputs=BOOL, unwind=NRC_UNWIND,
                inputs=[("int", "W_nvar"), ("int", "W_ivars", "2"), ("int", "W_n1", "2"), ("int", "W_index1", "4"), ("int", "W_ivar2"), ("int", "W_icol"), ("bool", "W_flagSym"),
                        ("bool", "W_unitary"), ("double", "W_res", "12")],
                checks=["--bounds-check", "--pointer-check", "--signed-overflow-check"], backends=("minisat", "cadical"), timeout=600,
                bounded="at most 2 variables with 2 valid samples each, 3 columns (unwinding assertions)",
                claim=("CovAniso::evalOptimInPlace (the kernel of the optimised covariance-matrix evaluation): for one target column, the row of (variable v, its k-th valid "
                       "sample) receives sill(v, target variable) x correlation(distance between the target and THAT sample), rows enumerated variable by variable in "
                       "the order of the valid-sample lists - the cell the plain pairwise evaluation fills with the same arguments; symmetric mode fills the upper "
                       "triangle only; nothing else is touched"),
                assumptions=["BOUNDED stand-in", "sill, pre-projected distance, correlation function and the floating-point product and sum are uninterpreted functions (values trusted)"],
                canaries=[{"fn": "CovAniso::evalOptimInPlace", "rx": r"_sill\.getValue\(ivar1, ivar2\)", "rp": "_sill.getValue(ivar2, ivar2)", "expect": r"assertion"}])

NRC_UNWIND = 6


def unit_xvalid_unique():
    """cross-validation shortcut in a unique neighbourhood: the inverse matrix holds the ACTIVE samples only; sample j is read at its rank among them"""
    from tools.vf import Fn, Unit
    BOOL = "typedef _Bool bool;\n#define true 1\n#define false 0\n"
    KS = "src/Estimation/KrigingSystem.cpp"
    pre = BOOL + """
#define TEST 1.234e30
#define NS 3
int _nvar, _iechOut, _iptrEst, _iptrStd, _iptrVarZ; bool _flagEst, _flagStd, _flagVarZ, _xvalidEstim, _xvalidStdev;
double g_est, g_std; int g_est_set, g_std_set;
double __CPROVER_uninterpreted_z(int); double __CPROVER_uninterpreted_inv(int, int); double __CPROVER_uninterpreted_mean0(void); double __CPROVER_uninterpreted_sqrt(double);
double __CPROVER_uninterpreted_term(double, double, double, double);     /* valest - inv * variance * (z - mean) */
static bool FFFF(double v) { return v > 1.0e30 || v != v; }
static double sqrt(double x) { return __CPROVER_uninterpreted_sqrt(x); }
static int VF_nech(void) { return NS; }
static bool VF_isActive(int iech) { __CPROVER_assert(0 <= iech && iech < NS, "sample rank"); return W_active[iech]; }
static bool VF_isIsotopic(int iech) { __CPROVER_assert(0 <= iech && iech < NS, "sample rank"); return W_iso[iech]; }
static double VF_getZ(int iech, int ivar) { return __CPROVER_uninterpreted_z(iech); }
static double _getLHSINV(int i, int iv, int j, int jv) { __CPROVER_assert(0 <= i && i < g_nactive && 0 <= j && j < g_nactive, "the inverse matrix is indexed inside the ACTIVE samples"); return __CPROVER_uninterpreted_inv(i, j); }
static double _getMean(int ivar, bool flagLHS) { return __CPROVER_uninterpreted_mean0(); }
static void VF_setArray(int iech, int iptr, double v) { if (iptr == _iptrEst) { g_est = v; g_est_set++; } else if (iptr == _iptrStd) { g_std = v; g_std_set++; } }
"""
    fa = Fn("KrigingSystem::_getFlagAddress", KS, r"^int KrigingSystem::_getFlagAddress\(int iech0, int ivar0\)\s*$", csig="int _getFlagAddress(int iech0, int ivar0)",
            rewrites=[(r"\(int\) _dbin->getSampleNumber\(\)", "VF_nech()", None), (r"_dbin->isActive\(", "VF_isActive(", None), (r"_dbin->isIsotopic\(", "VF_isIsotopic(", None)])
    fx = Fn("KrigingSystem::_estimateCalculXvalidUnique", KS, r"^void KrigingSystem::_estimateCalculXvalidUnique\(int /\*status\*/\)\s*$", csig="void KrigingSystem_estimateCalculXvalidUnique(int status)",
            rewrites=[# the floating-point update of the estimate is kept symbolic: what is decided is WHICH inverse-matrix cell multiplies WHICH datum
                      (r"valest -= _getLHSINV\(iiech,0,jjech,0\) \* variance \*\s*\n\s*\(_dbin->getZVariable\( jech, 0\) - _getMean\(0, true\)\);",
                       "valest = __CPROVER_uninterpreted_term(valest, _getLHSINV(iiech,0,jjech,0), variance, VF_getZ(jech, 0));", "opt"),
                      (r"_dbin->getSampleNumber\(\)", "VF_nech()", None), (r"_dbin->getZVariable\(\s*", "VF_getZ(", None), (r"_dbin->setArray\(", "VF_setArray(", None),
                      (r"_dbin->isActive\(", "VF_isActive(", "opt"), (r"_dbin->isIsotopic\(", "VF_isIsotopic(", "opt")])
    h = """
#define SAMED(x, y) ((x) == (y) || ((x) != (x) && (y) != (y)))
void vf_harness(void)
{
  vf_havoc_inputs();
  _nvar = 1; _iechOut = W_target; __CPROVER_assume(0 <= _iechOut && _iechOut < NS);
  _iptrEst = 10; _iptrStd = 11; _iptrVarZ = 12; _flagEst = 1; _flagStd = 0; _flagVarZ = 0; _xvalidEstim = 0; _xvalidStdev = 0;
  g_nactive = 0; int pos[NS];
  for (int k = 0; k < NS; k++) { bool on = (W_active[k] != 0) && (W_iso[k] != 0); pos[k] = on ? g_nactive : -1; if (on) g_nactive++; }
  g_est_set = 0; g_std_set = 0;
  KrigingSystem_estimateCalculXvalidUnique(0);
  int ii = pos[_iechOut];
  if (ii < 0 || FFFF(__CPROVER_uninterpreted_z(_iechOut))) { __CPROVER_assert(g_est_set == 0, "a masked / undefined target receives nothing"); }
  else {
    double variance = 1. / __CPROVER_uninterpreted_inv(ii, ii);
    double v = __CPROVER_uninterpreted_mean0();
    for (int j = 0; j < NS; j++) if (pos[j] >= 0 && pos[j] != ii)
      v = __CPROVER_uninterpreted_term(v, __CPROVER_uninterpreted_inv(ii, pos[j]), variance, __CPROVER_uninterpreted_z(j));
    __CPROVER_assert(g_est_set == 1 && SAMED(g_est, v), "the estimate sums, over the OTHER active samples j, inverse(rank of target, rank of j among the active samples) x variance x (z_j - mean): masked samples contribute nothing and shift no index");
  }
  VF_REACH();
}
"""
    return Unit("C04.xvalidUnique.addresses", [fa, fx], prelude=pre, harness=h, pre_inputs=BOOL + "int g_nactive;\n", unwind=NS_XV + 2,
                inputs=[("int", "W_target"), ("bool", "W_active", "3"), ("bool", "W_iso", "3")],
                checks=["--bounds-check"], backends=("cvc5", "minisat"), timeout=600,
                bounded="3 samples, 1 variable (unwinding assertions)",
                claim=("KrigingSystem::_estimateCalculXvalidUnique + _getFlagAddress (the leave-one-out shortcut of a unique neighbourhood): the inverse matrix is indexed "
                       "only inside the active samples, each sample being read at its rank among the active (unmasked, isotopic) samples; masked samples contribute "
                       "nothing; a masked or undefined target receives nothing"),
                assumptions=["BOUNDED stand-in", "inverse matrix, data values, mean and sqrt are uninterpreted functions; the obligation is an equality of syntactically identical floating-point terms (cvc5)"],
                canaries=[{"fn": "KrigingSystem::_getFlagAddress", "rx": r"if \(found\) return rank;", "rp": "if (found) return rank + 1;", "expect": r"assertion"}])

NS_XV = 3


def unit_zstar_mean():
    """simple kriging through the algebraic calculator: the known means are added back to the estimate in the primal and in the dual form alike"""
    from tools.vf import Fn, Unit
    pre = """
#define nullptr 0
int nondet_int(); bool nondet_bool(); double nondet_double();
int g_means_added, g_other_added;
struct VectorInt { int n; };
struct VectorDouble { int n; int tag; VectorDouble() : n(0), tag(0) {} bool empty() const { return n <= 0; } void clear() { n = 0; } };
struct Mat { VectorDouble prodMatVec(const VectorDouble& v, bool transpose = false) const { VectorDouble r; r.n = nondet_int(); __CPROVER_assume(r.n >= 1); r.tag = 0; return r; } };
/* tag 7 marks the vector of known means (and what is sampled from it) */
struct VH { static void linearCombinationInPlace(double, const VectorDouble& a, double, const VectorDouble& b, VectorDouble& out) { if (b.tag == 7) g_means_added++; else g_other_added++; }
  static VectorDouble sample(const VectorDouble& v, const VectorInt& r) { VectorDouble o; o.n = nondet_int(); __CPROVER_assume(o.n >= 1); o.tag = v.tag; return o; } };
class KrigingCalcul { public:
  VectorDouble _Zstar, _bDual, _cDual, _Beta, _Z0p; bool _flagDual, _flagSK, _flagBayes; int _nbfl, _nxvalid, _ncck;
  Mat* _Sigma0; Mat* _X0; Mat* _LambdaSK; Mat* _LambdaUK; Mat* _Y0; Mat* _Lambda0; const VectorDouble* _Z; const VectorDouble* _Means; const VectorInt* _rankXvalidVars;
  int _needDual() { return nondet_bool(); } int _needSigma0() { return nondet_bool(); } int _needX0() { return nondet_bool(); } int _needZ() { return nondet_bool(); }
  int _needLambdaSK() { return nondet_bool(); } int _needLambdaUK() { return nondet_bool(); } int _needY0() { return nondet_bool(); } int _needBeta() { return nondet_bool(); } int _needZ0p() { return nondet_bool(); }
  int _needZstar(); };
"""
    f = Fn("KrigingCalcul::_needZstar", "src/Estimation/KrigingCalcul.cpp", r"^int KrigingCalcul::_needZstar\(\)\s*$")
    h = """
void vf_harness()
{
  KrigingCalcul K; Mat m; VectorDouble Z, means; VectorInt ranks; Z.n = 3; Z.tag = 0;
  means.n = nondet_int(); __CPROVER_assume(0 <= means.n && means.n <= 2); means.tag = 7;
  K._Zstar.n = 0; K._flagDual = nondet_bool(); K._nbfl = nondet_int(); __CPROVER_assume(0 <= K._nbfl && K._nbfl <= 2); K._flagSK = (K._nbfl <= 0); K._flagBayes = 0;
  K._nxvalid = nondet_int(); __CPROVER_assume(0 <= K._nxvalid && K._nxvalid <= 1); K._ncck = 0;
  K._Sigma0 = &m; K._X0 = &m; K._LambdaSK = &m; K._LambdaUK = &m; K._Y0 = &m; K._Lambda0 = &m; K._Z = &Z; K._Means = &means; K._rankXvalidVars = &ranks;
  g_means_added = 0; g_other_added = 0;
  int rc = K._needZstar();
  if (rc == 0 && K._nbfl <= 0)
    __CPROVER_assert(g_means_added == (means.n > 0 ? 1 : 0), "simple kriging: the known means are added to the estimate exactly once when they are given - in the primal and in the dual form alike");
  if (rc == 0 && K._nbfl > 0) __CPROVER_assert(g_means_added == 0, "with drift functions no mean is added");
  VF_REACH();
}
"""
    return Unit("C04.KrigingCalcul.zstar_mean", [f], mode="cpp", prelude=pre, harness=h, unwind=2, checks=[], backends=("minisat", "cadical"), timeout=300,
                claim=("KrigingCalcul::_needZstar: in simple kriging (no drift) the vector of known means is added to the estimate exactly once when means are given, whether "
                       "the calculator runs in primal or in dual form; with drift functions no mean is added"),
                assumptions=["Route X; matrices and the _need* requests are stubs (may fail); vectors carry a ghost tag identifying the means"],
                canaries=[{"fn": "KrigingCalcul::_needZstar", "rx": r"if \(!_Means->empty\(\)\)\s*\n\s*VH::linearCombinationInPlace\(1\., _Zstar, 1\., \*_Means, _Zstar\);", "rp": ";", "expect": r"assertion"}])



def unit_lhs_collocated():
    """collocated cokriging: the neighbourhood then holds the TARGET itself as an extra sample, designated by rank -1"""
    import copy, re
    from specs import C01
    u = copy.copy(C01.unit_lhs_assembly(2, 2, 2))
    u.name = "C04.lhsCalcul.collocated"
    u.prelude = u.prelude.replace("static void VF_p_setTarget(int which, bool t) {}",
                                  "int g_t1, g_t2;  /* ghost: 'is the target' flag of the two work points */\nstatic void VF_p_setTarget(int which, bool t) { if (which == 1) g_t1 = t; else g_t2 = t; }")
    u.prelude = u.prelude.replace("static void VF_evalCovKriging(void) {",
                                  "static void VF_evalCovKriging(void) { __CPROVER_assert((g_t1 || g_p1 >= 0) && (g_t2 || g_p2 >= 0), \"a work point that is not flagged as the target designates a data sample (rank >= 0): the pre-projected points are indexed by that rank\");")
    u.harness = """
void vf_harness(void)
{
  vf_havoc_inputs();
  _nech = NE; _nvar = NV; _nfeq = NB; _nbfl = NB; _flagVerr = 0; _flagCode = 0;
  /* collocated option: the last sample of the neighbourhood is the target itself (ANeigh::_updateColCok pushes rank -1) */
  for (int k = 0; k < NE; k++) { _nbgh[k] = W_nbgh[k]; __CPROVER_assume(0 <= _nbgh[k] && _nbgh[k] < NE); }
  if (W_stationary) _nbgh[NE - 1] = -1;
  for (int a = 0; a < NEQF; a++) for (int b = 0; b < NEQF; b++) LF[a][b] = 0.;
  g_t1 = 0; g_t2 = 0;
  KrigingSystem_lhsCalcul();
  VF_REACH();
}
"""
    u.checks = []
    u.split = False
    u.canaries = []
    u.native = None
    u.claim = ("KrigingSystem::_lhsCalcul with the collocated option (the target is an extra sample of rank -1): every covariance evaluation is asked either for the "
               "target (flagged as such) or for a data sample of rank >= 0 - the pre-projected points of the optimised covariance are indexed by that rank")
    u.assumptions = ["same environment as unit C01.lhsCalcul.assembly; only the designation of the two work points is checked here"]
    return u



def unit_getlambda():
    """the kriging weights can be obtained from the calculator in its ordinary (primal) form, and are refused in dual form"""
    from tools.vf import Fn, Unit
    pre = """
#define nullptr 0
#define messerr(...) ((void)0)
int nondet_int(); bool nondet_bool();
struct MatrixRectangular { int id; };
class KrigingCalcul { public: bool _flagDual, _flagSK; MatrixRectangular* _LambdaSK; MatrixRectangular* _LambdaUK; int g_sk_ok, g_uk_ok;
  bool _validForDual() const;
  int _needLambdaSK() { g_sk_ok = nondet_bool(); return g_sk_ok ? 0 : 1; } int _needLambdaUK() { g_uk_ok = nondet_bool(); return g_uk_ok ? 0 : 1; }
  const MatrixRectangular* getLambda(); };
"""
    fns = [Fn("KrigingCalcul::_validForDual", "src/Estimation/KrigingCalcul.cpp", r"^bool KrigingCalcul::_validForDual\(\) const\s*$"),
           Fn("KrigingCalcul::getLambda", "src/Estimation/KrigingCalcul.cpp", r"^const MatrixRectangular\* KrigingCalcul::getLambda\(\)\s*$")]
    h = """
void vf_harness()
{
  KrigingCalcul K; MatrixRectangular sk, uk; sk.id = 1; uk.id = 2; K._LambdaSK = &sk; K._LambdaUK = &uk; K._flagDual = nondet_bool(); K._flagSK = nondet_bool(); K.g_sk_ok = 0; K.g_uk_ok = 0;
  const MatrixRectangular* l = K.getLambda();
  if (K._flagDual) __CPROVER_assert(l == 0, "in dual form the weights are not available");
  else if (K._flagSK) __CPROVER_assert((l != 0) == (K.g_sk_ok != 0) && (l == 0 || l->id == 1), "primal simple kriging: the weights are returned whenever they could be computed");
  else __CPROVER_assert((l != 0) == (K.g_uk_ok != 0) && (l == 0 || l->id == 2), "primal universal kriging: the weights are returned whenever they could be computed");
  VF_REACH();
}
"""
    return Unit("C04.KrigingCalcul.getLambda", fns, mode="cpp", prelude=pre, harness=h, unwind=2, checks=[], backends=("minisat", "cadical"), timeout=300,
                claim=("KrigingCalcul::getLambda (with the real _validForDual): in primal form the weights of simple / universal kriging are returned whenever their "
                       "computation succeeds, in dual form they are refused"),
                assumptions=["Route X; the two weight computations are stubs that may fail"],
                canaries=[{"fn": "KrigingCalcul::getLambda", "rx": r"return _LambdaUK;", "rp": "return _LambdaSK;", "expect": r"assertion"}])



def unit_block_single_point():
    """block kriging with a single discretisation point equals point kriging: the block is then the target point itself, for the estimate AND for the
    variance term C(v,v) — KNOWN FINDING: the second (randomised) discretisation used for C(v,v) does not coincide with the point"""
    from tools.vf import Fn, Unit
    pre = """
typedef _Bool bool;
#define true 1
#define false 0
#define ND 2
#define NT 4
double nondet_double(void);
static int getNDim(void) { return W_ndim; }
static int VF_product(const int* nd) { int p = 1; for (int k = 0; k < ND; k++) if (k < W_ndim) p = p * nd[k]; return p; }
static int law_get_random_seed(void) { return 0; } static void law_set_random_seed(int s) {}
static double law_uniform(double a, double b) { double u = nondet_double(); __CPROVER_assume(u >= a && u <= b); return u; }
static double getDX(int idim) { return W_dx[idim]; }
static double VF_blex(int iech, int idim) { return W_blex[idim]; }
double G_out[NT][ND];
"""
    f = Fn("DbGrid::getDiscretizedBlock", "src/Db/DbGrid.cpp", r"^VectorVectorDouble DbGrid::getDiscretizedBlock\(const VectorInt &ndiscs,[^{]*?int seed\) const\s*$",
           csig="void getDiscretizedBlock(const int* ndiscs, int iech, bool flagPerCell, bool flagRandom, int seed)",
           rewrites=[(r"VH::product\(ndiscs\)", "VF_product(ndiscs)", 1), (r"VectorVectorDouble discs\(ntot\);", 'double discs[NT][ND]; __CPROVER_assert(0 <= ntot && ntot <= NT, "modelled capacity");', 1),
                     (r"for \(int i = 0; i < ntot; i\+\+\) discs\[i\]\.resize\(ndim\);", ";", 1), (r"getLocVariable\(ELoc::BLEX, iech, idim\)", "VF_blex(iech, idim)", 1),
                     (r"return discs;", "for (int vf_i = 0; vf_i < NT; vf_i++) for (int vf_d = 0; vf_d < ND; vf_d++) G_out[vf_i][vf_d] = discs[vf_i][vf_d]; return;", 1)])
    h = """
void vf_harness(void)
{
  vf_havoc_inputs();
  __CPROVER_assume(1 <= W_ndim && W_ndim <= ND);
  for (int k = 0; k < ND; k++) __CPROVER_assume(W_dx[k] > 0. && W_dx[k] < 1.e6 && W_blex[k] > 0. && W_blex[k] < 1.e6);
  int one[ND]; for (int k = 0; k < ND; k++) one[k] = 1;          /* a single discretisation point */
  getDiscretizedBlock(one, 0, W_percell, 0, 1234546);
  for (int k = 0; k < ND; k++) if (k < W_ndim) __CPROVER_assert(G_out[0][k] == 0., "single discretisation point, regular discretisation: the point is the target itself");
  getDiscretizedBlock(one, 0, W_percell, 1, 1234546);
  for (int k = 0; k < ND; k++) if (k < W_ndim) __CPROVER_assert(G_out[0][k] == 0., "single discretisation point, discretisation used for the block variance C(v,v): the point is the target itself (so that C(v,v) = C(0) as in point kriging)");
  VF_REACH();
}
"""
    return Unit("C04.block.single_point", [f], prelude=pre, harness=h, pre_inputs="typedef _Bool bool;\n", unwind=6, checks=["--bounds-check", "--pointer-check"], backends=("minisat", "cadical"), timeout=300,
                inputs=[("int", "W_ndim"), ("double", "W_dx", "2"), ("double", "W_blex", "2"), ("bool", "W_percell")],
                bounded="space dimension <= 2 (unwinding assertions)",
                claim=("DbGrid::getDiscretizedBlock with a single discretisation point per direction (block kriging that should equal point kriging): the regular discretisation is the "
                       "target point; the randomised one, from which KrigingSystem::_covCvvCalcul computes C(v,v), should be too — it is not: KNOWN FINDING"),
                assumptions=["law_uniform returns an arbitrary value of its interval"])


def unit_migrate_ball():
    """nearest-point migration through the ball tree equals the exhaustive search: value of the nearest ACTIVE input sample among those admitted by dmax"""
    from tools.vf import Fn, Unit
    NI, NO = 3, 2
    pre = """
typedef _Bool bool;
#define true 1
#define false 0
#define NI %d
#define NO %d
#define TEST 1.234e30
typedef struct { int a[NI]; int n; } ivec;
int g_usesel, g_oob;
/* the ball tree: holds the active samples of db1 (relative ranks) when built with useSel, all samples (absolute ranks) otherwise; queryClosest = nearest member */
static void VF_ball_init(bool usesel) { g_usesel = usesel ? 1 : 0; }
static int VF_queryClosest(int inode)
{
  int best = -1, rel = 0, bestrel = -1;
  for (int i = 0; i < NI; i++) { if (g_usesel && !W_actin[i]) continue; if (best < 0 || W_d[inode * NI + i] < W_d[inode * NI + best]) { best = i; bestrel = rel; } rel++; }
  if (best < 0) return -1234567;
  return g_usesel ? bestrel : best;
}
static ivec VF_ranksActive(void) { ivec r; r.n = 0; for (int i = 0; i < NI; i++) if (W_actin[i]) { r.a[r.n] = i; r.n = r.n + 1; } return r; }
static int g_cur_in, g_cur_out;
static double distance_inter(int dba, int dbb, int ia, int ib, double* dvect)
{ /* called (db2, db1, inode, iech): the pair under examination */
  if (ia < 0 || ia >= NO || ib < 0 || ib >= NI) { g_oob = 1; return 0.; } g_cur_out = ia; g_cur_in = ib; return W_d[ia * NI + ib]; }
static int st_larger_than_dmax(int ndim, const double* dvect, int distType, bool dmax_given) { return W_far[g_cur_out * NI + g_cur_in] ? 1 : 0; }
static double VF_getArray(int iech) { if (iech < 0 || iech >= NI) { g_oob = 1; return 0.; } return W_val[iech]; }
""" % (NI, NO)
    f = Fn("CalcMigrate::_expandPointToPointBall", "src/Calculators/CalcMigrate.cpp", r"^int CalcMigrate::_expandPointToPointBall\(Db \*db1,[^{]*?VectorDouble &tab\)\s*$",
           csig="int _expandPointToPointBall(int db1, int db2, int iatt, int distType, bool dmax, double* tab)",
           rewrites=[(r"! db1->hasSameDimension\(db2\)", "0", 1), (r"db1->getNDim\(\)", "2", 1), (r"VectorDouble coor\(ndim\);", "double coor[2];", 1), (r"VectorDouble dvect\(ndim\);", "double dvect[2];", 1),
                     (r"Ball ball\(db1, nullptr, leaf_size, \d+, (true|false)\);", r"VF_ball_init(\1);", "opt"), (r"Ball ball\(db1, nullptr, leaf_size\);", "VF_ball_init(false);", "opt"),
                     (r"VectorInt ranks = db1->getRanksActive\(\);", "ivec ranks = VF_ranksActive();", "opt"), (r"\(int\) ranks\.size\(\)", "ranks.n", "opt"), (r"ranks\[(\w+)\]", r"ranks.a[\1]", "opt"),
                     (r"db2->getSampleNumber\(\)", "NO", 1), (r"db2->isActive\(inode\)", "W_actout[inode]", 1), (r"db2->getCoordinatesPerSampleInPlace\(inode, coor\);", "(void) coor;", 1),
                     (r"ball\.queryClosest\(coor\)", "VF_queryClosest(inode)", 1), (r"dmax\.empty\(\)", "(!dmax)", None), (r"dvect\.data\(\)", "dvect", None),
                     (r"db1->getArray\((\w+), iatt\)", r"VF_getArray(\1)", 1)])
    h = """
void vf_harness(void)
{
  vf_havoc_inputs();
  for (int k = 0; k < NO * NI; k++) { __CPROVER_assume(W_d[k] >= 0. && W_d[k] < 1.e6); for (int m = 0; m < k; m++) __CPROVER_assume(W_d[m] != W_d[k]); }   /* no ties */
  for (int k = 0; k < NI; k++) __CPROVER_assume(W_val[k] > -1.e6 && W_val[k] < 1.e6);
  if (!W_dmax) for (int k = 0; k < NO * NI; k++) __CPROVER_assume(!W_far[k]);
  double tab[NO]; for (int k = 0; k < NO; k++) tab[k] = TEST;
  g_oob = 0;
  int rc = _expandPointToPointBall(1, 2, 0, W_disttype, W_dmax ? 1 : 0, tab);
  __CPROVER_assert(rc == 0 && !g_oob, "every sample rank handed to the data bases is a valid rank");
  for (int o = 0; o < NO; o++)
  {
    /* exhaustive search: the nearest ACTIVE input sample among those admitted by dmax */
    int best = -1;
    for (int i = 0; i < NI; i++) if (W_actin[i] && !W_far[o * NI + i] && (best < 0 || W_d[o * NI + i] < W_d[o * NI + best])) best = i;
    if (!W_actout[o]) __CPROVER_assert(tab[o] == TEST, "a masked target is left untouched");
    else if (best < 0) __CPROVER_assert(tab[o] == TEST, "no admissible active sample: the target keeps the undefined value");
    else __CPROVER_assert(tab[o] == W_val[best], "the target receives the value of the nearest active input sample admitted by dmax, as the exhaustive search does");
  }
  VF_REACH();
}
"""
    return Unit("C04.migrate.ball_equals_exhaustive", [f], prelude=pre, harness=h, pre_inputs="typedef _Bool bool;\n", unwind=NI * NO + 2, checks=["--bounds-check", "--pointer-check"],
                backends=("minisat", "cadical"), timeout=600,
                inputs=[("double", "W_d", str(NI * NO)), ("bool", "W_far", str(NI * NO)), ("double", "W_val", str(NI)), ("bool", "W_actin", str(NI)), ("bool", "W_actout", str(NO)), ("bool", "W_dmax"), ("int", "W_disttype")],
                bounded="%d input samples, %d targets (unwinding assertions)" % (NI, NO),
                claim=("CalcMigrate::_expandPointToPointBall (nearest-point migration through the ball tree, real text; the tree, the distances and the dmax test are tables): every active target "
                       "receives the value of the nearest ACTIVE input sample among those admitted by dmax — what the exhaustive search (_expandPointToPoint) computes — masked targets stay untouched"),
                assumptions=["Ball::queryClosest = nearest member of the tree (heap / sort kernels: units C04.ball.*); the tree holds the active samples when built with useSel, all of them otherwise",
                             "distances pairwise different (no ties)"],
                canaries=[{"fn": "CalcMigrate::_expandPointToPointBall", "rx": r"int iech = ranks\[jech\];", "rp": "int iech = jech;", "expect": r"assertion"}])


def units(tier):
    nmax = 6 if tier == "quick" else 10
    out = []
    out.append(_rename(C10.unit_krigcalc(), "C04.KrigingCalcul.cache", "[algebraic kriging calculator never serves a failed or stale intermediate] "))
    out.append(_rename(C10.unit_optim_pairing(), "C04.evalCovMatrixOptim.pairing", "[optimised covariance evaluation leaves no cache behind: the next (plain or optimised) call starts clean] "))
    out.append(_rename(C06.unit_nheap_push(nmax), "C04.ball.nheap_push", "[ball-tree k-NN keeps the k smallest candidates] "))
    out.append(_rename(C06.unit_sort_order(nmax), "C04.ball.sort.order", "[ball-tree k-NN results in increasing distance order] "))
    out.append(unit_optim_cell())
    out.append(unit_xvalid_unique())
    out.append(unit_zstar_mean())
    out.append(unit_lhs_collocated())
    out.append(unit_getlambda())
    out.append(unit_block_single_point())
    out.append(unit_migrate_ball())
    return out


META = {
    "level": "other",
    "explanation": ("Only the clauses of C04 that are bookkeeping: the algebraic calculator's cache graph, the cache pairing of the optimised covariance evaluation and "
                    "the heap/sort kernels behind the ball-tree search. Numerical equalities between two solves (unique vs moving neighbourhood, cross-validation "
                    "shortcut, block with one point, collocated, Schur forms) are not decidable with contracts."),
    "trusted_base": ["see C06 / C10"],
    "assumptions": [],
    "not_covered": ["equality of optimised and plain covariance VALUES (only the cell/argument bookkeeping of the optimised kernel; equality observed by experiment, demos/C04_equivalences.cpp and the covariance-matrix experiment)",
                    "unique vs moving neighbourhood and cross-validation shortcut as numerical equalities (observed by experiment only)", "collocated cokriging (known finding)", "tree construction and depth-first query (pruning) of the ball tree"],
}
MANIFEST = {
    "category": "other",
    "text": "Partial: cache-consistency of the algebraic kriging calculator and of the optimised covariance evaluation, heap/sort kernels of the ball tree (units shared with C06/C10), cell / argument bookkeeping of the optimised kernel, cross-validation addresses, means in simple kriging, weights getter, ball-tree migration = exhaustive search (bounded), single-point block discretisation (known finding).",
    "note": "Numeric equalities between two solves N/A.",
    "design_ref": "DESIGN.md 3 C04",
}
