"""C04 — accelerated code paths give the same answers as the plain ones: the bookkeeping clauses only, re-using the units built for C06 and C10
(k-NN heap/sort kernels of the ball tree; lazy cache of the algebraic kriging calculator; optimised covariance cache pairing)."""
import copy
from specs import C06, C10


def _rename(u, name, claim_prefix):
    v = copy.copy(u)
    v.name = name
    v.claim = claim_prefix + u.claim
    return v


def units(tier):
    nmax = 6 if tier == "quick" else 10
    out = []
    out.append(_rename(C10.unit_krigcalc(), "C04.KrigingCalcul.cache", "[algebraic kriging calculator never serves a failed or stale intermediate] "))
    out.append(_rename(C10.unit_optim_pairing(), "C04.evalCovMatrixOptim.pairing", "[optimised covariance evaluation leaves no cache behind: the next (plain or optimised) call starts clean] "))
    out.append(_rename(C06.unit_nheap_push(nmax), "C04.ball.nheap_push", "[ball-tree k-NN keeps the k smallest candidates] "))
    out.append(_rename(C06.unit_sort_order(nmax), "C04.ball.sort.order", "[ball-tree k-NN results in increasing distance order] "))
    return out


META = {
    "level": "other",
    "explanation": ("Only the clauses of C04 that are bookkeeping: the algebraic calculator's cache graph, the cache pairing of the optimised covariance evaluation and "
                    "the heap/sort kernels behind the ball-tree search. Numerical equalities between two solves (unique vs moving neighbourhood, cross-validation "
                    "shortcut, block with one point, collocated, Schur forms) are not decidable with contracts."),
    "trusted_base": ["see C06 / C10"],
    "assumptions": [],
    "not_covered": ["equality of optimised and plain covariance VALUES", "unique vs moving neighbourhood", "cross-validation shortcut", "block kriging with one discretisation point",
                    "collocated cokriging", "tree construction and depth-first query (pruning) of the ball tree", "CalcMigrate::_expandPointToPointBall"],
}
MANIFEST = {
    "category": "other",
    "text": "Partial: cache-consistency of the algebraic kriging calculator and of the optimised covariance evaluation, heap/sort kernels of the ball tree (units shared with C06/C10).",
    "note": "Numeric equalities between two solves N/A.",
    "design_ref": "DESIGN.md 3 C04",
}
