"""C05 — masked or undefined samples never influence a result: the filtering predicates and their use in two kernels."""
from tools.vf import Fn, Unit

DBC = "src/Db/Db.cpp"
KS = "src/Estimation/KrigingSystem.cpp"
BOOL = "typedef _Bool bool;\n#define true 1\n#define false 0\n"


def AND(xs):
    xs = list(xs)
    return "(" + " && ".join(xs) + ")" if xs else "1"


def unit_ranks_active(nmax):
    # a candidate qualifies iff it is not masked (selection defined and > 0), its variable is defined and, when used, its
    # measurement-error variance is defined and not negative
    P = lambda m: ("((icol_ < 0 || (!FFFF_(W_sel[W_cand[%s]]) && W_sel[W_cand[%s]] > 0)) && (item_ < 0 || !FFFF_(W_z[W_cand[%s]])) && "
                   "(!useV_ || (!FFFF_(W_v[W_cand[%s]]) && !(W_v[W_cand[%s]] < 0))))" % (m, m, m, m, m))
    cntp = lambda upto: " + ".join("((%d < (%s) && %s) ? 1 : 0)" % (m, upto, P(m)) for m in range(nmax))
    pre = BOOL + """
#define NMAX %d
typedef struct { int a[NMAX]; int n; } ivec;
#define TEST 1.234e30
#define FFFF_(v) ((v) > 1.0e30 || (v) != (v))
static bool FFFF(double v) { return FFFF_(v); }
ivec VF_ranks;                        /* the returned VectorInt */
int S_nech_tot, S_selcol, S_nz, S_vcol;
/* Db getters bound to ghost tables */
#define getSampleNumber() (S_nech_tot)
#define ELOC_SEL 1
#define ELOC_Z 2
#define ELOC_V 3
static int getColIdxByLocator(int loc, int item) { return loc == ELOC_SEL ? S_selcol : S_vcol; }
static int getLocNumber(int loc) { return S_nz; }
static double getValueByColIdx(int iech, int icol) { return W_sel[iech]; }
static double getZVariable(int iech, int item) { return W_z[iech]; }
static double getLocVariable(int loc, int iech, int item) { return W_v[iech]; }
/* spec-side names of the values the function derives from its arguments */
#define icol_ (useSel ? S_selcol : -1)
#define item_ (S_nz <= 0 ? -1 : item)
#define useV_ (useVerr && item_ >= 0 && S_vcol >= 0)
""" % nmax
    contract = "\n".join([
        "__CPROVER_requires(0 <= nbgh_size && nbgh_size <= NMAX && nbgh_size > 0)",
        "__CPROVER_requires(%s)" % AND("(0 <= W_cand[%d] && W_cand[%d] < NMAX)" % (m, m) for m in range(nmax)),
        "__CPROVER_requires(-1 <= S_selcol && -1 <= S_vcol && -1 <= item && item < 1000)",
        "__CPROVER_assigns(VF_ranks)",
        "__CPROVER_ensures(VF_ranks.n == %s)" % cntp("nbgh_size"),
        "__CPROVER_ensures(%s)" % AND("(%d >= nbgh_size || !%s || VF_ranks.a[%s] == W_cand[%d])" % (m, P(m), cntp(str(m)), m) for m in range(nmax)),
    ])
    loop = "\n".join([
        "__CPROVER_assigns(jech, value, VF_ranks)",
        "__CPROVER_loop_invariant(0 <= jech && jech <= nech_init && nech_init == nbgh_size && icol == icol_ && item == __CPROVER_loop_entry(item) && useV == useV_)",
        "__CPROVER_loop_invariant(item == (S_nz <= 0 ? -1 : item) )",
        "__CPROVER_loop_invariant(VF_ranks.n == %s)" % cntp("jech"),
        "__CPROVER_loop_invariant(%s)" % AND("(%d >= jech || !%s || VF_ranks.a[%s] == W_cand[%d])" % (m, P(m), cntp(str(m)), m) for m in range(nmax)),
        "__CPROVER_decreases(nech_init - jech)",
    ])
    f = Fn("Db::getRanksActive", DBC, r"^VectorInt Db::getRanksActive\(const VectorInt& nbgh,\s*\n\s*int item,\s*\n\s*bool useSel,\s*\n\s*bool useVerr\) const\s*$",
           csig="void Db_getRanksActive(const int* nbgh, int nbgh_size, int item, bool useSel, bool useVerr)", contract=contract,
           loops={1: loop}, nloops=1,
           rewrites=[(r"VectorInt nbgh_init;\s*\n\s*if \(nbgh\.empty\(\)\)\s*\n\s*nbgh_init = VH::sequence\(nech_tot\);\s*\n\s*else\s*\n\s*nbgh_init = nbgh;",
                      "const int* nbgh_init = nbgh;   /* candidate list given (the 'all samples' default is VH::sequence: same loop) */", 1),
                     (r"\(int\)nbgh_init\.size\(\)", "nbgh_size", 1),
                     (r"ELoc::(\w+)", r"ELOC_\1", None),
                     (r"VectorInt ranks;", "VF_ranks.n = 0;", 1),
                     (r"ranks\.push_back\(iech\);", "VF_ranks.a[VF_ranks.n] = iech; VF_ranks.n = VF_ranks.n + 1;", 1),
                     (r"return ranks;", "return;", 1)])
    h = """
void vf_harness(void)
{
  vf_havoc_inputs();
  S_nech_tot = NMAX; S_selcol = W_selcol; S_nz = W_nz; S_vcol = W_vcol;
  Db_getRanksActive(W_cand, W_n, W_item, W_useSel, W_useVerr);
  VF_REACH();
}
"""
    native = r"""
static void vf_native(void)
{
  S_nech_tot = NMAX; S_selcol = W_selcol; S_nz = W_nz; S_vcol = W_vcol;
  if (!(0 < W_n && W_n <= NMAX && -1 <= S_selcol && -1 <= S_vcol && -1 <= W_item && W_item < 1000)) exit(77);
  for (int m = 0; m < NMAX; m++) if (W_cand[m] < 0 || W_cand[m] >= NMAX) exit(77);
  Db_getRanksActive(W_cand, W_n, W_item, W_useSel, W_useVerr);
  int icol = W_useSel ? S_selcol : -1, item = S_nz <= 0 ? -1 : W_item; int useV = W_useVerr && item >= 0 && S_vcol >= 0;
  int k = 0;
  for (int m = 0; m < W_n; m++) { int i = W_cand[m];
    int ok = (icol < 0 || (!FFFF(W_sel[i]) && W_sel[i] > 0)) && (item < 0 || !FFFF(W_z[i])) && (!useV || (!FFFF(W_v[i]) && !(W_v[i] < 0)));
    if (ok) { __CPROVER_assert(k < VF_ranks.n && VF_ranks.a[k] == i, "qualifying candidates are returned in order"); k++; } }
  __CPROVER_assert(k == VF_ranks.n, "only candidates that are unmasked (selection defined and positive), defined and with a valid error variance are returned");
}
"""
    return Unit("C05.getRanksActive", [f], prelude=pre, harness=h, native=native, pre_inputs=BOOL, defines={"NMAX": nmax},
                inputs=[("int", "W_cand", "NMAX"), ("int", "W_n"), ("double", "W_sel", "NMAX"), ("double", "W_z", "NMAX"), ("double", "W_v", "NMAX"),
                        ("int", "W_selcol"), ("int", "W_nz"), ("int", "W_vcol"), ("int", "W_item"), ("bool", "W_useSel"), ("bool", "W_useVerr")],
                enforce="Db_getRanksActive", backends=("minisat", "cadical"), timeout=900, split=True, fallback_unwind=nmax + 2,
                claim=("Db::getRanksActive returns exactly the sub-sequence (order preserved) of the candidate samples that are not masked by the selection "
                       "(selection value defined and positive), whose variable is defined and, when requested, whose measurement-error variance is defined "
                       "and not negative; loop closed by invariant (candidates <= %d)" % nmax),
                assumptions=["at most %d candidates (quantifier range)" % nmax, "Db getters bound to ghost tables; VectorInt result -> ivec",
                             "an undefined (NA) selection value masks the sample, as Db::getSelection / Db::isActive define it"],
                canaries=[{"fn": "Db::getRanksActive", "rx": r"if \(FFFF\(value\) \|\| value < 0\) continue;", "rp": "if (FFFF(value)) continue;",
                           "expect": r"Db_getRanksActive\.(postcondition|loop_invariant_step)"}])


def unit_selection():
    f1 = Fn("Db::getSelection", DBC, r"^int Db::getSelection\(int iech\) const\s*$", csig="int Db_getSelection(int iech)",
            rewrites=[(r"ELoc::(\w+)", r"ELOC_\1", None), (r"isZero\(value\)", "isZero(value, 1.e-10)", 1)])
    f2 = Fn("isZero", "src/Basic/Utilities.cpp", r"^bool isZero\(double value, double eps\)\s*$")
    pre = BOOL + """
#define ABS(a) (((a) < 0.) ? -(a) : (a))
#define ELOC_SEL 1
static bool FFFF(double v) { return v > 1.0e30 || v != v; }
bool S_hasSel;
static bool hasLocVariable(int loc) { return S_hasSel; }
static double getFromLocator(int loc, int iech, int item) { return W_selval; }
bool isZero(double value, double eps);
#define isZero1(v) isZero(v, 1.e-10)
"""
    h = """
void vf_harness(void)
{
  vf_havoc_inputs();
  S_hasSel = W_hasSel;
  int s = Db_getSelection(0);
  __CPROVER_assert(s == 0 || s == 1, "selection is 0 or 1");
  if (!W_hasSel) __CPROVER_assert(s == 1, "no selection: every sample is active");
  else if (W_selval != W_selval || W_selval > 1.0e30) __CPROVER_assert(s == 0, "an undefined selection value masks the sample");
  else if (W_selval == 0.) __CPROVER_assert(s == 0, "selection value 0 masks the sample");
  else if (W_selval >= 1. || W_selval <= -1.) __CPROVER_assert(s == 1, "a non-zero selection value keeps the sample");
  VF_REACH();
}
"""
    return Unit("C05.getSelection", [f2, f1], prelude=pre, harness=h, pre_inputs=BOOL, inputs=[("double", "W_selval"), ("bool", "W_hasSel")],
                checks=["--bounds-check"],
                claim="Db::getSelection (the predicate behind Db::isActive): 1 without selection; 0 for an undefined or zero selection value; 1 for a non-zero one",
                assumptions=["isZero(value) called with its default tolerance 1e-10 (1 must-fire rewrite supplies the default argument)"],
                canaries=[{"fn": "Db::getSelection", "rx": r"if \(FFFF\(value\)\) return 0;", "rp": "if (FFFF(value)) return 1;", "expect": r"assertion"}])


def unit_flagdefine():
    pre = BOOL + """
#define NE 3
#define NV 2
#define ND 2
#define NF 2
#define NB 2
static bool FFFF(double v) { return v > 1.0e30 || v != v; }
int _neq, _nech, _nvar, _ndim, _nfex, _nfeq, _nred; bool _flagIsotopic; int _flag[NE * NV + NB]; int _nbgh[NE];
static double _getIdim(int rank, int idim) { return W_coord[rank][idim]; }
static double _getIvar(int rank, int ivar) { return W_z[rank][ivar]; }
static double _getFext(int rank, int ibfl) { return W_fext[rank][ibfl]; }
static bool VF_isDriftSampleDefined(int ib) { return W_driftdef[ib]; }
"""
    f = Fn("KrigingSystem::_flagDefine", KS, r"^void KrigingSystem::_flagDefine\(\)\s*$", csig="void KrigingSystem_flagDefine(void)",
           rewrites=[(r"_model->isDriftSampleDefined\(_dbin, ib, _nech, _nbgh, ELoc::Z\)", "VF_isDriftSampleDefined(ib)", 1)])
    sf = Fn("KrigingSystem::_setFlag", KS, r"^void KrigingSystem::_setFlag\(int iech, int ivar, int value\)\s*$", csig="void _setFlag(int iech, int ivar, int value)")
    h = """
void vf_harness(void)
{
  vf_havoc_inputs();
  _nech = W_nech; _nvar = W_nvar; _ndim = W_ndim; _nfex = W_nfex; _nfeq = W_nfeq;
  __CPROVER_assume(1 <= _nech && _nech <= NE && 1 <= _nvar && _nvar <= NV && 1 <= _ndim && _ndim <= ND && 0 <= _nfex && _nfex <= NF && 0 <= _nfeq && _nfeq <= NB);
  _neq = _nech * _nvar + _nfeq;
  for (int i = 0; i < NE; i++) { _nbgh[i] = W_nbgh[i]; __CPROVER_assume(0 <= _nbgh[i] && _nbgh[i] < NE); }
  KrigingSystem_flagDefine();
  int count = 0;
  for (int iech = 0; iech < NE; iech++) for (int ivar = 0; ivar < NV; ivar++) if (iech < _nech && ivar < _nvar) {
    int r = _nbgh[iech]; bool ok = true;
    for (int d = 0; d < ND; d++) if (d < _ndim && FFFF(W_coord[r][d])) ok = false;
    if (FFFF(W_z[r][ivar])) ok = false;
    for (int b = 0; b < NF; b++) if (b < _nfex && FFFF(W_fext[r][b])) ok = false;
    /* the last variable's slots may additionally carry the suppression of a drift equation: see below */
    bool overwritten = false;
    for (int ib = 0; ib < NB; ib++) if (ib < _nfeq && !W_driftdef[ib] && (_nech + ib) + (_nvar - 1) * _nech == iech + ivar * _nech) overwritten = true;
    if (!overwritten) __CPROVER_assert((_flag[iech + ivar * _nech] != 0) == ok,
       "equation (sample, variable) is kept iff every coordinate, the variable and every external drift of THAT neighbourhood sample are defined");
  }
  for (int i = 0; i < NE * NV + NB; i++) if (i < _neq && _flag[i] != 0) count++;
  __CPROVER_assert(_nred == count, "the reduced number of equations is the number of kept equations");
  __CPROVER_assert(_flagIsotopic == (_nred == _neq), "isotopic iff nothing was dropped");
  VF_REACH();
}
"""
    return Unit("C05.flagDefine", [sf, f], prelude=pre, harness=h, pre_inputs=BOOL, unwind=10,
                inputs=[("double", "W_coord[3]", "2"), ("double", "W_z[3]", "2"), ("double", "W_fext[3]", "2"), ("bool", "W_driftdef", "2"), ("int", "W_nbgh", "3"),
                        ("int", "W_nech"), ("int", "W_nvar"), ("int", "W_ndim"), ("int", "W_nfex"), ("int", "W_nfeq")],
                checks=["--bounds-check", "--pointer-check", "--signed-overflow-check"], backends=("minisat", "cadical"), timeout=600,
                bounded="neighbourhood <= 3 samples, <= 2 variables, <= 2 space dimensions, <= 2 external drifts, <= 2 drift equations (unwinding assertions)",
                claim=("KrigingSystem::_flagDefine: the equation of (neighbourhood sample, variable) is kept iff every coordinate, that variable and every "
                       "external drift of that very sample (looked up through the neighbourhood rank) are defined; the reduced equation count is the "
                       "number of kept equations — an undefined value drops only its own equations"),
                assumptions=["BOUNDED stand-in (sizes stated)", "sample values are ghost tables; Model::isDriftSampleDefined is an arbitrary boolean per drift equation"],
                canaries=[{"fn": "KrigingSystem::_flagDefine", "rx": r"if \(FFFF\(_getIvar\(nbgh_iech, ivar\)\)\)", "rp": "if (FFFF(_getIvar(iech, ivar)))", "expect": r"assertion"}])


def unit_multiple_ranks():
    import os
    from tools.vf import VERIF
    f = Fn("Db::getMultipleRanksActive", DBC, r"^VectorVectorInt Db::getMultipleRanksActive\(const VectorInt& ivars,[^{]*?bool useVerr\) const\s*$",
           rewrites=[(r"ELoc::Z\b", "ELOC_Z", None)])
    pre = open(os.path.join(VERIF, "stubs", "tape_stub.hpp")).read() + """
#define ELOC_Z 2
struct VH { static VectorInt sequence(int n) { VectorInt v; __CPROVER_assert(0 <= n && n <= VCAP, "modelled vector capacity"); v.n = n; for (int i = 0; i < VCAP; i++) v.a[i] = i; return v; } };
struct VectorVectorInt { VectorInt a[VCAP]; int n; VectorVectorInt(int k) : n(k) { __CPROVER_assert(0 <= k && k <= VCAP, "modelled vector capacity"); }
  VectorVectorInt(const VectorVectorInt& o) : n(o.n) { for (int i = 0; i < VCAP; i++) a[i] = o.a[i]; }
  VectorInt& operator[](int i) { __CPROVER_assert(0 <= i && i < n, "index inside the vector of rank lists"); return a[i]; } };
int g_nz, g_calls, g_flags_ok; const VectorInt* g_nbgh;
class Db { public:
  int getLocatorNumber(int loc) const { return g_nz; }
  /* contract of Db::getRanksActive (unit C05.getRanksActive): the returned ranks are those of the candidates whose variable 'item' is defined ...
     here the result is TAGGED with the item it was computed for, so that the caller's pairing (which variable decides which list) is observable */
  VectorInt getRanksActive(const VectorInt& nbgh, int item, bool useSel, bool useVerr) const
  { g_calls = g_calls + 1; if (&nbgh != g_nbgh || useSel != W_useSel || useVerr != W_useVerr) g_flags_ok = 0; VectorInt v; v.n = 1; v.a[0] = item; return v; }
  VectorVectorInt getMultipleRanksActive(const VectorInt& ivars, const VectorInt& nbgh, bool useSel, bool useVerr) const; };
"""
    h = """
Tape g_tape; int g_type_mismatch;
void vf_harness()
{
  Db db; VectorInt ivars, nbgh; ivars.n = nondet_int(); __CPROVER_assume(0 <= ivars.n && ivars.n <= 3); for (int i = 0; i < 4; i++) ivars.a[i] = nondet_int();
  g_nz = nondet_int(); __CPROVER_assume(0 <= g_nz && g_nz <= 3); nbgh.n = 0; g_nbgh = &nbgh; g_calls = 0; g_flags_ok = 1;
  W_useSel = nondet_bool(); W_useVerr = nondet_bool();
  VectorVectorInt r = db.getMultipleRanksActive(ivars, nbgh, W_useSel, W_useVerr);
  int nexp = ivars.n > 0 ? ivars.n : g_nz;
  __CPROVER_assert(r.n == nexp && g_calls == nexp, "one rank list per requested variable (all Z variables when none is requested)");
  __CPROVER_assert(g_flags_ok, "candidate list, selection and error-variance options are passed on unchanged");
  for (int k = 0; k < 3; k++) if (k < nexp && k < r.n)
    __CPROVER_assert(r.a[k].n == 1 && r.a[k].a[0] == (ivars.n > 0 ? ivars.a[k] : k), "the k-th rank list is computed from the definedness of the k-th REQUESTED variable");
  VF_REACH();
}
"""
    return Unit("C05.getMultipleRanksActive", [f], mode="cpp", prelude="bool W_useSel, W_useVerr;\n" + pre, harness=h, unwind=6, checks=[], backends=("minisat", "cadical"), timeout=300,
                bounded="at most 3 requested variables (unwinding assertions)",
                claim=("Db::getMultipleRanksActive: one rank list per requested variable, each computed by Db::getRanksActive for exactly that variable rank (all Z "
                       "variables in order when none is requested), with the candidate list and the selection / error-variance options passed on unchanged"),
                assumptions=["Route X; Db::getRanksActive enters through a tagging contract stub (its own contract: unit C05.getRanksActive)", "at most 3 variables"],
                trusted=["stubs/tape_stub.hpp (VectorT)"],
                canaries=[{"fn": "Db::getMultipleRanksActive", "rx": r"getRanksActive\(nbgh, jvar, useSel, useVerr\)", "rp": "getRanksActive(nbgh, jvar, useSel, false)", "expect": r"assertion"}])


def unit_simtub_minmax():
    """conditional turning bands: the extent of the bands is taken over the samples that take part in the calculation"""
    from tools.vf import Fn, Unit
    NS, NB = 3, 2
    pre = """
typedef _Bool bool;
#define true 1
#define false 0
#define NS %d
#define NB %d
#define TEST 1.234e30
#define TEST_COMP 1.000e30
#define FFFF(x) ((x) != (x) || (x) > TEST_COMP)
int g_used[NS];                       /* ghost: sample whose position entered the extent of a band */
double _field; int _npointSimulated; double G_tmin[NB], G_tmax[NB];
static int getNDirs(void) { return NB; }
static double _getCodirTmin(int ibs) { return G_tmin[ibs]; } static double _getCodirTmax(int ibs) { return G_tmax[ibs]; }
static void _setCodirTmin(int ibs, double t) { G_tmin[ibs] = t; } static void _setCodirTmax(int ibs, double t) { G_tmax[ibs] = t; }
static bool VF_isGrid(void) { return 0; }
static int VF_getSampleNumber(void) { return NS; }
static bool VF_isActive(int iech) { return W_active[iech]; }
static double VF_projectPoint(int ibs, int iech) { g_used[iech] = 1; return W_t[iech * NB + ibs]; }
static double VF_projectGrid(int ibs, int ix, int iy, int iz) { return 0.; }
static int VF_getNDim(void) { return 2; } static int VF_getNX(int i) { return 1; }
/* accessors a correct _minmax may consult: coordinates (undefined for the samples flagged W_nocoord), variables (all undefined for W_novalue) */
static double VF_getCoordinate(int iech, int idim) { return (W_nocoord[iech] && idim == W_which[iech]) ? TEST : 1.; }
static int VF_getLocNumberZ(void) { return 2; }
static double VF_getZVariable(int iech, int ivar) { return W_novalue[iech] ? TEST : ((ivar == W_which[iech]) ? 1. : TEST); }
"""  % (NS, NB)
    f = Fn("CalcSimuTurningBands::_minmax", "src/Simulation/CalcSimuTurningBands.cpp", r"^void CalcSimuTurningBands::_minmax\(const Db \*db(, bool flagData)?\)\s*$", csig="void _minmax(int db, bool flagData)",
           rewrites=[(r"db == nullptr", "db == 0", 1), (r"db->isGrid\(\)", "VF_isGrid()", 1), (r"const DbGrid\* dbgrid = dynamic_cast<const DbGrid\*>\(db\);", "int dbgrid = db;", 1),
                     (r"dbgrid->getNDim\(\)", "VF_getNDim()", None), (r"dbgrid->getNX\((\d)\)", r"VF_getNX(\1)", None),
                     (r"_codirs\[ibs\]\.projectGrid\(dbgrid, ", "VF_projectGrid(ibs, ", 1), (r"_codirs\[ibs\]\.projectPoint\(db, iech\)", "VF_projectPoint(ibs, iech)", 1),
                     (r"db->getSampleNumber\(\)", "VF_getSampleNumber()", None), (r"db->isActive\(iech\)", "VF_isActive(iech)", 1),
                     (r"db->getNDim\(\)", "VF_getNDim()", "opt"), (r"db->getLocNumber\(ELoc::Z\)", "VF_getLocNumberZ()", "opt"),
                     (r"db->getCoordinate\(iech, idim\)", "VF_getCoordinate(iech, idim)", "opt"), (r"db->getZVariable\(iech, ivar\)", "VF_getZVariable(iech, ivar)", "opt")])
    h = """
void vf_harness(void)
{
  vf_havoc_inputs();
  for (int k = 0; k < NS; k++) g_used[k] = 0;
  for (int b = 0; b < NB; b++) { G_tmin[b] = 1.e30; G_tmax[b] = -1.e30; }
  _field = 0.; _npointSimulated = 0;
  for (int k = 0; k < NS; k++) __CPROVER_assume(0 <= W_which[k] && W_which[k] < 2);
  _minmax(1, 1);                      /* the conditioning data */
  for (int k = 0; k < NS; k++)
  {
    if (W_active[k] && !W_nocoord[k] && !W_novalue[k]) __CPROVER_assert(g_used[k], "a datum that takes part in the calculation enters the extent of the bands");
    if (!W_active[k]) __CPROVER_assert(!g_used[k], "a sample masked by the selection does not enter the extent of the bands");
    if (W_nocoord[k]) __CPROVER_assert(!g_used[k], "a sample with an undefined coordinate does not enter the extent of the bands");
    if (W_novalue[k]) __CPROVER_assert(!g_used[k], "a datum whose variables are all undefined does not enter the extent of the bands (as if it had been removed)");
  }
  VF_REACH();
}
"""
    return Unit("C05.simtub.minmax", [f], prelude=pre, harness=h, pre_inputs="typedef _Bool bool;\n", unwind=NS + 2, checks=["--bounds-check", "--pointer-check"], backends=("minisat", "cadical"), timeout=300,
                inputs=[("bool", "W_active", str(NS)), ("bool", "W_nocoord", str(NS)), ("bool", "W_novalue", str(NS)), ("int", "W_which", str(NS)), ("double", "W_t", str(NS * NB))],
                bounded="%d samples, %d bands (unwinding assertions)" % (NS, NB),
                claim=("CalcSimuTurningBands::_minmax on the conditioning data (real text): only the samples that take part in the calculation enter the extent of the bands, from which the "
                       "non-conditional simulation is built: not the masked samples, not those with an undefined coordinate, not the data without any defined variable; all the others do"),
                assumptions=["projection of a sample on a band = arbitrary table; coordinates / variables of a sample: one arbitrary item defined or undefined per sample (2 dimensions, 2 variables)"],
                canaries=[{"fn": "CalcSimuTurningBands::_minmax", "rx": r"if \(!db->isActive\(iech\)\) continue;", "rp": "if (!db->isActive(iech)) { }", "expect": r"assertion"}])


def unit_all_undefined():
    """a sample whose variables are all undefined is discarded from every neighbourhood; Db::isAllUndefined says what its name says"""
    from tools.vf import Fn, Unit
    pre = """
typedef _Bool bool;
#define true 1
#define false 0
#define NV 3
#define TEST 1.234e30
#define TEST_COMP 1.000e30
#define FFFF(x) ((x) != (x) || (x) > TEST_COMP)
#define ELOC_Z 1
#define ELOC_SIMU 2
bool _flagSimu;
static bool isSampleIndexValid(int iech) { return iech >= 0 && iech < 4; }
static int VF_getLocNumber(int loc) { return loc == ELOC_Z ? W_nz : W_nsimu; }
static double getZVariable(int iech, int ivar) { __CPROVER_assert(0 <= ivar && ivar < W_nz, "variable rank"); return W_z[ivar]; }
static double VF_getLocVariable(int loc, int iech, int iatt) { __CPROVER_assert(0 <= iatt && iatt < W_nsimu, "item rank"); return W_s[iatt]; }
bool Db_isAllUndefined(int iech); bool Db_isAllUndefinedByType(int loctype, int iech);
"""
    f1 = Fn("Db::isAllUndefined", "src/Db/Db.cpp", r"^bool Db::isAllUndefined\(int iech\) const\s*$", csig="bool Db_isAllUndefined(int iech)",
            rewrites=[(r"getLocNumber\(ELoc::Z\)", "VF_getLocNumber(ELOC_Z)", 1)])
    f2 = Fn("Db::isAllUndefinedByType", "src/Db/Db.cpp", r"^bool Db::isAllUndefinedByType\(const ELoc& loctype, int iech\) const\s*$", csig="bool Db_isAllUndefinedByType(int loctype, int iech)",
            rewrites=[(r"getLocNumber\(loctype\)", "VF_getLocNumber(loctype)", 1), (r"getLocVariable\(loctype, iech, iatt\)", "VF_getLocVariable(loctype, iech, iatt)", 1)])
    f3 = Fn("ANeigh::_discardUndefined", "src/Neigh/ANeigh.cpp", r"^bool ANeigh::_discardUndefined\(int iech\)\s*$", csig="bool ANeigh_discardUndefined(int iech)",
            rewrites=[(r"_dbin->getLocNumber\(ELoc::Z\)", "VF_getLocNumber(ELOC_Z)", 1), (r"_dbin->isAllUndefined\(iech\)", "Db_isAllUndefined(iech)", 1),
                      (r"_dbin->isAllUndefinedByType\(ELoc::SIMU, iech\)", "Db_isAllUndefinedByType(ELOC_SIMU, iech)", 1)])
    h = """
void vf_harness(void)
{
  vf_havoc_inputs();
  __CPROVER_assume(0 <= W_nz && W_nz <= NV && 0 <= W_nsimu && W_nsimu <= NV);
  _flagSimu = W_simu ? 1 : 0;
  bool anyz = 0, anys = 0;
  for (int k = 0; k < NV; k++) { if (k < W_nz && !FFFF(W_z[k])) anyz = 1; if (k < W_nsimu && !FFFF(W_s[k])) anys = 1; }
  __CPROVER_assert((Db_isAllUndefined(1) != 0) == !anyz, "Db::isAllUndefined is true exactly when no variable of the sample is defined");
  __CPROVER_assert((Db_isAllUndefinedByType(ELOC_SIMU, 1) != 0) == !anys, "Db::isAllUndefinedByType is true exactly when no item of that type is defined for the sample");
  bool d = ANeigh_discardUndefined(1);
  if (W_nz > 0) __CPROVER_assert((d != 0) == (W_simu ? !anys : !anyz), "a sample is discarded from the neighbourhood exactly when all its variables (simulated items in simulation mode) are undefined");
  else __CPROVER_assert(!d, "without variables nothing is discarded");
  VF_REACH();
}
"""
    return Unit("C05.all_undefined", [f1, f2, f3], prelude=pre, harness=h, pre_inputs="typedef _Bool bool;\n", unwind=5, checks=["--bounds-check", "--pointer-check"], backends=("minisat", "cadical"), timeout=300,
                inputs=[("int", "W_nz"), ("int", "W_nsimu"), ("double", "W_z", "3"), ("double", "W_s", "3"), ("bool", "W_simu")],
                bounded="at most 3 variables (unwinding assertions)",
                claim=("Db::isAllUndefined / isAllUndefinedByType (real text) are true exactly when no variable (item of the type) of the sample is defined, and ANeigh::_discardUndefined "
                       "(real text) discards a sample from the neighbourhood exactly in that case"),
                assumptions=["the Db is a table of values for one sample"],
                canaries=[{"fn": "ANeigh::_discardUndefined", "rx": r"return 1;", "rp": "return 0;", "expect": r"assertion"}])


def units(tier):
    import copy
    from specs import C13
    nmax = 5 if tier == "quick" else 8
    out = [unit_selection(), unit_ranks_active(nmax), unit_flagdefine(), unit_multiple_ranks()]
    # final data-to-target assignment of the conditional turning bands (units shared with C13): a masked datum is never copied to a target, a masked target is left untouched
    for g in (False, True):
        u = copy.copy(C13.unit_data_to_target(2, 1 if tier == "quick" else 2, grid=g))
        u.name = "C05.simtub.data_to_target.%s" % ("grid" if g else "points")
        u.claim = "[a masked datum is never copied onto a target, a masked target is left untouched] " + u.claim
        out.append(u)
    from specs import C04
    u = copy.copy(C04.unit_migrate_ball())
    out.append(unit_simtub_minmax())
    out.append(unit_all_undefined())
    u.name = "C05.migrate.ball_tree"
    u.claim = "[a sample masked by the selection is never the source of a migrated value, also through the ball tree] " + u.claim
    out.append(u)
    return out


META = {
    "level": "other",
    "explanation": "Filtering predicates proved; their use proved in two kernels (one bounded). Not a whole-library non-interference proof.",
    "trusted_base": ["CBMC 6.11"],
    "assumptions": [],
    "not_covered": ["variogram pair loops (mask tests are part of C12.pair_enumeration)", "statistics, simulations", "NeighMoving::_moving filter part",
                    "output columns initialised to the undefined value (CalcKriging::_preprocess)"],
}
MANIFEST = {
    "category": "other",
    "text": "Contracts on the selection predicate, on Db::getRanksActive (exactly the unmasked, defined candidates, in order), on Db::getMultipleRanksActive (each list from the requested variable) and on the per-equation flags of the kriging system (bounded); bounded units on the conditional turning bands (extent of the bands, data-to-target assignment) and on the ball-tree migration: masked / undefined / unlocated samples never contribute.",
    "note": "Only the listed kernels; no whole-library non-interference claim.",
    "design_ref": "DESIGN.md 3 C05",
}
