"""C09 — loaders fail cleanly on malformed or truncated files (record readers of ASerializable; bounded stand-in)."""
import os
from tools.vf import Fn, Unit, VERIF

H = "include/Basic/ASerializable.hpp"
SC = "src/Basic/ASerializable.cpp"
FUEL = 7


def stub():
    return open(os.path.join(VERIF, "stubs", "serial_stub.hpp")).read()


COMMON_ASSUME = ["Route X (C++ front end), function text verbatim except the head: the out-of-class member template head "
                 "'template<typename T> bool ASerializable::f(...)' is replaced by a plain function head with 'typedef double T' "
                 "(CBMC's front end crashes on out-of-class member templates)",
                 "the stream is nondeterministic (every good()/eof() answer and every token arbitrary): over-approximates every file content, "
                 "truncation point and token corruption",
                 "BOUNDED stand-in: at most %d successful good() answers per call (lines + tokens), requested count <= 4; loops unwound with "
                 "unwinding assertions" % FUEL,
                 "std::vector semantics as stub preconditions (index inside the vector, non-negative resize)"]


def unit_readvec():
    f = Fn("ASerializable::_recordReadVec<T>", H,
           r"^template <typename T>\s*\nbool ASerializable::_recordReadVec\(std::istream& is,[^{]*?int nvalues\)\s*$",
           csig="bool ASerializable_recordReadVec(std::istream& is, const String& title, VectorT<T>& vec, int nvalues)")
    h = """
int g_fuel; int g_writes;
void vf_harness()
{
  std::istream is; String title; VectorT<double> v;
  int n = nondet_int();                      /* the requested count comes from the file in most callers: arbitrary, also negative or huge */
  g_fuel = %d; g_writes = 0;
  bool r = ASerializable_recordReadVec(is, title, v, n);
  __CPROVER_assert(!r || (v.size() == n && g_writes == n), "success only if all requested values were stored");
  __CPROVER_assert(r || v.size() == 0 || !v.cleared, "on failure the output vector is cleared (or was never filled)");
  VF_REACH();
}
""" % FUEL
    hook = ("extern int g_writes;\n#define VF_ALLOC_HOOK(k) __CPROVER_assert((k) <= g_writes + (1 << 20), \"the destination is not sized from the requested count "
            "before the values were read (a short line cannot force a huge allocation)\")\n")
    return Unit("C09.recordReadVec", [f], mode="cpp", prelude=hook + stub() + "\ntypedef double T;\n", harness=h, unwind=FUEL + 2, checks=[],
                bounded="at most %d good() answers of the stream per call" % FUEL,
                claim=("ASerializable::_recordReadVec<T> on an arbitrary stream and an arbitrary requested count (negative and huge included): no element is "
                       "written outside the destination vector (in particular when the line holds more tokens than requested), the vector is never sized by a "
                       "negative count nor by a count not backed by values read, true is returned only if exactly nvalues values were stored"),
                assumptions=COMMON_ASSUME,
                canaries=[{"fn": "ASerializable::_recordReadVec<T>", "rx": r"if \(nvalues != ecr\)", "rp": "if (nvalues < ecr)", "expect": r"assertion"}])


def unit_readvec_inplace():
    f = Fn("ASerializable::_recordReadVecInPlace<T>", H,
           r"^template<typename T>\s*\nbool ASerializable::_recordReadVecInPlace\(std::istream& is,[^{]*?int nvalues\)\s*$",
           csig="bool ASerializable_recordReadVecInPlace(std::istream& is, const String& title, VecIter& it, int nvalues)")
    h = """
int g_fuel; int g_writes;
void vf_harness()
{
  std::istream is; String title;
  int n = nondet_int(); __CPROVER_assume(0 <= n && n <= 4);
  VecIter it; it.pos = 0; it.limit = n;          /* the caller reserved exactly n cells */
  g_fuel = %d;
  bool r = ASerializable_recordReadVecInPlace(is, title, it, n);
  __CPROVER_assert(!r || it.pos == n, "success only if all requested values were stored");
  VF_REACH();
}
""" % FUEL
    return Unit("C09.recordReadVecInPlace", [f], mode="cpp", prelude=stub() + "\ntypedef double T;\n", harness=h, unwind=FUEL + 2, checks=[],
                bounded="at most %d good() answers of the stream per call, nvalues <= 4" % FUEL,
                claim=("ASerializable::_recordReadVecInPlace<T> on an arbitrary stream: the output iterator never writes beyond the nvalues cells the "
                       "caller reserved; true only if exactly nvalues values were stored"),
                assumptions=COMMON_ASSUME,
                canaries=[{"fn": "ASerializable::_recordReadVecInPlace<T>", "rx": r"if \(nvalues != ecr\)", "rp": "if (nvalues < ecr)", "expect": r"assertion"}])


def unit_tableread():
    f = Fn("ASerializable::_tableRead", SC,
           r"^bool ASerializable::_tableRead\(std::istream &is,\s*\n\s*const String &string,\s*\n\s*int ntab,\s*\n\s*double \*tab\)\s*$",
           rewrites=[(r"_recordReadVec<double>\(", "ASerializable_recordReadVec(", 1)])
    h = """
int g_fuel; int g_writes; bool g_inner_ok; int g_inner_n;
/* contract of _recordReadVec (proved bounded in unit C09.recordReadVec): true only with exactly nvalues stored, else the vector is cleared */
bool ASerializable_recordReadVec(std::istream& is, const String& title, VectorT<double>& vec, int nvalues)
{ g_inner_ok = nondet_bool(); if (g_inner_ok) vec.n = nvalues; else vec.clear(); return g_inner_ok; }
void vf_harness()
{
  std::istream is; String title; double tab[4];
  int n = nondet_int(); __CPROVER_assume(0 <= n && n <= 4);
  g_fuel = %d;
  bool r = ASerializable::_tableRead(is, title, n, tab);
  __CPROVER_assert(r == g_inner_ok, "_tableRead reports success exactly when the record was read completely");
  VF_REACH();
}
""" % FUEL
    return Unit("C09.tableRead", [f], mode="cpp", prelude=stub(), harness=h, unwind=6, checks=[],
                bounded="table length <= 4 (copy loop unwound)",
                claim="ASerializable::_tableRead returns true iff its record was read completely (a failed read is reported as failure), and copies only then",
                assumptions=COMMON_ASSUME[1:2] + ["_recordReadVec enters through its contract"],
                canaries=[{"fn": "ASerializable::_tableRead", "rx": r"for \(int i = 0; i < ntab; i\+\+\)", "rp": "for (int i = 0; i <= ntab; i++)",
                           "expect": r"assertion|unwind"}])


def unit_db_deserialize(full_range=False):
    """full_range=False: count fields in [-32768, 32767], real Db::_loadData (buffer indexing).  full_range=True: arbitrary int counts, the
    buffer-size product enters through VF_mul (no-overflow obligation in division form), Db::_loadData stubbed."""
    f = Fn("Db::_deserialize", "src/Db/Db.cpp", r"^bool Db::_deserialize\(std::istream& is, bool /\*verbose\*/\)\s*$",
           rewrites=[(r"_recordRead<int>\(", "VF_recordRead_int(", 2),
                     (r"_recordReadVec<String>\(", "VF_recordReadVec_String(", 2),
                     (r"_recordReadVecInPlace<double>\(", "VF_recordReadVecInPlace(", 1),
                     (r"VectorDouble::iterator it\(allvalues\.begin\(\)\);", "VecIter it = allvalues.begin();", 1),
                     # the size of the value buffer: the product enters through VF_mul, whose precondition is the no-overflow fact in the
                     # division form the guard establishes (a SAT back end cannot relate a multiplier to a divider, but shares identical terms)
                     (r"VectorDouble allvalues\(nech \* ncol\);", "VectorDouble allvalues(VF_mul(nech, ncol));", 1),
                     # every 'INT_MAX / x' goes through VF_div = an uninterpreted function constrained to equal the real quotient: two textual
                     # occurrences with the same arguments are then the same term (CBMC encodes each '/' with fresh variables, and proving two
                     # quotients equal needs multiplier reasoning that no back end finishes)
                     (r"INT_MAX\s*/\s*(\w+)", r"VF_div(INT_MAX, \1)", "opt"),
                     (r"ELoadBy::SAMPLE", "VF_SAMPLE", 1),
                     (r"for \(const auto& loc: locators\)\s*\{", "for (int vf_i = 0; vf_i < locators.size(); vf_i++) { const String& loc = locators[vf_i];", 1)])
    g = Fn("Db::_loadData", "src/Db/Db.cpp", r"^void Db::_loadData\(const ELoadBy& order,\s*bool flagAddSampleRank,\s*const VectorDouble& tab\)\s*$",
           rewrites=[(r"order == ELoadBy::SAMPLE", "VF_is_sample(order)", 1)])
    pre = stub() + ("#define VF_FULL_RANGE 1\n" if full_range else "") + """
/* contracts of the record readers (C09.recordReadVec / recordReadVecInPlace): value arbitrary; true only if everything was stored */
int __CPROVER_uninterpreted_vfdiv(int, int);
static int VF_div(int a, int b) { int q = __CPROVER_uninterpreted_vfdiv(a, b); __CPROVER_assume(q == a / b); return q; }
#ifdef VF_FULL_RANGE
bool VF_recordRead_int(std::istream& is, const String& title, int& val) { val = nondet_int(); return nondet_bool(); }      /* any int: negative, huge */
/* a * b for the buffer size: requires that the product of the two validated counts cannot overflow, in division form */
int VF_mul(int a, int b)
{ __CPROVER_assert(a >= 0 && b >= 0, "buffer size: both counts were validated as not negative");
  __CPROVER_assert(a == 0 || b == 0 || a <= VF_div(INT_MAX, b) || b <= VF_div(INT_MAX, a), "buffer size: the product of the two counts cannot overflow int (validated by a division test)");
  int r = nondet_int(); __CPROVER_assume(r >= 0 && (a == 0 || b == 0 ? r == 0 : (r >= a && r >= b))); return r; }
#else
bool VF_recordRead_int(std::istream& is, const String& title, int& val) { val = nondet_int(); __CPROVER_assume(-32768 <= val && val <= 32767); return nondet_bool(); }
int VF_mul(int a, int b) { return a * b; }
#endif
bool VF_recordReadVec_String(std::istream& is, const String& title, VectorString& vec, int nvalues)
{ __CPROVER_assert(nvalues >= 0, "resize(n): n is not negative"); bool ok = nondet_bool(); if (ok) vec.n = nvalues; else vec.clear(); return ok; }
bool VF_recordReadVecInPlace(std::istream& is, const String& title, VecIter& it, int nvalues)
#ifdef VF_FULL_RANGE
{ return nondet_bool(); }                    /* buffer positions are not tracked when the product is abstracted */
#else
{ bool ok = nondet_bool(); if (ok) { __CPROVER_assert(it.pos + nvalues <= it.limit, "the caller reserved room for the values read in place"); it.pos = it.pos + nvalues; } return ok; }
#endif
int g_reset_ncol, g_reset_nech, g_reset_calls;
int g_is_grid, g_grid_total;       /* DbGrid overrides resetDims: the number of samples becomes the number of grid nodes whatever the file says */
class Db {
public:
  int _ncol, _nech;
  bool _deserialize(std::istream& is, bool verbose);
  void resetDims(int ncol, int nech) { g_reset_calls++; g_reset_ncol = ncol; g_reset_nech = nech; _ncol = ncol; _nech = g_is_grid ? g_grid_total : nech; }
  int getSampleNumber() const { return _nech; }
  int getColumnNumber() const { return _ncol; }
#ifdef VF_FULL_RANGE
  void _loadData(const ELoadBy& order, bool flagAddSampleRank, const VectorDouble& tab) {}
#else
  void _loadData(const ELoadBy& order, bool flagAddSampleRank, const VectorDouble& tab);
#endif
  void setValueByColIdx(int iech, int icol, double value) { __CPROVER_assert(0 <= iech && iech < _nech && 0 <= icol && icol < _ncol, "cell written inside the table"); }
  void setNameByUID(int iuid, const String& name) {}
  void setLocatorByUID(int iuid, const ELoc& loc, int num) {}
};
ELoadBy VF_SAMPLE;
static bool VF_is_sample(const ELoadBy& o) { return nondet_bool(); }
"""
    pre = pre.replace("struct VecIter {                                   // VectorDouble::iterator",
                      "struct VecIter {                                   // VectorDouble::iterator")
    h = """
int g_fuel; int g_writes;
void vf_harness()
{
  std::istream is; Db db; db._ncol = 0; db._nech = 0;
  g_is_grid = nondet_bool(); g_grid_total = nondet_int(); __CPROVER_assume(0 <= g_grid_total && g_grid_total <= 32767);
  g_fuel = 6; g_writes = 0; g_reset_calls = 0;
  bool r = db._deserialize(is, false);
  __CPROVER_assert(!r || g_reset_calls <= 1, "the table is dimensioned at most once");
  VF_REACH();
}
"""
    if full_range:
        return Unit("C09.Db_deserialize.counts", [f], mode="cpp", prelude=pre, harness=h, unwind=4, checks=["--signed-overflow-check"], backends=("cadical", "minisat"), timeout=240,
                    bounded="at most 3 samples / 3 columns explored by unwinding; the count fields are arbitrary ints",
                    claim=("Db::_deserialize on ARBITRARY int count fields: the value buffer is sized only after both counts were validated as not negative and their "
                           "product as not overflowing int (obligation in the division form 'a <= INT_MAX / b' that the guard establishes)"),
                    assumptions=COMMON_ASSUME[1:2] + ["Route X; the product nech * ncol of the buffer size enters through VF_mul (one must-fire rewrite); its value is "
                                                      "abstracted (any int >= both factors), so buffer indexing is NOT checked here (unit C09.Db_deserialize does, on bounded counts)",
                                                      "Db::_loadData stubbed in this unit"],
                    unwinding_assertions=False,
                    canaries=[{"fn": "Db::_deserialize", "rx": r"nech > INT_MAX / ncol", "rp": "nech > INT_MAX / 2 / ncol * 3", "expect": r"assertion|FAIL"}])
    return Unit("C09.Db_deserialize", [f, g], mode="cpp", prelude=pre, harness=h, unwind=4, checks=["--signed-overflow-check"], backends=("cadical", "minisat"), timeout=240,
                bounded="count fields in [-32768, 32767] (products of two counts then cannot overflow; arbitrary counts: unit C09.Db_deserialize.counts); at most 3 samples / 3 columns explored by unwinding",
                claim=("Db::_deserialize on arbitrary count fields: every container whose size comes from the file is allocated only after the counts "
                       "were validated (not negative, product without int overflow), the in-place reader is given exactly the room that was reserved, names/locators are "
                       "indexed inside their vectors, and Db::_loadData (real text) reads the value buffer only inside it - also when the object is a DbGrid, whose "
                       "resetDims() override sets the number of samples to the number of grid nodes whatever the file says"),
                assumptions=COMMON_ASSUME[1:2] + ["Route X with 6 must-fire rewrites (template-call names, iterator declaration, range-for -> index loop)",
                                                  "record readers enter through their contracts; a valid but huge count (memory exhaustion) is not covered",
                                                  "loops unwound 3 times WITHOUT unwinding assertions for the sample/column loops (partial exploration of the loops; "
                                                  "the allocation obligation precedes them)"],
                unwinding_assertions=False)


def unit_dbgrid_deserialize():
    f = Fn("DbGrid::_deserialize", "src/Db/DbGrid.cpp", r"^bool DbGrid::_deserialize\(std::istream& is, bool verbose\)\s*$",
           rewrites=[(r"_recordRead<int>\(", "VF_read_int(", None), (r"_recordRead<double>\(", "VF_read_double(", None),
                     # expression statement 'a && f();' is mis-parsed as a declaration by CBMC's C++ front end: same expression, cast to void
                     (r"(?m)^(\s*)(ret && Db::_deserialize\(is, verbose\));", r"\1(void) (\2);", "opt")])
    pre = ("""
extern int g_records_ok;
#define VF_ALLOC_HOOK(k) __CPROVER_assert((k) <= g_records_ok || (k) <= (1 << 20), "a container is sized from a file count only if that many records were read or the count was validated against a limit (a short file cannot force a huge allocation)")
""" + stub() + """
int g_records_ok, g_db_called, g_db_ok, g_grid_called, g_grid_rc, g_ndim_read;
bool VF_read_int(std::istream& is, const String& title, int& val) { bool ok = nondet_bool(); if (ok) { val = nondet_int(); g_records_ok = g_records_ok + 1; } return ok; }
bool VF_read_double(std::istream& is, const String& title, double& val) { bool ok = nondet_bool(); if (ok) { val = nondet_double(); g_records_ok = g_records_ok + 1; } return ok; }
/* contract of Db::_deserialize (unit C09.Db_deserialize): may fail; and of gridDefine -> Grid::resetFromVector: returns 1 when a count or mesh is negative */
class Db { public: bool _deserialize(std::istream& is, bool verbose) { g_db_called = g_db_called + 1; g_db_ok = nondet_bool(); return g_db_ok; } };
class DbGrid : public Db {
public:
  bool _deserialize(std::istream& is, bool verbose);
  int gridDefine(const VectorInt& nx, const VectorDouble& dx, const VectorDouble& x0, const VectorDouble& angles)
  { g_grid_called = g_grid_called + 1; g_ndim_read = nx.size();
    __CPROVER_assert(dx.size() == nx.size() && x0.size() == nx.size() && angles.size() == nx.size(), "the four grid vectors have one entry per dimension");
    g_grid_rc = nondet_bool() ? 1 : 0; return g_grid_rc; }
};
""")
    h = """
int g_fuel; int g_writes;
void vf_harness()
{
  std::istream is; DbGrid g;
  g_fuel = 6; g_writes = 0; g_records_ok = 0; g_db_called = 0; g_db_ok = 0; g_grid_called = 0; g_grid_rc = 0; g_ndim_read = 0;
  bool r = g._deserialize(is, false);
  __CPROVER_assert(!r || (g_db_called == 1 && g_db_ok), "success is reported only if the table part (Db::_deserialize) was read successfully");
  __CPROVER_assert(!r || (g_grid_called == 1 && g_grid_rc == 0), "success is reported only if the grid geometry read from the file was accepted by gridDefine");
  __CPROVER_assert(!r || g_ndim_read >= 1, "success is reported only for a grid of at least one dimension");
  VF_REACH();
}
"""
    return Unit("C09.DbGrid_deserialize", [f], mode="cpp", prelude=pre, harness=h, unwind=4, checks=[], backends=("cadical", "minisat"), timeout=240,
                bounded="at most 3 space dimensions explored by unwinding (no unwinding assertions: the dimension count is arbitrary)",
                claim=("DbGrid::_deserialize on arbitrary content: no container is sized by a negative count, nor by a count that is neither backed by records "
                       "already read nor validated against a limit; success is reported only when the grid geometry was accepted (gridDefine returned 0), the "
                       "table part was read successfully and the grid has at least one dimension"),
                assumptions=COMMON_ASSUME[1:2] + ["Route X; _recordRead<T> calls renamed by must-fire rewrites; Db::_deserialize and gridDefine enter through "
                                                  "contracts (may fail arbitrarily)", "allocation rule: an allocation of more than 2^20 elements must be backed by as many records read"],
                unwinding_assertions=False,
                canaries=[{"fn": "DbGrid::_deserialize", "rx": r"return ret;\s*\}\s*$", "rp": "return true; }", "expect": r"assertion"}])


# ---------------------------------------------------------------------------------------------------------------------------
# class-level deserialisers: every container sized from a count in the file
ALLOC_HOOK = ("extern int g_records_ok;\n#define VF_ALLOC_HOOK(k) __CPROVER_assert((k) <= g_records_ok || (k) <= (1 << 20), \"a container is sized from a file count only if "
              "that many records were read or the count was validated against a limit (a short file cannot force a huge allocation)\")\n")
READERS = """
int g_records_ok; int g_lines_ok;
bool VF_read_int(std::istream& is, const String& title, int& val) { bool ok = nondet_bool(); if (ok) { val = nondet_int(); g_records_ok = g_records_ok + 1; } return ok; }
bool VF_read_double(std::istream& is, const String& title, double& val) { bool ok = nondet_bool(); if (ok) { val = nondet_double(); g_records_ok = g_records_ok + 1; } return ok; }
/* contract of _recordReadVec (unit C09.recordReadVec): any requested count is accepted; true only if exactly nvalues values were stored
   (so nvalues >= 0), the vector is empty after a failure; the destination is not sized before the values were read */
bool VF_readVec_double(std::istream& is, const String& title, VectorDouble& vec, int nvalues)
{ bool ok = nondet_bool() && nvalues >= 0; if (ok) { vec.n = nvalues; g_lines_ok = g_lines_ok + 1; g_records_ok = g_records_ok + (nvalues < 1000 ? nvalues : 1000); } else vec.clear(); return ok; }
/* contract of _tableRead(is, title, ntab, tab): writes tab[0..ntab-1] */
int g_tab_room;
bool VF_tableRead(std::istream& is, const String& title, int ntab, double* tab) { __CPROVER_assert(ntab <= g_tab_room, "_tableRead is given a buffer holding ntab values"); return nondet_bool(); }
"""
RWC = [(r"_recordRead<int>\s*\(", "VF_read_int(", "opt"), (r"_recordRead<double>\s*\(", "VF_read_double(", "opt"),
       (r"_recordReadVec<double>\s*\(", "VF_readVec_double(", "opt"), (r"_tableRead\s*\(", "VF_tableRead(", "opt")]


def count_unit(name, fns, classes, harness, claim, canary, unwind=4, checks=("--signed-overflow-check",), alloc_rule=True):
    pre = (ALLOC_HOOK if alloc_rule else "") + stub() + READERS + classes
    return Unit("C09.%s" % name, fns, mode="cpp", prelude=pre, harness="int g_fuel; int g_writes;\n" + harness, unwind=unwind, checks=list(checks),
                backends=("cadical", "minisat"), timeout=240, unwinding_assertions=False,
                bounded="loops over file counts explored for their first %d iterations (no unwinding assertions: the counts are arbitrary)" % (unwind - 1),
                claim=claim, canaries=[canary],
                assumptions=COMMON_ASSUME[3:4] + ["Route X; record readers enter through their contracts (every read may fail, every value read is arbitrary)",
                                                  ("allocation rule: an allocation of more than 2^20 elements must be backed by as many records read" if alloc_rule
                                                   else "a valid but huge count (memory exhaustion) is NOT covered for this function")])


def unit_polyline_deserialize():
    f = Fn("PolyLine2D::_deserialize", "src/Basic/PolyLine2D.cpp", r"^bool PolyLine2D::_deserialize\(std::istream& is, bool /\*verbose\*/\)\s*$",
           csig="bool PolyLine2D::_deserialize(std::istream& is, bool verbose)", rewrites=RWC)
    classes = "class PolyLine2D { public: VectorDouble _x; VectorDouble _y; bool _deserialize(std::istream& is, bool verbose); };\n"
    h = """
void vf_harness()
{
  std::istream is; PolyLine2D p; g_records_ok = 0; g_writes = 0;
  bool r = p._deserialize(is, false);
  __CPROVER_assert(!r || p._x.size() == p._y.size(), "on success both coordinate vectors have the same length");
  VF_REACH();
}
"""
    return count_unit("PolyLine2D_deserialize", [f], classes, h,
                      "PolyLine2D::_deserialize on arbitrary content: the coordinate vectors are never sized by a negative count nor by a count not backed by "
                      "records read; the line buffer is only read after a successful read (index inside the vector)",
                      {"fn": "PolyLine2D::_deserialize", "rx": r"buffer\[1\]", "rp": "buffer[2]", "expect": r"assertion|FAIL"})


def unit_anamhermite_deserialize():
    f = Fn("AnamHermite::_deserialize", "src/Anamorphosis/AnamHermite.cpp", r"^bool AnamHermite::_deserialize\(std::istream& is, bool verbose\)\s*$", rewrites=RWC)
    classes = """
#define TEST 1.234e30
static double* VF_data(VectorDouble& v) { g_tab_room = v.n; return 0; }
class AnamContinuous { public: bool _deserialize(std::istream& is, bool verbose) { return nondet_bool(); } };
class AnamHermite : public AnamContinuous { public: int g_set;
  void setPsiHns(const VectorDouble& psi_hn) {} void setRCoef(double r) {}
  bool _deserialize(std::istream& is, bool verbose); };
"""
    f.rewrites = list(f.rewrites) + [(r"hermite\.data\(\)", "VF_data(hermite)", 1)]
    h = """
void vf_harness()
{
  std::istream is; AnamHermite a; g_records_ok = 0; g_writes = 0; g_tab_room = 0;
  bool r = a._deserialize(is, false);
  VF_REACH();
}
"""
    return count_unit("AnamHermite_deserialize", [f], classes, h,
                      "AnamHermite::_deserialize on arbitrary content: the coefficient vector is never sized by a negative count and _tableRead is given a buffer "
                      "of exactly the number of values it stores (a valid but huge count is NOT covered: the vector must exist before _tableRead fills it)",
                      {"fn": "AnamHermite::_deserialize", "rx": r"if \(ret\) hermite\.resize\(nbpoly\);", "rp": "if (ret) hermite.resize(nbpoly - 1);", "expect": r"assertion|FAIL"}, alloc_rule=False)


def unit_rule_deserialize():
    f = Fn("Rule::_deserialize", "src/LithoRule/Rule.cpp", r"^bool Rule::_deserialize\(std::istream& is, bool /\*verbose\*/\)\s*$",
           csig="bool Rule::_deserialize(std::istream& is, bool verbose)", rewrites=RWC + [(r"ERule::fromValue\(mrule\)", "mrule", 1)])
    classes = """
int g_set_calls, g_set_rc, g_set_size;
class Rule { public: double _rho; int _modeRule;
  int setMainNodeFromNodNames(const VectorInt& nodes) { g_set_calls = g_set_calls + 1; g_set_size = nodes.size(); g_set_rc = nondet_bool() ? 1 : 0; return g_set_rc; }   /* may refuse the node table */
  bool _deserialize(std::istream& is, bool verbose); };
"""
    h = """
void vf_harness()
{
  std::istream is; Rule a; g_records_ok = 0; g_writes = 0; g_set_calls = 0; g_set_rc = 0; g_set_size = 0;
  bool r = a._deserialize(is, false);
  __CPROVER_assert(!r || (g_set_calls == 1 && g_set_rc == 0), "success is reported only if the node table was accepted by setMainNodeFromNodNames");
  __CPROVER_assert(g_set_calls == 0 || g_set_size % 6 == 0, "the node table handed over holds six entries per node");
  VF_REACH();
}
"""
    return count_unit("Rule_deserialize", [f], classes, h,
                      "Rule::_deserialize on arbitrary content: the node table (6 entries per node) is never sized by a negative or unbacked count, its size computation cannot "
                      "overflow, it is indexed inside its bounds, and success is reported only if setMainNodeFromNodNames accepted the table",
                      {"fn": "Rule::_deserialize", "rx": r"for \(int i = 0; ret && i < 6; i\+\+\)", "rp": "for (int i = 0; ret && i < 5; i++)", "expect": r"assertion|FAIL"}, unwind=8)


def unit_table_deserialize():
    f = Fn("Table::_deserialize", "src/Matrix/Table.cpp", r"^bool Table::_deserialize\(std::istream& is, bool /\*verbose\*/\)\s*$",
           csig="bool Table::_deserialize(std::istream& is, bool verbose)", rewrites=RWC)
    classes = """
class Table { public: int _nrows, _ncols;
  void reset(int nrows, int ncols) { __CPROVER_assert(nrows >= 0 && ncols >= 0, "the table is dimensioned with validated (non-negative) counts"); _nrows = nrows; _ncols = ncols; }
  void setValue(int irow, int icol, double value) { __CPROVER_assert(0 <= irow && irow < _nrows && 0 <= icol && icol < _ncols, "cell written inside the table"); }
  bool _deserialize(std::istream& is, bool verbose); };
"""
    h = """
void vf_harness()
{
  std::istream is; Table a; a._nrows = 0; a._ncols = 0; g_records_ok = 0; g_writes = 0;
  bool r = a._deserialize(is, false);
  __CPROVER_assert(!r || (a._nrows >= 0 && a._ncols >= 0), "a table reported as loaded has non-negative dimensions");
  VF_REACH();
}
"""
    return count_unit("Table_deserialize", [f], classes, h,
                      "Table::_deserialize on arbitrary content: the table is dimensioned only with non-negative counts and cells are written inside it "
                      "(a valid but huge dimension is NOT covered)",
                      {"fn": "Table::_deserialize", "rx": r"setValue\(irow, icol, value\)", "rp": "setValue(irow + 1, icol, value)", "expect": r"assertion|FAIL"}, alloc_rule=False)



def unit_dbgrapho_deserialize():
    f = Fn("DbGraphO::_deserialize", "src/Db/DbGraphO.cpp", r"^bool DbGraphO::_deserialize\(std::istream& is, bool verbose\)\s*$", rewrites=RWC)
    classes = """
int g_adds; int g_nech; int g_reset_done;
struct NF_Triplet { int row[4]; int col[4]; int n; NF_Triplet() : n(0) {}
  void add(int irow, int icol, double value)
  { g_adds = g_adds + 1; __CPROVER_assert(g_adds <= g_lines_ok, "an arc is stored only for a line that was read (a short file cannot make the arc list grow)");
    if (n < 4) { row[n] = irow; col[n] = icol; } n = n + 1; }
  int getNumber() const { return n; }
  int getRow(int i) const { __CPROVER_assert(0 <= i && i < n, "arc index inside the list"); return i < 4 ? row[i] : nondet_int(); }
  int getCol(int i) const { __CPROVER_assert(0 <= i && i < n, "arc index inside the list"); return i < 4 ? col[i] : nondet_int(); } };
struct MatrixSparse { void resetFromTriplet(const NF_Triplet& t)
  { g_reset_done = 1;
    for (int i = 0; i < 3; i++) if (i < t.n) __CPROVER_assert(0 <= t.row[i] && t.row[i] < g_nech && 0 <= t.col[i] && t.col[i] < g_nech,
                                                              "the arc matrix is built only from arcs connecting two existing samples (indices from the file validated)"); } };
class Db { public: bool _deserialize(std::istream& is, bool verbose) { g_nech = nondet_int(); __CPROVER_assume(g_nech >= 0); return nondet_bool(); }
  int getSampleNumber() const { return g_nech; } };
class DbGraphO : public Db { public: MatrixSparse _downArcs; bool _deserialize(std::istream& is, bool verbose); };
"""
    h = """
void vf_harness()
{
  std::istream is; DbGraphO g; g_records_ok = 0; g_lines_ok = 0; g_writes = 0; g_adds = 0; g_nech = 0; g_reset_done = 0;
  bool r = g._deserialize(is, false);
  __CPROVER_assert(!r || g_reset_done, "a graph reported as loaded has its arc matrix built");
  VF_REACH();
}
"""
    u = count_unit("DbGraphO_deserialize", [f], classes, h,
                   "DbGraphO::_deserialize on arbitrary content: the arc buffer is read only after a successful read (index inside the vector), an arc is stored "
                   "only for a line that was actually read (the arc list cannot outgrow the file), and the sparse arc matrix is built only from arcs whose two "
                   "indices lie inside the samples of the table part (first 3 arcs tracked)",
                   {"fn": "DbGraphO::_deserialize", "rx": r"tab\[2\]", "rp": "tab[3]", "expect": r"assertion|FAIL"})
    return u


def unit_rule_setmainnode():
    f = Fn("Rule::setMainNodeFromNodNames(nodes)", "src/LithoRule/Rule.cpp", r"^int Rule::setMainNodeFromNodNames\(const VectorInt& nodes\)\s*$")
    pre = """
#define nullptr 0
#define NULL 0
#define messerr(...) ((void)0)
#define THRESH_IDLE 0
#define THRESH_Y1   1
#define THRESH_Y2   2
#define FROM_TYPE(inode)     nodes[6 * (inode) + 0]
#define FROM_RANK(inode)     nodes[6 * (inode) + 1]
#define FROM_VERS(inode)     nodes[6 * (inode) + 2]
#define NODE_TYPE(inode)     nodes[6 * (inode) + 3]
#define NODE_RANK(inode)     nodes[6 * (inode) + 4]
#define FACIES(inode)        nodes[6 * (inode) + 5]
int nondet_int(); bool nondet_bool();
struct String { String() {} String(const char*) {} const char* c_str() const { return ""; } };
#define NMAXN 3
struct VectorInt { int a[6 * NMAXN]; int n; int size() const { return n; }
  int operator[](int i) const { __CPROVER_assert(0 <= i && i < n, "node table indexed inside its bounds"); return a[i]; } };
struct SymbolTab { String s[3]; const String& operator[](int i) const { __CPROVER_assert(0 <= i && i < 3, "symbol table indexed inside its bounds"); String* q = (String*) (s + i); return *q; } };
static SymbolTab symbol;
class Node { public: Node* _r1; Node* _r2; Node(const String& name, int type, int facies) : _r1(0), _r2(0) {} void setR1(Node* n) { _r1 = n; } void setR2(Node* n) { _r2 = n; } };
namespace std {
  template <typename T> struct vector { T a[NMAXN]; int n;
    vector(int k, T v) : n(k) { __CPROVER_assert(0 <= k && k <= NMAXN, "modelled capacity"); for (int i = 0; i < NMAXN; i++) a[i] = v; }
    T& operator[](int i) { __CPROVER_assert(0 <= i && i < n, "parent table indexed inside its bounds"); return a[i]; } };
  struct stringstream { stringstream& operator<<(const String&) { return *this; } stringstream& operator<<(int) { return *this; } String str() const { return String(); } };
}
class Rule { public: Node* _mainNode; int setMainNodeFromNodNames(const VectorInt& nodes); };
"""
    h = """
void vf_harness()
{
  VectorInt nodes; nodes.n = nondet_int(); __CPROVER_assume(0 <= nodes.n && nodes.n <= 6 * NMAXN);
  for (int i = 0; i < 6 * NMAXN; i++) nodes.a[i] = nondet_int();            /* arbitrary node table, as read from a damaged file */
  Rule r; r._mainNode = 0;
  int rc = r.setMainNodeFromNodNames(nodes);
  __CPROVER_assert(rc != 0 || nodes.n < 6 || r._mainNode != 0, "an accepted non-empty node table defines the main node");
  VF_REACH();
}
"""
    return Unit("C09.Rule_setMainNodeFromNodNames", [f], mode="cpp", prelude=pre, harness=h, unwind=6 * NMAXN_RULE + 2, checks=["--pointer-check", "--signed-overflow-check"],
                backends=("cadical", "minisat"), timeout=600, bounded="node tables of at most %d nodes (loops unwound with unwinding assertions)" % NMAXN_RULE,
                ignore=r"pointer relation|pointer_primitives",
                claim=("Rule::setMainNodeFromNodNames(nodes) on an ARBITRARY node table (as decoded from a damaged rule file): every access to the node table and "
                       "to the parent tables stays inside their bounds and no parent pointer is dereferenced while null; an accepted non-empty table defines the main node"),
                assumptions=["Route X; the macros FROM_TYPE..FACIES and THRESH_* are copied from the head of Rule.cpp (lines 25-35) without the outer parentheses of their bodies (CBMC's C++ front end rejects '((nodes[k]) == ...')", "Node, std::vector<Node*> and "
                             "std::stringstream enter through minimal stubs; memory leaks on the error paths are not checked"],
                canaries=[{"fn": "Rule::setMainNodeFromNodNames(nodes)", "rx": r"NODE_RANK\(inode\) > nb_node", "rp": "NODE_RANK(inode) > nb_node + 1", "expect": r"assertion|FAIL"}])

NMAXN_RULE = 3


def units(tier):
    return [unit_rule_setmainnode(), unit_readvec(), unit_readvec_inplace(), unit_tableread(), unit_db_deserialize(), unit_db_deserialize(True), unit_dbgrid_deserialize(),
            unit_polyline_deserialize(), unit_anamhermite_deserialize(), unit_rule_deserialize(), unit_table_deserialize(), unit_dbgrapho_deserialize()]


META = {
    "level": "other",
    "explanation": ("Bounded stand-in (never counted as proved): the record readers are checked against a fully nondeterministic stream, which covers all "
                    "file contents / truncation points / corruptions whose reading needs at most the stated number of stream operations."),
    "trusted_base": ["CBMC 6.11 C++ front end", "stub iostream/String/VectorT classes (stubs/serial_stub.hpp)"],
    "assumptions": [],
    "not_covered": ["CSV tokeniser (csv_table_read)", "grid exchange formats", "Vario / Model / mesh / remaining anamorphosis deserialisers",
                    "memory exhaustion where the callee needs a pre-sized buffer (AnamHermite, Table) or where the count is valid but huge (Db)", "hangs"],
}
MANIFEST = {
    "category": "other",
    "text": ("Bounded check (labelled bounded, not proof) of the neutral-file record readers on a nondeterministic stream (no write outside the destination, "
             "never sized by a negative or unbacked count, success only when all requested values were stored, failure propagated) and of the class-level "
             "deserialisers Db, DbGrid, DbGraphO, PolyLine2D, AnamHermite, Rule (+ arbitrary node tables), Table on arbitrary counts and failing reads."),
    "note": "Bounded by a stream-operation budget / loop unwinding; CSV, grid formats, Vario/Model deserialisers not covered.",
    "design_ref": "DESIGN.md 3 C09",
}
