"""C09 — loaders fail cleanly on malformed or truncated files (record readers of ASerializable; bounded stand-in)."""
import os
from tools.vf import Fn, Unit, VERIF

H = "include/Basic/ASerializable.hpp"
SC = "src/Basic/ASerializable.cpp"
FUEL = 7


def stub():
    return open(os.path.join(VERIF, "stubs", "serial_stub.hpp")).read()


COMMON_ASSUME = ["Route X (C++ front end), function text verbatim except the head: the out-of-class member template head "
                 "'template<typename T> bool ASerializable::f(...)' is replaced by a plain function head with 'typedef double T' "
                 "(CBMC's front end crashes on out-of-class member templates)",
                 "the stream is nondeterministic (every good()/eof() answer and every token arbitrary): over-approximates every file content, "
                 "truncation point and token corruption",
                 "BOUNDED stand-in: at most %d successful good() answers per call (lines + tokens), requested count <= 4; loops unwound with "
                 "unwinding assertions" % FUEL,
                 "std::vector semantics as stub preconditions (index inside the vector, non-negative resize)"]


def unit_readvec():
    f = Fn("ASerializable::_recordReadVec<T>", H,
           r"^template <typename T>\s*\nbool ASerializable::_recordReadVec\(std::istream& is,[^{]*?int nvalues\)\s*$",
           csig="bool ASerializable_recordReadVec(std::istream& is, const String& title, VectorT<T>& vec, int nvalues)")
    h = """
int g_fuel; int g_writes;
void vf_harness()
{
  std::istream is; String title; VectorT<double> v;
  int n = nondet_int(); __CPROVER_assume(0 <= n && n <= 4);
  g_fuel = %d; g_writes = 0;
  bool r = ASerializable_recordReadVec(is, title, v, n);
  __CPROVER_assert(!r || (v.size() == n && g_writes == n), "success only if all requested values were stored");
  __CPROVER_assert(r || v.size() == 0 || !v.cleared, "on failure the output vector is cleared (or was never filled)");
  VF_REACH();
}
""" % FUEL
    return Unit("C09.recordReadVec", [f], mode="cpp", prelude=stub() + "\ntypedef double T;\n", harness=h, unwind=FUEL + 2, checks=[],
                bounded="at most %d good() answers of the stream per call, nvalues <= 4" % FUEL,
                claim=("ASerializable::_recordReadVec<T> on an arbitrary stream: no element is written outside the destination vector (in particular "
                       "when the line holds more tokens than requested), true is returned only if exactly nvalues values were stored"),
                assumptions=COMMON_ASSUME,
                canaries=[{"fn": "ASerializable::_recordReadVec<T>", "rx": r"if \(nvalues != ecr\)", "rp": "if (nvalues < ecr)", "expect": r"assertion"}])


def unit_readvec_inplace():
    f = Fn("ASerializable::_recordReadVecInPlace<T>", H,
           r"^template<typename T>\s*\nbool ASerializable::_recordReadVecInPlace\(std::istream& is,[^{]*?int nvalues\)\s*$",
           csig="bool ASerializable_recordReadVecInPlace(std::istream& is, const String& title, VecIter& it, int nvalues)")
    h = """
int g_fuel; int g_writes;
void vf_harness()
{
  std::istream is; String title;
  int n = nondet_int(); __CPROVER_assume(0 <= n && n <= 4);
  VecIter it; it.pos = 0; it.limit = n;          /* the caller reserved exactly n cells */
  g_fuel = %d;
  bool r = ASerializable_recordReadVecInPlace(is, title, it, n);
  __CPROVER_assert(!r || it.pos == n, "success only if all requested values were stored");
  VF_REACH();
}
""" % FUEL
    return Unit("C09.recordReadVecInPlace", [f], mode="cpp", prelude=stub() + "\ntypedef double T;\n", harness=h, unwind=FUEL + 2, checks=[],
                bounded="at most %d good() answers of the stream per call, nvalues <= 4" % FUEL,
                claim=("ASerializable::_recordReadVecInPlace<T> on an arbitrary stream: the output iterator never writes beyond the nvalues cells the "
                       "caller reserved; true only if exactly nvalues values were stored"),
                assumptions=COMMON_ASSUME,
                canaries=[{"fn": "ASerializable::_recordReadVecInPlace<T>", "rx": r"if \(nvalues != ecr\)", "rp": "if (nvalues < ecr)", "expect": r"assertion"}])


def unit_tableread():
    f = Fn("ASerializable::_tableRead", SC,
           r"^bool ASerializable::_tableRead\(std::istream &is,\s*\n\s*const String &string,\s*\n\s*int ntab,\s*\n\s*double \*tab\)\s*$",
           rewrites=[(r"_recordReadVec<double>\(", "ASerializable_recordReadVec(", 1)])
    h = """
int g_fuel; int g_writes; bool g_inner_ok; int g_inner_n;
/* contract of _recordReadVec (proved bounded in unit C09.recordReadVec): true only with exactly nvalues stored, else the vector is cleared */
bool ASerializable_recordReadVec(std::istream& is, const String& title, VectorT<double>& vec, int nvalues)
{ g_inner_ok = nondet_bool(); if (g_inner_ok) vec.n = nvalues; else vec.clear(); return g_inner_ok; }
void vf_harness()
{
  std::istream is; String title; double tab[4];
  int n = nondet_int(); __CPROVER_assume(0 <= n && n <= 4);
  g_fuel = %d;
  bool r = ASerializable::_tableRead(is, title, n, tab);
  __CPROVER_assert(r == g_inner_ok, "_tableRead reports success exactly when the record was read completely");
  VF_REACH();
}
""" % FUEL
    return Unit("C09.tableRead", [f], mode="cpp", prelude=stub(), harness=h, unwind=6, checks=[],
                bounded="table length <= 4 (copy loop unwound)",
                claim="ASerializable::_tableRead returns true iff its record was read completely (a failed read is reported as failure), and copies only then",
                assumptions=COMMON_ASSUME[1:2] + ["_recordReadVec enters through its contract"],
                canaries=[{"fn": "ASerializable::_tableRead", "rx": r"for \(int i = 0; i < ntab; i\+\+\)", "rp": "for (int i = 0; i <= ntab; i++)",
                           "expect": r"assertion|unwind"}])


def unit_db_deserialize():
    f = Fn("Db::_deserialize", "src/Db/Db.cpp", r"^bool Db::_deserialize\(std::istream& is, bool /\*verbose\*/\)\s*$",
           rewrites=[(r"_recordRead<int>\(", "VF_recordRead_int(", 2),
                     (r"_recordReadVec<String>\(", "VF_recordReadVec_String(", 2),
                     (r"_recordReadVecInPlace<double>\(", "VF_recordReadVecInPlace(", 1),
                     (r"VectorDouble::iterator it\(allvalues\.begin\(\)\);", "VecIter it = allvalues.begin();", 1),
                     (r"ELoadBy::SAMPLE", "VF_SAMPLE", 1),
                     (r"for \(const auto& loc: locators\)\s*\{", "for (int vf_i = 0; vf_i < locators.size(); vf_i++) { const String& loc = locators[vf_i];", 1)])
    pre = stub() + """
/* contracts of the record readers (C09.recordReadVec / recordReadVecInPlace): value arbitrary; true only if everything was stored */
bool VF_recordRead_int(std::istream& is, const String& title, int& val) { val = nondet_int(); __CPROVER_assume(-32768 <= val && val <= 32767); return nondet_bool(); }
bool VF_recordReadVec_String(std::istream& is, const String& title, VectorString& vec, int nvalues)
{ __CPROVER_assert(nvalues >= 0, "resize(n): n is not negative"); bool ok = nondet_bool(); if (ok) vec.n = nvalues; else vec.clear(); return ok; }
bool VF_recordReadVecInPlace(std::istream& is, const String& title, VecIter& it, int nvalues)
{ bool ok = nondet_bool(); if (ok) { __CPROVER_assert(it.pos + nvalues <= it.limit, "the caller reserved room for the values read in place"); it.pos = it.pos + nvalues; } return ok; }
int g_reset_ncol, g_reset_nech, g_reset_calls;
class Db {
public:
  bool _deserialize(std::istream& is, bool verbose);
  void resetDims(int ncol, int nech) { g_reset_calls++; g_reset_ncol = ncol; g_reset_nech = nech; }
  void _loadData(const ELoadBy& order, bool flag, const VectorDouble& tab) { }
  void setNameByUID(int iuid, const String& name) {}
  void setLocatorByUID(int iuid, const ELoc& loc, int num) {}
};
ELoadBy VF_SAMPLE;
"""
    pre = pre.replace("struct VecIter {                                   // VectorDouble::iterator",
                      "struct VecIter {                                   // VectorDouble::iterator")
    h = """
int g_fuel; int g_writes;
void vf_harness()
{
  std::istream is; Db db;
  g_fuel = 6; g_writes = 0; g_reset_calls = 0;
  bool r = db._deserialize(is, false);
  __CPROVER_assert(!r || g_reset_calls <= 1, "the table is dimensioned at most once");
  VF_REACH();
}
"""
    return Unit("C09.Db_deserialize", [f], mode="cpp", prelude=pre, harness=h, unwind=4, checks=["--signed-overflow-check"], backends=("cadical", "minisat"), timeout=240,
                bounded="count fields in [-32768, 32767] (products of two counts then cannot overflow: multiplication facts over the full int range time out on every back end); at most 3 samples / 3 columns explored by unwinding",
                claim=("Db::_deserialize on arbitrary count fields: every container whose size comes from the file is allocated only after the counts "
                       "were validated (not negative, product without int overflow), the in-place reader is given exactly the room that was reserved, names/locators are "
                       "indexed inside their vectors"),
                assumptions=COMMON_ASSUME[1:2] + ["Route X with 6 must-fire rewrites (template-call names, iterator declaration, range-for -> index loop)",
                                                  "record readers enter through their contracts; a valid but huge count (memory exhaustion) is not covered",
                                                  "loops unwound 3 times WITHOUT unwinding assertions for the sample/column loops (partial exploration of the loops; "
                                                  "the allocation obligation precedes them)"],
                unwinding_assertions=False)


def units(tier):
    return [unit_readvec(), unit_readvec_inplace(), unit_tableread(), unit_db_deserialize()]


META = {
    "level": "other",
    "explanation": ("Bounded stand-in (never counted as proved): the record readers are checked against a fully nondeterministic stream, which covers all "
                    "file contents / truncation points / corruptions whose reading needs at most the stated number of stream operations."),
    "trusted_base": ["CBMC 6.11 C++ front end", "stub iostream/String/VectorT classes (stubs/serial_stub.hpp)"],
    "assumptions": [],
    "not_covered": ["CSV tokeniser (csv_table_read)", "grid exchange formats", "class-level _deserialize functions (Db, DbGrid, Vario, Model): "
                    "dimension fields used for allocation", "hangs / memory exhaustion"],
}
MANIFEST = {
    "category": "other",
    "text": ("Bounded check (labelled bounded, not proof) of the neutral-file record readers on a nondeterministic stream: no write outside the destination, "
             "success reported only when all requested values were stored, failure propagated."),
    "note": "Bounded by a stream-operation budget; CSV / grid formats / class-level deserialisers not covered.",
    "design_ref": "DESIGN.md 3 C09",
}
