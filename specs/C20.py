"""C20 — point-in-polygon decisions and polygon selections.

Route C on PolyElem::inside (decision structure, loop closed by invariant), PolyElem::inside3D, Polygons::inside (set rules)."""
from tools.vf import Fn, Unit

PE = "src/Polygon/PolyElem.cpp"
PG = "src/Polygon/Polygons.cpp"

BOOL = "typedef _Bool bool;\n#define true 1\n#define false 0\n"


def AND(xs):
    xs = list(xs)
    return "(" + " && ".join(xs) + ")" if xs else "1"


def OR(xs):
    xs = list(xs)
    return "(" + " || ".join(xs) + ")" if xs else "0"


def unit_inside_decision(npmax):
    """decision structure of the ray casting: half-open crossing rule per edge, vertex and horizontal-edge rules, parity"""
    prelude = BOOL + """
#define NPMAX %d
int P_n;                                   /* getNPoints() */
#define getNPoints() (P_n)
#define getX(i) (W_x[i])                   /* PolyLine2D::getX(i) { return _x[i]; } */
#define getY(i) (W_y[i])
/* abscissa of edge k at the ordinate of the point: the arithmetic expression of the source is kept symbolic here — an arbitrary
   value W_xi[k] per edge, the same in code and specification; its algebra is the subject of unit C20.inside.abscissa */
#define XINTER(k) (W_xi[k])
/* contribution of edge k for the point (xx,yy): counts iff ylow < yy <= yhigh and the edge passes strictly right of the point;
   at yy == yhigh the abscissa is that of the upper vertex */
#define YLO(k) (W_y[k] < W_y[(k) + 1] ? W_y[k] : W_y[(k) + 1])
#define YHI(k) (W_y[k] < W_y[(k) + 1] ? W_y[(k) + 1] : W_y[k])
#define XHI(k) (W_y[k] < W_y[(k) + 1] ? W_x[(k) + 1] : W_x[k])
#define XAT(k, yy) ((yy) == YHI(k) ? XHI(k) : XINTER(k))
#define CROSS(k, xx, yy) ((W_y[k] != W_y[(k) + 1]) && YLO(k) < (yy) && (yy) <= YHI(k) && XAT(k, yy) > (xx))
/* the point lies on edge k according to the code's own boundary predicates (such points are outside the property) */
#define ONEDGE(k, xx, yy) ( \\
   (W_y[k] == W_y[(k) + 1] && (yy) == W_y[k] && (((xx) > W_x[k] && (xx) < W_x[(k) + 1]) || ((xx) < W_x[k] && (xx) > W_x[(k) + 1]))) || \\
   (W_y[k] != W_y[(k) + 1] && YLO(k) < (yy) && (yy) < YHI(k) && XINTER(k) == (xx)) || \\
   ((xx) == W_x[k] && (yy) == W_y[k]) || ((xx) == W_x[(k) + 1] && (yy) == W_y[(k) + 1]) || \\
   (XAT(k, yy) != XAT(k, yy)) )
""" % npmax
    ncross = lambda upto: " + ".join("((%d < (%s)) & CROSS(%d, xx, yy))" % (k, upto, k) for k in range(npmax - 1))
    contract = "\n".join([
        "__CPROVER_requires(2 <= P_n && P_n <= NPMAX && xx == xx && yy == yy)",
        "__CPROVER_requires(%s)" % AND("(W_x[%d] == W_x[%d] && W_y[%d] == W_y[%d])" % (k, k, k, k) for k in range(npmax)),
        "__CPROVER_requires(%s)" % AND("(%d >= P_n - 1 || !ONEDGE(%d, xx, yy))" % (k, k) for k in range(npmax - 1)),
        "__CPROVER_assigns()",
        "__CPROVER_ensures(__CPROVER_return_value == (((%s) %% 2) != 0))" % ncross("P_n - 1"),
    ])
    loop = "\n".join([
        "__CPROVER_assigns(j, inter, xj0, xj1, yj0, yj1, dx, dy, xinter)",
        "__CPROVER_loop_invariant(0 <= j && j <= np - 1 && np == P_n)",
        "__CPROVER_loop_invariant(inter == %s)" % ncross("j"),
        "__CPROVER_decreases(np - j)",
    ])
    f = Fn("PolyElem::inside", PE, r"^bool PolyElem::inside\(const VectorDouble& coor\)\s*$",
           csig="bool PolyElem_inside(double xx_in, double yy_in)", contract=contract.replace("xx", "xx_in").replace("yy", "yy_in"),
           loops={1: loop},
           rewrites=[(r"double xx = coor\[0\];", "double xx = xx_in;", 1), (r"double yy = coor\[1\];", "double yy = yy_in;", 1),
                     (r"xinter = \(dx \* yy \+ dy \* xj0 - dx \* yj0\) / dy;", "xinter = XINTER(j);", 1)])
    harness = """
void vf_harness(void)
{
  vf_havoc_inputs();
  P_n = W_n;
  PolyElem_inside(W_px, W_py);
  VF_REACH();
}
"""
    return Unit("C20.inside.decision", [f], prelude=prelude, harness=harness,
                inputs=[("double", "W_x", "NPMAX"), ("double", "W_y", "NPMAX"), ("double", "W_xi", "NPMAX"), ("int", "W_n"), ("double", "W_px"), ("double", "W_py")],
                defines={"NPMAX": npmax}, enforce="PolyElem_inside", backends=("minisat", "cadical"), timeout=900, split=True,
                claim=("PolyElem::inside, for every point off the boundary (by the code's own boundary predicates): the answer is the parity of the number "
                       "of edges with ylow < y <= yhigh whose abscissa at y lies strictly right of the point (abscissa of the upper vertex when level "
                       "with it; horizontal edges never count) — i.e. the half-open crossing rule incl. all vertex cases; loop closed by invariant "
                       "(vertices <= %d)" % npmax),
                assumptions=["at most %d vertices (quantifier range; the loop is closed by its invariant)" % npmax,
                             "the abscissa expression (dx*yy + dy*xj0 - dx*yj0)/dy is replaced by an arbitrary per-edge value W_xi[j] shared by code and "
                             "specification (1 must-fire rewrite); its algebra is checked by unit C20.inside.abscissa",
                             "parity of half-open crossings <=> geometric inclusion for simple polygons (Jordan curve argument) is mathematics, not code",
                             "coordinates are not NaN"],
                canaries=[
                    {"fn": "PolyElem::inside", "rx": r"if \(yy == yj1 && yj1 > yj0 && xx < xj1\) inter\+\+;", "rp": "if (yy == yj1 && yj1 >= yj0 && xx < xj1) inter++;",
                     "expect": r"PolyElem_inside\.(postcondition|loop_invariant_step)"},
                    {"fn": "PolyElem::inside", "rx": r"if \(yy == yj0 && yj0 > yj1 && xx < xj0\) inter\+\+;", "rp": ";",
                     "expect": r"PolyElem_inside\.(postcondition|loop_invariant_step)"},
                    {"fn": "PolyElem::inside", "rx": r"if \(xinter > xx\) inter\+\+;", "rp": "if (xinter < xx) inter++;",
                     "expect": r"PolyElem_inside\.(postcondition|loop_invariant_step)"},
                    {"fn": "PolyElem::inside", "rx": r"return \(\(inter % 2\) != 0\);", "rp": "return (inter != 0);",
                     "expect": r"PolyElem_inside\.postcondition"},
                ])


def unit_inside_abscissa():
    """the numerator of the abscissa is dy*x0 + dx*(y - y0) as a real polynomial: both sides are multilinear in
    (x0,y0,x1,y1,y), hence equal everywhere iff equal on {0,1}^5; on small integers double arithmetic is exact."""
    f = Fn("PolyElem::inside", PE, r"^bool PolyElem::inside\(const VectorDouble& coor\)\s*$",
           csig="double vf_code_numerator(double xj0, double yj0, double xj1, double yj1, double yy)",
           rewrites=[(r"(?s)\A\{.*?xinter = \(([^;()]*)\) / dy;.*\}\s*\Z",
                      r"{ double dx = xj1 - xj0; double dy = yj1 - yj0; return (\1); }", 1)])
    harness = """
void vf_harness(void)
{
  vf_havoc_inputs();
  for (int k = 0; k < 5; k++) __CPROVER_assume(-2 <= W_v[k] && W_v[k] <= 2);
  double x0 = W_v[0], y0 = W_v[1], x1 = W_v[2], y1 = W_v[3], y = W_v[4];
  double n = vf_code_numerator(x0, y0, x1, y1, y);
  /* published line-intersection formula: x(y) = x0 + (y - y0) * (x1 - x0) / (y1 - y0)  =>  numerator (y1-y0)*x0 + (x1-x0)*(y-y0) */
  __CPROVER_assert(n == (y1 - y0) * x0 + (x1 - x0) * (y - y0), "abscissa numerator equals the line-intersection formula on the integer grid [-2,2]^5");
  VF_REACH();
}
"""
    return Unit("C20.inside.abscissa", [f], prelude=BOOL, harness=harness, inputs=[("int", "W_v", "5")], unwind=6,
                claim=("the abscissa expression of PolyElem::inside — extracted from the source text by a capturing rule — has the numerator of the "
                       "line-intersection formula x0 + (y-y0)(x1-x0)/(y1-y0): both are multilinear polynomials agreeing on the whole integer grid "
                       "[-2,2]^5 (exact double arithmetic there), hence identical as real polynomials"),
                assumptions=["machine arithmetic treated as mathematical away from the grid (rounding of the computed abscissa is not analysed)",
                             "the division by dy (non-zero on that branch) is read off the same source line"],
                canaries=[{"fn": "PolyElem::inside", "rx": r"xinter = \(dx \* yy \+ dy \* xj0 - dx \* yj0\) / dy;",
                           "rp": "xinter = (dx * yy + dy * xj0 - dx * yj1) / dy;", "expect": r"assertion"}])


def unit_inside3d():
    f = Fn("PolyElem::inside3D", PE, r"^bool PolyElem::inside3D\(double zz\) const\s*$", csig="bool PolyElem_inside3D(double zz)")
    ffff = Fn("FFFF", "src/Basic/Utilities.cpp", r"^bool FFFF\(double value\)\s*$",
              rewrites=[(r"std::isnan\(value\)", "(value != value)", 1), (r"std::isinf\(value\)", "(value == INFINITY || value == -INFINITY)", 1)])
    harness = """
void vf_harness(void)
{
  vf_havoc_inputs();
  _zmin = W_zmin; _zmax = W_zmax;
  bool r = PolyElem_inside3D(W_z);
  int und_z = FFFF(W_z), und_lo = FFFF(W_zmin), und_hi = FFFF(W_zmax);
  __CPROVER_assert(r == (und_z || ((und_lo || W_z >= W_zmin) && (und_hi || W_z <= W_zmax))),
                   "vertical test: an undefined ordinate or undefined limits never exclude; defined limits are inclusive");
  VF_REACH();
}
"""
    return Unit("C20.inside3D", [ffff, f], prelude=BOOL + "#define TEST_COMP 1.000e30\n#ifndef INFINITY\n#define INFINITY (__builtin_inf())\n#endif\ndouble _zmin, _zmax;\n",
                harness=harness, inputs=[("double", "W_z"), ("double", "W_zmin"), ("double", "W_zmax")],
                claim="PolyElem::inside3D: loop-free, all doubles: inside iff the ordinate is undefined or within every defined (inclusive) limit",
                canaries=[{"fn": "PolyElem::inside3D", "rx": r"zz > _zmax", "rp": "zz >= _zmax", "expect": r"assertion"}])


def unit_polygons_inside(pmax):
    cnt = " + ".join("((%d < P_npol && ((!flag3d) || W_in3[%d] != 0) && W_in2[%d] != 0) ? 1 : 0)" % (k, k, k) for k in range(pmax))
    cntj = " + ".join("((%d < ipol && W_in3[%d] != 0 && W_in2[%d] != 0) ? 1 : 0)" % (k, k, k) for k in range(pmax))
    cntj2 = " + ".join("((%d < ipol && W_in2[%d] != 0) ? 1 : 0)" % (k, k) for k in range(pmax))
    contract = "\n".join([
        "__CPROVER_requires(0 <= P_npol && P_npol <= PMAX && 0 <= coor_size && coor_size <= 3)",
        "__CPROVER_assigns()",
        # documented rules: nested = odd count, otherwise union; vertical limits of a polyelem only qualify that polyelem
        "__CPROVER_ensures(flag_nested ==> (__CPROVER_return_value == (((%s) %% 2) != 0)))" % cnt.replace("flag3d", "(coor_size > 2)"),
        "__CPROVER_ensures(!flag_nested ==> (__CPROVER_return_value == ((%s) > 0)))" % cnt.replace("flag3d", "(coor_size > 2)"),
    ])
    mk = lambda c: "\n".join([
        "__CPROVER_assigns(ipol%s)" % (", number" if "number" in c else ""),
        "__CPROVER_loop_invariant(0 <= ipol && ipol <= P_npol && flag3d == (coor_size > 2))",
        "__CPROVER_loop_invariant(%s)" % c,
        "__CPROVER_decreases(P_npol - ipol)"])
    L1 = mk("number == (flag3d ? (%s) : (%s))" % (cntj, cntj2))
    L2 = mk("(flag3d ? (%s) : (%s)) == 0" % (cntj, cntj2))
    f = Fn("Polygons::inside", PG, r"^bool Polygons::inside\(const VectorDouble& coor, bool flag_nested\) const\s*$",
           csig="bool Polygons_inside(int coor_size, bool flag_nested)", contract=contract, loops={1: L1, 2: L2},
           rewrites=[(r"\(int\) coor\.size\(\)", "coor_size", 1),
                     (r"PolyElem polyelem = getClosedPolyElem\(ipol\);", "", 2),
                     (r"polyelem\.inside3D\(coor\[2\]\)", "W_in3[ipol]", 2),
                     (r"polyelem\.inside\(coor\)", "W_in2[ipol]", 2)])
    harness = """
void vf_harness(void)
{
  vf_havoc_inputs();
  P_npol = W_npol;
  Polygons_inside(W_size, W_nested);
  VF_REACH();
}
"""
    native = r"""
static void vf_native(void)
{
  P_npol = W_npol;
  if (!(0 <= P_npol && P_npol <= PMAX && 0 <= W_size && W_size <= 3)) exit(77);
  bool r = Polygons_inside(W_size, W_nested);
  int cnt = 0;
  for (int k = 0; k < P_npol; k++) if ((W_size <= 2 || W_in3[k]) && W_in2[k]) cnt++;
  if (W_nested) __CPROVER_assert(r == (cnt % 2 != 0), "nested rule: inside iff an odd number of polyelems (2-D test and their own vertical limits) contain the point");
  else __CPROVER_assert(r == (cnt > 0), "union rule: inside iff some polyelem (2-D test and its own vertical limits) contains the point");
}
"""
    return Unit("C20.Polygons.inside", [f], prelude=BOOL + "#define PMAX %d\nint P_npol;\n#define getPolyElemNumber() (P_npol)\n" % pmax,
                harness=harness, native=native, pre_inputs=BOOL,
                inputs=[("int", "W_in2", str(pmax)), ("int", "W_in3", str(pmax)), ("int", "W_npol"), ("int", "W_size"), ("bool", "W_nested")],
                enforce="Polygons_inside",
                claim=("Polygons::inside follows the documented set rules over the per-polyelem tests (callee results as arbitrary booleans): union = "
                       "some polyelem contains the point, nested = an odd number do; with a third coordinate a polyelem counts only if its own "
                       "vertical limits admit the point; both loops closed by invariants (polyelems <= %d)" % pmax),
                assumptions=["at most %d polyelems (quantifier range)" % pmax,
                             "PolyElem::inside / inside3D enter through their results W_in2[k] / W_in3[k] (contracts proved in the other units); "
                             "getClosedPolyElem(ipol) closes an open outline (PolyElem::closePolyElem, not under contract here)"],
                canaries=[{"fn": "Polygons::inside", "rx": r"if \(number % 2 != 0\) return true;", "rp": "if (number != 0) return true;",
                           "expect": r"Polygons_inside\.postcondition"}])


def unit_polygon_distance():
    """dbPolygonDistance, option polin: the inside / outside decision of a sample is asked at the location of THAT sample"""
    pre = """
#define nullptr 0
#define TEST 1.234e30
#define MIN(a,b) (((a) < (b)) ? (a) : (b))
#define ABS(a) (((a) < 0.) ? -(a) : (a))
int nondet_int(); bool nondet_bool(); double nondet_double();
static bool FFFF(double v) { return v > 1.0e30 || v != v; }
#define NS 2
/* VectorDouble with the same NON-explicit (count, value) constructor as VectorNumT: a double converts to a vector of that many zeros */
struct VectorDouble { double a[4]; int n;
  VectorDouble() : n(0) {} VectorDouble(int count, double value = 0.) : n(count) { for (int i = 0; i < 4; i++) a[i] = value; }
  int size() const { return n; }
  double& operator[](int i) { __CPROVER_assert(0 <= i && i < n && i < 4, "vector index inside the vector"); return a[i]; }
  double operator[](int i) const { __CPROVER_assert(0 <= i && i < n && i < 4, "vector index inside the vector"); return a[i]; } };
struct VectorString {}; struct ELoc { int v; }; static ELoc ELOC_Z;      /* (static data members crash CBMC's front end) */
double __CPROVER_uninterpreted_coord(int, int);
int g_cur_iech; int g_inside_calls, g_inside_bad;
class Db { public: double arr[NS];
  int getSampleNumber() const { return NS; } int addColumnsByConstant(int n, double v) { for (int i = 0; i < NS; i++) arr[i] = v; return 7; }
  bool isActive(int iech) const { return nondet_bool(); }
  double getCoordinate(int iech, int idim) const { g_cur_iech = iech; return __CPROVER_uninterpreted_coord(iech, idim); }
  double getArray(int iech, int iptr) const { __CPROVER_assert(0 <= iech && iech < NS, "sample rank"); return arr[iech]; }
  void setArray(int iech, int iptr, double v) { __CPROVER_assert(0 <= iech && iech < NS, "sample rank"); arr[iech] = v; } };
struct PolyPoint2D { double dist; };
struct PolyElem { VectorDouble getX() const { return VectorDouble(); } VectorDouble getY() const { return VectorDouble(); } };
struct PolyLine2D { PolyLine2D(const VectorDouble&, const VectorDouble&) {} PolyPoint2D getPLIndex(const VectorDouble& t) const { PolyPoint2D p; p.dist = nondet_double(); return p; } };
class Polygons { public: PolyElem e;
  int getPolyElemNumber() const { return 1; } const PolyElem& getPolyElem(int i) const { PolyElem* q = (PolyElem*) &e; return *q; }
  /* Polygons::inside(coor, flag_nested) (contract: unit C20.Polygons.inside): here it records whether it is asked about the current sample */
  bool inside(const VectorDouble& coor, bool flag_nested = false) const
  { g_inside_calls++;
    if (!(coor.n == 2 && coor.a[0] == __CPROVER_uninterpreted_coord(g_cur_iech, 0) && coor.a[1] == __CPROVER_uninterpreted_coord(g_cur_iech, 1) && !flag_nested)) g_inside_bad = 1;
    return nondet_bool(); } };
struct NamingConvention { void setNamesAndLocators(Db*, const VectorString&, const ELoc&, int, Db*, int) const {} };
"""
    f = Fn("dbPolygonDistance", PG, r"^int dbPolygonDistance\(Db \*db,[^{]*?const NamingConvention &namconv\)\s*$",
           rewrites=[  # what overload resolution makes of 'inside(double, double)': vector of (size_t) x zeros, flag = (y != 0)
                     (r"polygon->inside\(db->getCoordinate\(iech, 0\),\s*db->getCoordinate\(iech, 1\)\)",
                      "polygon->inside(VectorDouble((int) db->getCoordinate(iech, 0)), db->getCoordinate(iech, 1) != 0.)", "opt"),
                     (r"ELoc::Z\b", "ELOC_Z", "opt")])
    h = """
void vf_harness()
{
  Db db; Polygons poly; NamingConvention nc; g_inside_calls = 0; g_inside_bad = 0; g_cur_iech = -1;
  __CPROVER_assume(__CPROVER_uninterpreted_coord(0, 0) == __CPROVER_uninterpreted_coord(0, 0) && __CPROVER_uninterpreted_coord(1, 0) == __CPROVER_uninterpreted_coord(1, 0));   /* defined coordinates */
  __CPROVER_assume(__CPROVER_uninterpreted_coord(0, 1) == __CPROVER_uninterpreted_coord(0, 1) && __CPROVER_uninterpreted_coord(1, 1) == __CPROVER_uninterpreted_coord(1, 1));
  int polin = nondet_int(), scale = nondet_int(); __CPROVER_assume(-3 <= polin && polin <= 3 && -1 <= scale && scale <= 1);
  int rc = dbPolygonDistance(&db, &poly, nondet_double(), scale, polin, nc);
  __CPROVER_assert(!g_inside_bad, "every inside / outside decision is asked for the two coordinates of the sample being processed (union rule)");
  __CPROVER_assert(polin == 0 || g_inside_calls >= 1, "with the polygon option the decision is actually taken");
  VF_REACH();
}
"""
    return Unit("C20.dbPolygonDistance.inside_args", [f], mode="cpp", prelude=pre, harness=h, unwind=NS_PD + 2, checks=[], backends=("minisat", "cadical"), timeout=600,
                bounded="2 samples, 1 polygon element (unwinding assertions)",
                claim=("dbPolygonDistance with the polygon option: each inside / outside decision handed to Polygons::inside concerns a vector of exactly the two "
                       "coordinates of the sample being processed"),
                assumptions=["Route X; Db, PolyLine2D (distance) and Polygons::inside are stubs; VectorDouble keeps the non-explicit (count, value) constructor of VectorNumT so "
                             "that implicit conversions stay visible"],
                canaries=[{"fn": "dbPolygonDistance", "rx": r"target\[1\] = db->getCoordinate\(iech, 1\);\s*\n\s*int inside", "rp": "target[1] = db->getCoordinate(iech, 0);\n      int inside", "expect": r"assertion"}])

NS_PD = 4


def units(tier):
    npmax = 6 if tier == "quick" else 9
    return [unit_inside_decision(npmax), unit_inside_abscissa(), unit_inside3d(), unit_polygons_inside(4 if tier == "quick" else 6), unit_polygon_distance()]


META = {
    "level": "proof",
    "explanation": "Decision structure of the ray casting and the set rules proved for all inputs; geometric meaning of the parity rule is trusted mathematics.",
    "trusted_base": ["CBMC 6.11", "Jordan-curve parity argument for simple polygons", "uninterpreted abscissa function (algebra checked separately on the integer grid)"],
    "assumptions": [],
    "not_covered": ["db_polygon sample loop (which coordinates reach Polygons::inside)", "convex-hull construction (Polygons::createFromDb)",
                    "rounding of the computed abscissa near an edge"],
}
MANIFEST = {
    "category": "proof",
    "text": ("Contracts on PolyElem::inside (half-open crossing rule incl. vertex cases, loop invariant over all edges), inside3D and "
             "Polygons::inside (union / nested / vertical limits), discharged for all coordinates off the boundary."),
    "note": "Trusted: CBMC, Jordan-curve argument, abscissa algebra treated as real arithmetic.",
    "design_ref": "DESIGN.md 3 C20",
}
