"""C16 — grid geometry conversions are mutually inverse (rank <-> indices; order/pairing of the coordinate operations)."""
import os
from tools.vf import Fn, Unit, VERIF

GR = "src/Basic/Grid.cpp"
RO = "src/Basic/Rotation.cpp"
BOOL = "typedef _Bool bool;\n#define true 1\n#define false 0\n"
GRID_PRE = BOOL + """
#define NDMAX 3
int _nDim; int _nx[NDMAX];
#define messerr(...) ((void)0)
"""


def prodnx(minus="0"):
    return "((_nDim >= 1 ? (long)(_nx[0] - %s) : 1L) * (_nDim >= 2 ? (long)(_nx[1] - %s) : 1L) * (_nDim >= 3 ? (long)(_nx[2] - %s) : 1L))" % (minus, minus, minus)


def mixed(ind, minus="0"):
    # rank = ind[0] + n0 * (ind[1] + n1 * ind[2])
    return ("((long)%s[0] + (_nDim >= 2 ? (long)(_nx[0] - %s) * ((long)%s[1] + (_nDim >= 3 ? (long)(_nx[1] - %s) * (long)%s[2] : 0L)) : 0L))"
            % (ind, minus, ind, minus, ind))


def req_grid(nxmax):
    return "__CPROVER_requires(1 <= _nDim && _nDim <= NDMAX && %s)" % " && ".join("(1 <= _nx[%d] && _nx[%d] <= %d)" % (d, d, nxmax) for d in range(3))


def inrange(ind, minus="0"):
    return "(" + " && ".join("(%d >= _nDim || (0 <= %s[%d] && %s[%d] < _nx[%d] - %s))" % (d, ind, d, ind, d, d, minus) for d in range(3)) + ")"


def i2r_contract(nxmax):
    return "\n".join([
        req_grid(nxmax), "__CPROVER_assigns()",
        "__CPROVER_ensures(!%s ==> __CPROVER_return_value == -1)" % inrange("indice"),
        "__CPROVER_ensures(%s ==> ((long)__CPROVER_return_value == %s && 0 <= __CPROVER_return_value && (long)__CPROVER_return_value < %s))"
        % (inrange("indice"), mixed("indice"), prodnx()),
    ])


def r2i_contract(nxmax):
    m = "(minusOne ? 1 : 0)"
    return "\n".join([
        req_grid(nxmax),
        "__CPROVER_requires(%s)" % " && ".join("(%d >= _nDim || _nx[%d] - %s >= 1)" % (d, d, m) for d in range(3)),
        "__CPROVER_requires(0 <= rank && (long)rank < %s)" % prodnx(m),
        "__CPROVER_assigns(__CPROVER_object_upto(indices, NDMAX * sizeof(int)))",
        "__CPROVER_ensures(%s)" % inrange("indices", m),
        "__CPROVER_ensures((long)rank == %s)" % mixed("indices", m),
    ])


I2R = dict(name="Grid::indiceToRank", file=GR, sig=r"^int Grid::indiceToRank\(const constvectint indice\) const\s*$",
           csig="int Grid_indiceToRank(const int* indice)")
R2I = dict(name="Grid::rankToIndice", file=GR, sig=r"^void Grid::rankToIndice\(int rank, vectint indices, bool minusOne\) const\s*$",
           csig="void Grid_rankToIndice(int rank, int* indices, bool minusOne)", rewrites=[(r"_nx\.data\(\)", "_nx", 1)])


def unit_i2r(nxmax):
    f = Fn(contract=i2r_contract(nxmax), **I2R)
    h = """
void vf_harness(void)
{
  vf_havoc_inputs();
  _nDim = W_ndim; for (int d = 0; d < NDMAX; d++) _nx[d] = W_nx[d];
  Grid_indiceToRank(W_ind);
  VF_REACH();
}
"""
    return Unit("C16.indiceToRank", [f], prelude=GRID_PRE, harness=h, inputs=[("int", "W_ndim"), ("int", "W_nx", "3"), ("int", "W_ind", "3")],
                enforce="Grid_indiceToRank", unwind=4, backends=("cadical", "minisat"), timeout=1500,
                bounded="space dimension <= 3 (loop unwound 3 times with unwinding assertions — the dimensions the property quantifies over); node counts per axis <= %d" % nxmax,
                claim=("Grid::indiceToRank returns -1 iff some index is outside [0,nx[d]); otherwise the mixed-radix rank "
                       "i0 + nx0*(i1 + nx1*i2), which lies in [0, nx0*nx1*nx2); no signed overflow"),
                assumptions=["ndim <= 3 and nx[d] <= %d (stated bound)" % nxmax, "constvectint (std::span<const int>) -> const int*"],
                canaries=[{"fn": "Grid::indiceToRank", "rx": r"indice\[idim\] >= _nx\[idim\]", "rp": "indice[idim] > _nx[idim]",
                           "expect": r"Grid_indiceToRank\.postcondition"}])


def unit_r2i(nxmax):
    f = Fn(contract=r2i_contract(nxmax), **R2I)
    h = """
void vf_harness(void)
{
  vf_havoc_inputs();
  _nDim = W_ndim; for (int d = 0; d < NDMAX; d++) _nx[d] = W_nx[d];
  Grid_rankToIndice(W_rank, W_ind, W_minus);
  VF_REACH();
}
"""
    return Unit("C16.rankToIndice", [f], prelude=GRID_PRE, harness=h, pre_inputs=BOOL,
                inputs=[("int", "W_ndim"), ("int", "W_nx", "3"), ("int", "W_ind", "3"), ("int", "W_rank"), ("bool", "W_minus")],
                enforce="Grid_rankToIndice", unwind=4, backends=("cadical", "minisat"), timeout=1500,
                bounded="space dimension <= 3 (unwinding assertions), node counts per axis <= %d" % nxmax,
                claim=("Grid::rankToIndice for 0 <= rank < prod(nx - minus): every index lies in [0, nx[d]-minus) and the mixed-radix sum of the indices "
                       "is the rank; no division by zero, no overflow"),
                assumptions=["ndim <= 3 and nx[d] <= %d (stated bound)" % nxmax],
                canaries=[{"fn": "Grid::rankToIndice", "rx": r"rank -= newind \* nval;", "rp": "rank -= newind;",
                           "expect": r"Grid_rankToIndice\.postcondition"}])


def unit_roundtrip(nxmax):
    fi = Fn(contract=i2r_contract(nxmax), **I2R)
    fr = Fn(contract=r2i_contract(nxmax), **R2I)
    h = """
void vf_harness(void)
{
  vf_havoc_inputs();
  _nDim = W_ndim; for (int d = 0; d < NDMAX; d++) _nx[d] = W_nx[d];
  __CPROVER_assume(1 <= _nDim && _nDim <= NDMAX && %s);
  if (W_dir) {
    /* rank -> indices -> rank */
    __CPROVER_assume(0 <= W_rank && (long)W_rank < %s);
    int ind[NDMAX];
    Grid_rankToIndice(W_rank, ind, 0);
    int back = Grid_indiceToRank(ind);
    __CPROVER_assert(back == W_rank, "rank -> indices -> rank is the identity");
  } else {
    /* indices -> rank -> indices */
    __CPROVER_assume(%s);
    int r = Grid_indiceToRank(W_ind);
    int ind2[NDMAX];
    Grid_rankToIndice(r, ind2, 0);
    for (int d = 0; d < NDMAX; d++) if (d < _nDim) __CPROVER_assert(ind2[d] == W_ind[d], "indices -> rank -> indices is the identity");
  }
  VF_REACH();
}
""" % (" && ".join("(1 <= _nx[%d] && _nx[%d] <= %d)" % (d, d, nxmax) for d in range(3)), prodnx(), inrange("W_ind"))
    return Unit("C16.lemma.rank_indices_roundtrip", [fi, fr], prelude=GRID_PRE, harness=h, pre_inputs=BOOL,
                inputs=[("int", "W_ndim"), ("int", "W_nx", "3"), ("int", "W_ind", "3"), ("int", "W_rank"), ("bool", "W_dir")],
                replace=["Grid_indiceToRank", "Grid_rankToIndice"], unwind=4, backends=("cadical", "minisat"), timeout=1500,
                bounded="space dimension <= 3, node counts per axis <= %d" % nxmax,
                claim="lemma over the two contracts (both callees replaced by their contracts): rank->indices->rank and indices->rank->indices are identities",
                assumptions=["ndim <= 3 and nx[d] <= %d" % nxmax])


def unit_coord_order():
    """order and pairing of the operations in the two coordinate conversions (floating-point values are not compared)"""
    pre = BOOL + """
#define NDMAX 3
#define messerr(...) ((void)0)
int _nDim; int _nx[NDMAX]; double _dx[NDMAX], _x0[NDMAX], _work1[NDMAX], _work2[NDMAX];
/* ghost: which rotation was applied, to what, giving what */
int g_rot_calls, g_rot_dir; double g_rot_in[NDMAX];
static void Rotation_rotateDirect(const double* in, double* out)
{ g_rot_calls++; g_rot_dir = 1; for (int d = 0; d < NDMAX; d++) { g_rot_in[d] = in[d]; out[d] = W_rot_out[d]; } }
static void Rotation_rotateInverse(const double* in, double* out)
{ g_rot_calls++; g_rot_dir = -1; for (int d = 0; d < NDMAX; d++) { g_rot_in[d] = in[d]; out[d] = W_rot_out[d]; } }
static bool FFFF(double v) { return v > 1.0e30 || v != v; }
/* floor() is a ghost here: it records that it was called and returns an arbitrary integral value per axis */
int g_floor_calls;
double floor(double x) { int k = g_floor_calls; g_floor_calls = k + 1; return (double) W_floor_out[k < NDMAX ? k : 0]; }
"""
    f1 = Fn("Grid::indicesToCoordinateInPlace", GR,
            r"^void Grid::indicesToCoordinateInPlace\(const constvectint indice,\s*\n\s*const vect coor,\s*\n\s*const constvect percent,\s*\n\s*bool flag_rotate\) const\s*$",
            csig="void Grid_indicesToCoordinateInPlace(const int* indice, double* coor, int coor_size, const double* percent, bool percent_empty, bool flag_rotate)",
            rewrites=[(r"\(int\)coor\.size\(\)", "coor_size", 1), (r"percent\.empty\(\)", "percent_empty", 1),
                      (r"_rotation\.rotateDirect\(_work1,_work2\)", "Rotation_rotateDirect(_work1, _work2)", 1)])
    f2 = Fn("Grid::coordinateToIndicesInPlace", GR,
            r"^int Grid::coordinateToIndicesInPlace\(const VectorDouble &coor,\s*\n\s*VectorInt &indice,\s*\n\s*bool centered,\s*\n\s*double eps\) const\s*$",
            csig="int Grid_coordinateToIndicesInPlace(const double* coor, int* indice, int indice_size, bool centered, double eps)",
            rewrites=[(r"\(int\)indice\.size\(\)", "indice_size", 1),
                      (r"_rotation\.rotateInverse\(_work1, _work2\)", "Rotation_rotateInverse(_work1, _work2)", 1)])
    h = """
void vf_harness(void)
{
  vf_havoc_inputs();
  _nDim = W_ndim; __CPROVER_assume(1 <= _nDim && _nDim <= NDMAX);
  for (int d = 0; d < NDMAX; d++) { _nx[d] = W_nx[d]; _dx[d] = W_dx[d]; _x0[d] = W_x0[d]; }
  g_rot_calls = 0; g_floor_calls = 0;
  for (int d = 0; d < NDMAX; d++) __CPROVER_assume(-1000000 <= W_floor_out[d] && W_floor_out[d] <= 1000000);
  if (W_which) {
    double coor[NDMAX];
    Grid_indicesToCoordinateInPlace(W_ind, coor, NDMAX, W_pct, W_pct_empty, W_flag);
    for (int d = 0; d < NDMAX; d++) if (d < _nDim) {
      double scaled = W_pct_empty ? (double)W_ind[d] * _dx[d] : ((double)W_ind[d] + W_pct[d]) * _dx[d];
      if (W_flag) {
        __CPROVER_assert(g_rot_calls == 1 && g_rot_dir == 1, "indices -> coordinates applies the DIRECT rotation exactly once");
        __CPROVER_assert(g_rot_in[d] == scaled || scaled != scaled, "the rotation is applied to (index + offset) * mesh");
        __CPROVER_assert(coor[d] == W_rot_out[d] + _x0[d] || coor[d] != coor[d], "the origin is added after the rotation");
      } else {
        __CPROVER_assert(g_rot_calls == 0, "no rotation when not requested");
        __CPROVER_assert(coor[d] == scaled + _x0[d] || coor[d] != coor[d], "coordinate = (index + offset) * mesh + origin");
      }
    }
  } else {
    int ind[NDMAX];
    int r = Grid_coordinateToIndicesInPlace(W_coor, ind, W_ndim, W_centered, W_eps);
    int undefined = 0;
    for (int d = 0; d < NDMAX; d++) if (d < _nDim && FFFF(W_coor[d])) undefined = 1;
    if (undefined) __CPROVER_assert(r == -1 && g_rot_calls == 0, "an undefined coordinate is reported, nothing computed");
    else {
      __CPROVER_assert(g_rot_calls == 1 && g_rot_dir == -1, "coordinates -> indices applies the INVERSE rotation exactly once");
      int outside = 0;
      for (int d = 0; d < NDMAX; d++) if (d < _nDim) {
        __CPROVER_assert(g_rot_in[d] == W_coor[d] - _x0[d] || g_rot_in[d] != g_rot_in[d], "the origin is subtracted before the rotation");
        __CPROVER_assert(ind[d] == W_floor_out[d], "index of axis d = floor(...) of the d-th rotated component");
        if (ind[d] < 0 || ind[d] >= _nx[d]) outside = 1;
      }
      __CPROVER_assert(r == outside, "returns 1 iff some index is outside the grid");
      __CPROVER_assert(g_floor_calls == _nDim, "one cell index per axis");
    }
  }
  VF_REACH();
}
"""
    return Unit("C16.coordinate_conversions.order", [f1, f2], prelude=pre, harness=h, pre_inputs=BOOL, unwind=4,
                inputs=[("int", "W_ndim"), ("int", "W_nx", "3"), ("double", "W_dx", "3"), ("double", "W_x0", "3"), ("int", "W_ind", "3"),
                        ("double", "W_pct", "3"), ("bool", "W_pct_empty"), ("bool", "W_flag"), ("bool", "W_which"), ("double", "W_coor", "3"),
                        ("bool", "W_centered"), ("double", "W_eps"), ("double", "W_rot_out", "3"), ("int", "W_floor_out", "3")],
                checks=["--bounds-check", "--pointer-check"], flags=["--slice-formula"], backends=("cvc5",), timeout=600,
                bounded="space dimension <= 3 (unwinding assertions)",
                claim=("Grid::indicesToCoordinateInPlace computes origin + R_direct((index+offset)*mesh) and Grid::coordinateToIndicesInPlace computes "
                       "floor(f(R_inverse(coordinate - origin))): the two conversions apply mutually inverse operations in mirrored order, "
                       "each rotation direction exactly once (rotation results are arbitrary ghost values; floating-point round trip not compared)"),
                assumptions=["the rotation is a ghost returning arbitrary values (pairing direct/inverse proved in unit C16.Rotation.pairing); "
                             "float-to-int conversion range assumed (|index| < 2e9); ndim <= 3"],
                canaries=[{"fn": "Grid::coordinateToIndicesInPlace", "rx": r"_rotation\.rotateInverse\(_work1, _work2\)", "rp": "_rotation.rotateInverse(_work1, _work2); g_rot_dir = 1",
                           "expect": r"assertion"},
                          {"fn": "Grid::indicesToCoordinateInPlace", "rx": r"coor\[idim\] = _work2\[idim\] \+ _x0\[idim\];", "rp": "coor[idim] = _work2[idim] - _x0[idim];",
                           "expect": r"assertion"}])


def unit_rotation():
    names = ["resetFromSpaceDimension", "setMatrixDirect", "setMatrixDirectVec", "setAngles", "setIdentity", "_recopy", "_directToInverse",
             "_inverseToDirect", "_checkRotForIdentity"]
    fns = []
    for n in names:
        fns.append(Fn("Rotation::" + n, RO, r"^(?:int|void) Rotation::%s\([^)]*\)\s*$" % n))
    fns.append(Fn("Rotation::rotateDirect(std::vector)", RO, r"^void Rotation::rotateDirect\(const std::vector<double>& inv, std::vector<double>& outv\) const\s*$",
                  csig="void Rotation::rotateDirect(const StdVec& inv, StdVec& outv) const"))
    fns.append(Fn("Rotation::rotateInverse(std::vector)", RO, r"^void Rotation::rotateInverse\(const std::vector<double>& inv, std::vector<double>& outv\) const\s*$",
                  csig="void Rotation::rotateInverse(const StdVec& inv, StdVec& outv) const"))
    h = """
int vf_thrown; int g_applied_id; bool g_applied_tr; int g_copy;
#define PAIRED(R) ((R)._rotInv.id == (R)._rotMat.id && ((R)._rotMat.ident ? (R)._rotInv.ident : ((R)._rotInv.tr != (R)._rotMat.tr)))
void vf_harness()
{
  Rotation R; Rotation S;
  unsigned int nd = nondet_int(); __CPROVER_assume(1 <= nd && nd <= 3);
  R.resetFromSpaceDimension(nd);
  __CPROVER_assert(PAIRED(R), "after resetFromSpaceDimension the inverse matrix is the transpose of the direct one");
  int steps = 0;
  /* any sequence of public mutators (one arbitrary mutator applied to an arbitrary paired state is the inductive step) */
  R._rotMat.id = nondet_int(); R._rotMat.tr = nondet_bool(); R._rotMat.ident = nondet_bool();
  R._rotInv.id = R._rotMat.id; R._rotInv.ident = R._rotMat.ident; R._rotInv.tr = R._rotMat.ident ? R._rotMat.tr : !R._rotMat.tr;
  if (R._rotMat.ident) { R._rotMat.id = 0; R._rotInv.id = 0; }
  R._flagRot = !R._rotMat.ident;
  int sel = nondet_int();
  MatrixSquareGeneral M(nd); VectorDouble V(nd * nd); VectorDouble A(nd);
  if (sel == 0) R.setMatrixDirect(M);
  else if (sel == 1) R.setMatrixDirectVec(V);
  else if (sel == 2) R.setAngles(A);
  else if (sel == 3) R.setIdentity();
  else if (sel == 4) R.resetFromSpaceDimension(nd);
  else if (sel == 5) { S.resetFromSpaceDimension(nd); R._recopy(S); }
  __CPROVER_assert(PAIRED(R), "after any public mutator the inverse matrix is the transpose of the direct one");
  __CPROVER_assert(R._flagRot == !R._rotMat.ident, "the no-rotation shortcut is taken iff the matrix is the identity");
  StdVec in, out; in.tag = nondet_int();
  if (nondet_bool()) {
    R.rotateDirect(in, out);
    if (R._flagRot) __CPROVER_assert(g_applied_id == R._rotMat.id && g_applied_tr == R._rotMat.tr, "rotateDirect multiplies by the direct matrix");
    else __CPROVER_assert(out.tag == in.tag, "identity rotation copies the vector");
  } else {
    R.rotateInverse(in, out);
    if (R._flagRot) __CPROVER_assert(g_applied_id == R._rotMat.id && g_applied_tr != R._rotMat.tr, "rotateInverse multiplies by the transpose of the direct matrix");
    else __CPROVER_assert(out.tag == in.tag, "identity rotation copies the vector");
  }
  VF_REACH();
}
"""
    return Unit("C16.Rotation.pairing", fns, mode="cpp", prelude=open(os.path.join(VERIF, "stubs", "rotation_stub.hpp")).read(), harness=h,
                havoc_loops=True, checks=[],
                claim=("class Rotation (real text verbatim, C++ front end): after construction and after every public mutator the stored inverse matrix "
                       "is the transpose of the direct one; rotateDirect applies the direct matrix and rotateInverse its transpose (or both copy "
                       "when the rotation is the identity) — so rotateInverse(rotateDirect(v)) is R^T R v"),
                assumptions=["Route X: matrices are ghosts (identifier, transposed flag); R^T R = I for a rotation matrix and the Eigen product are "
                             "trusted; my_throw modelled as 'return 1'"],
                trusted=["stubs/rotation_stub.hpp"],
                canaries=[{"fn": "Rotation::setAngles", "rx": r"_rotMat\.setValues\(local\);\s*\n\s*_directToInverse\(\);", "rp": "_rotMat.setValues(local);",
                           "expect": r"assertion"}])


def unit_get_coordinate():
    """Grid::getCoordinate (behind DbGrid::getCoordinate): the same chain as indicesToCoordinate, on the indices of the rank"""
    pre = BOOL + """
#define NDMAX 3
#define messerr(...) ((void)0)
int _nDim; int _nx[NDMAX]; int _iwork0[NDMAX]; double _dx[NDMAX], _x0[NDMAX], _work1[NDMAX], _work2[NDMAX];
int g_rot_calls, g_rot_dir; double g_rot_in[NDMAX];
static void Rotation_rotateDirect(const double* in, double* out) { g_rot_calls++; g_rot_dir = 1; for (int d = 0; d < NDMAX; d++) { g_rot_in[d] = in[d]; out[d] = W_rot_out[d]; } }
double __CPROVER_uninterpreted_rotmat(int, int);
static double Rotation_getMatrixDirect(int i, int j) { return __CPROVER_uninterpreted_rotmat(i, j); }
/* contract of Grid::rankToIndice (unit C16.rankToIndice): the indices of the rank */
int g_r2i_rank;
static void Grid_rankToIndice(int rank, int* indices, bool minusOne) { g_r2i_rank = rank; for (int d = 0; d < NDMAX; d++) indices[d] = W_ind[d]; }
"""
    f = Fn("Grid::getCoordinate", GR, r"^double Grid::getCoordinate\(int rank, int idim0, bool flag_rotate\) const\s*$", csig="double Grid_getCoordinate(int rank, int idim0, bool flag_rotate)",
           rewrites=[(r"rankToIndice\(rank, _iwork0\);", "Grid_rankToIndice(rank, _iwork0, false);", 1),
                     (r"_rotation\.rotateDirect\(_work1,\s*_work2\)", "Rotation_rotateDirect(_work1, _work2)", "opt"),
                     (r"_rotation\.getMatrixDirect\(", "Rotation_getMatrixDirect(", "opt"), (r"_rotation\.getMatrixInverse\(", "Rotation_getMatrixDirect(", "opt")])
    h = """
void vf_harness(void)
{
  vf_havoc_inputs();
  _nDim = W_ndim; __CPROVER_assume(1 <= _nDim && _nDim <= NDMAX && 0 <= W_idim && W_idim < _nDim);
  for (int d = 0; d < NDMAX; d++) { _dx[d] = W_dx[d]; _x0[d] = W_x0[d]; }
  g_rot_calls = 0; g_r2i_rank = -1;
  double c = Grid_getCoordinate(W_rank, W_idim, W_flag);
  __CPROVER_assert(g_r2i_rank == W_rank, "the indices are those of the requested rank");
  if (W_flag) {
    __CPROVER_assert(g_rot_calls == 1 && g_rot_dir == 1, "a rotated grid applies the DIRECT rotation exactly once (as indicesToCoordinate does)");
    for (int d = 0; d < NDMAX; d++) if (d < _nDim) __CPROVER_assert(g_rot_in[d] == (double) W_ind[d] * _dx[d] || g_rot_in[d] != g_rot_in[d], "the rotation is applied to index * mesh");
    __CPROVER_assert(c == W_rot_out[W_idim] + _x0[W_idim] || c != c, "the origin is added after the rotation, for the requested dimension");
  } else {
    __CPROVER_assert(g_rot_calls == 0, "no rotation when not requested");
    __CPROVER_assert(c == (double) W_ind[W_idim] * _dx[W_idim] + _x0[W_idim] || c != c, "coordinate = index * mesh + origin");
  }
  VF_REACH();
}
"""
    return Unit("C16.getCoordinate", [f], prelude=pre, harness=h, pre_inputs=BOOL,
                inputs=[("int", "W_ndim"), ("int", "W_idim"), ("int", "W_rank"), ("bool", "W_flag"), ("int", "W_ind", "3"), ("double", "W_dx", "3"), ("double", "W_x0", "3"), ("double", "W_rot_out", "3")],
                unwind=5, checks=["--bounds-check", "--pointer-check"], backends=("minisat", "cadical", "cvc5"), timeout=600,
                bounded="space dimension <= 3 (unwinding assertions)",
                claim=("Grid::getCoordinate (what DbGrid::getCoordinate reports): the coordinate of a node in one dimension is obtained by the same chain as "
                       "indicesToCoordinate - indices of the rank, times the mesh, DIRECT rotation applied once to the whole vector, origin added - so the grid data base "
                       "reports the coordinates of its geometry"),
                assumptions=["Rotation::rotateDirect is a ghost recording its call (its own pairing: unit C16.Rotation.pairing); rankToIndice enters through a stub returning arbitrary indices"],
                canaries=[{"fn": "Grid::getCoordinate", "rx": r"_work1\[idim\] = _iwork0\[idim\] \* _dx\[idim\];", "rp": "_work1[idim] = _iwork0[idim] * _dx[idim0];", "expect": r"assertion"}])


def unit_dilate():
    """derived grid: dilation / erosion by nshift cells on each side"""
    pre = BOOL + """
#define NDMAX 3
int _nDim; int _nx[NDMAX]; int _iwork0[NDMAX]; double _dx[NDMAX], _x0[NDMAX], _work1[NDMAX];
#define getNX(i) (_nx[i])
#define getDX(i) (_dx[i])
/* ghost for the indices -> coordinates conversion (unit C16.coordinate_conversions.order): records its arguments, the result lands in 'coor' */
int g_i2c_calls, g_i2c_ind[NDMAX]; bool g_i2c_percent_empty; double* g_i2c_out;
static void VF_i2c(const int* indice, double* coor, bool percent_empty)
{ g_i2c_calls++; g_i2c_percent_empty = percent_empty; g_i2c_out = coor; for (int d = 0; d < NDMAX; d++) { g_i2c_ind[d] = indice[d]; coor[d] = W_out[d]; } }
"""
    f = Fn("Grid::dilate", GR, r"^void Grid::dilate\(int mode,[^{]*?VectorDouble& x0\) const\s*$", csig="void Grid_dilate(int mode, const int* nshift, int* nx, double* dx, double* x0)",
           rewrites=[(r"indicesToCoordinateInPlace\(_iwork0, _work1\);", "VF_i2c(_iwork0, _work1, true);", "opt"),
                     # the two-argument form: the second argument is the vector of CELL FRACTIONS (percent), the result goes to the scratch vector _work1
                     (r"indicesToCoordinate\(_iwork0, (\w+)\);", r"VF_i2c(_iwork0, _work1, false);", "opt"),
                     (r"indicesToCoordinate\(_iwork0\);", "VF_i2c(_iwork0, _work1, true);", "opt")])
    h = """
void vf_harness(void)
{
  vf_havoc_inputs();
  _nDim = W_ndim; __CPROVER_assume(1 <= _nDim && _nDim <= NDMAX && -3 <= W_mode && W_mode <= 3);
  for (int d = 0; d < NDMAX; d++) { _nx[d] = W_nx[d]; _dx[d] = W_dx[d]; __CPROVER_assume(1 <= _nx[d] && _nx[d] <= 100000 && 0 <= W_nshift[d] && W_nshift[d] <= 1000); }
  int nx[NDMAX]; double dx[NDMAX], x0[NDMAX]; for (int d = 0; d < NDMAX; d++) { nx[d] = -7; dx[d] = -7.; x0[d] = -7.; }
  g_i2c_calls = 0;
  Grid_dilate(W_mode, W_nshift, nx, dx, x0);
  bool feasible = (W_mode == 1 || W_mode == -1);
  for (int d = 0; d < NDMAX; d++) if (d < _nDim && _nx[d] + 2 * W_mode * W_nshift[d] <= 0) feasible = 0;
  if (feasible) {
    for (int d = 0; d < NDMAX; d++) if (d < _nDim) {
      __CPROVER_assert(nx[d] == _nx[d] + 2 * W_mode * W_nshift[d], "nshift cells are added (removed) on each side");
      __CPROVER_assert(dx[d] == _dx[d] || dx[d] != dx[d], "the mesh is unchanged");
      __CPROVER_assert(g_i2c_ind[d] == -W_mode * W_nshift[d], "the new origin is the node of indices -mode * nshift of the original grid");
      __CPROVER_assert(x0[d] == W_out[d] || x0[d] != x0[d], "the new origin is the coordinate returned for that node");
    }
    __CPROVER_assert(g_i2c_calls == 1 && g_i2c_percent_empty, "one conversion, with NO cell fraction added to the indices");
  }
  VF_REACH();
}
"""
    return Unit("C16.dilate", [f], prelude=pre, harness=h, pre_inputs=BOOL,
                inputs=[("int", "W_ndim"), ("int", "W_mode"), ("int", "W_nx", "3"), ("int", "W_nshift", "3"), ("double", "W_dx", "3"), ("double", "W_out", "3")],
                unwind=5, checks=["--bounds-check", "--pointer-check", "--signed-overflow-check"], backends=("minisat", "cadical"), timeout=600,
                bounded="space dimension <= 3 (unwinding assertions)",
                claim=("Grid::dilate: the derived grid has nshift cells more (less) on each side, the same mesh, and its origin is the coordinate of the node of indices "
                       "-mode * nshift of the original grid, converted once and with no cell fraction"),
                assumptions=["the indices -> coordinates conversion is a ghost recording its arguments (its own contract: unit C16.coordinate_conversions.order)"],
                canaries=[{"fn": "Grid::dilate", "rx": r"_iwork0\[idim\] = -mode \* nshift\[idim\];", "rp": "_iwork0[idim] = mode * nshift[idim];", "expect": r"assertion"}])


def unit_subgrid():
    """derived grid: DbGrid::createSubGrid - geometry of the sub-grid"""
    pre = """
#define nullptr 0
#define messerr(...) ((void)0)
#define TEST 1.234e30
int nondet_int(); bool nondet_bool(); double nondet_double();
#define ND 3
struct VectorInt { int a[ND]; int n; VectorInt() : n(0) {} VectorInt(int k) : n(k) { for (int i = 0; i < ND; i++) a[i] = 0; }
  VectorInt(const VectorInt& o) : n(o.n) { for (int i = 0; i < ND; i++) a[i] = o.a[i]; } VectorInt& operator=(const VectorInt& o) { n = o.n; for (int i = 0; i < ND; i++) a[i] = o.a[i]; return *this; }
  int size() const { return n; } int& operator[](int i) { __CPROVER_assert(0 <= i && i < n && i < ND, "index inside the vector"); return a[i]; }
  int operator[](int i) const { __CPROVER_assert(0 <= i && i < n && i < ND, "index inside the vector"); return a[i]; } };
struct VectorDouble { double a[ND]; int n; VectorDouble() : n(0) {} VectorDouble(int k) : n(k) { for (int i = 0; i < ND; i++) a[i] = 0.; }
  VectorDouble(const VectorDouble& o) : n(o.n) { for (int i = 0; i < ND; i++) a[i] = o.a[i]; } VectorDouble& operator=(const VectorDouble& o) { n = o.n; for (int i = 0; i < ND; i++) a[i] = o.a[i]; return *this; }
  int size() const { return n; } double& operator[](int i) { __CPROVER_assert(0 <= i && i < n && i < ND, "index inside the vector"); return a[i]; }
  double operator[](int i) const { __CPROVER_assert(0 <= i && i < n && i < ND, "index inside the vector"); return a[i]; } };
struct VectorVectorInt { VectorInt a[ND]; int n; VectorVectorInt() : n(0) {}
  VectorVectorInt(const VectorVectorInt& o) : n(o.n) { for (int i = 0; i < ND; i++) a[i] = o.a[i]; }
  int size() const { return n; } VectorInt& operator[](int i) { __CPROVER_assert(0 <= i && i < n && i < ND, "index inside the vector"); return a[i]; } };
struct String { int t; String() : t(0) {} }; struct VectorString { int n; VectorString() : n(0) {} int size() const { return n; } String operator[](int) const { String s; return s; } };
struct ELoadBy { int v; ELoadBy() : v(0) {} static ELoadBy fromKey(const char*) { ELoadBy e; return e; } };   /* (value-initialising a struct that has member functions crashes CBMC) */
/* ghost: the index -> coordinate conversion of the ORIGINAL grid (unit C16.coordinate_conversions.order) */
int g_i2c_calls; VectorInt g_i2c_ind; double W_origin[ND];
struct Grid { VectorDouble indicesToCoordinate(const VectorInt& ind, const VectorDouble& percent = VectorDouble()) const
  { g_i2c_calls++; g_i2c_ind = ind; __CPROVER_assert(percent.n == 0, "no cell fraction"); VectorDouble r(ind.n); for (int i = 0; i < ND; i++) r.a[i] = W_origin[i]; return r; } };
int g_created; VectorInt g_nx; VectorDouble g_dx, g_x0, g_ang;
class DbGrid { public: int _ndim; VectorInt _nx; VectorDouble _dx, _x0, _ang; Grid _grid;
  int getNDim() const { return _ndim; } VectorString getAllNames(bool) const { return VectorString(); } VectorInt getUIDs(const VectorString&) const { return VectorInt(); }
  VectorInt getNXs() const { return _nx; } VectorDouble getDXs() const { return _dx; } VectorDouble getX0s() const { return _x0; } VectorDouble getAngles() const { return _ang; }
  const Grid& getGrid() const { Grid* q = (Grid*) &_grid; return *q; }
  static DbGrid* create(const VectorInt& nx, const VectorDouble& dx, const VectorDouble& x0, const VectorDouble& angles, const ELoadBy&, const VectorDouble&, const VectorString&, const VectorString&, int, bool)
  { g_created++; g_nx = nx; g_dx = dx; g_x0 = x0; g_ang = angles; DbGrid* g = new DbGrid; g->_ndim = nx.n; return g; }
  int addColumnsByConstant(int, double, const String&) { return 0; } int getSampleNumber() const { return 0; }      /* the copy of the values is not part of this unit */
  void rankToIndice(int, VectorInt&) const {} int indiceToRank(const VectorInt&) const { return 0; } double getArray(int, int) const { return 0.; } void setArray(int, int, double) {}
  static DbGrid* createSubGrid(const DbGrid* gridIn, VectorVectorInt limits, bool flagAddCoordinates); };
"""
    f = Fn("DbGrid::createSubGrid", "src/Db/DbGrid.cpp", r"^DbGrid\* DbGrid::createSubGrid\(const DbGrid\* gridIn, VectorVectorInt limits, bool flagAddCoordinates\)\s*$")
    h = """
void vf_harness()
{
  DbGrid in; in._ndim = nondet_int(); __CPROVER_assume(1 <= in._ndim && in._ndim <= ND);
  in._nx.n = in._ndim; in._dx.n = in._ndim; in._x0.n = in._ndim; in._ang.n = in._ndim;
  VectorVectorInt lim; lim.n = in._ndim;
  for (int d = 0; d < ND; d++) { in._nx.a[d] = nondet_int(); in._dx.a[d] = nondet_double(); in._x0.a[d] = nondet_double(); in._ang.a[d] = nondet_double(); W_origin[d] = nondet_double();
    lim.a[d].n = 2; lim.a[d].a[0] = nondet_int(); lim.a[d].a[1] = nondet_int(); __CPROVER_assume(0 <= lim.a[d].a[0] && lim.a[d].a[0] <= lim.a[d].a[1] && lim.a[d].a[1] <= 100000); }
  g_created = 0; g_i2c_calls = 0;
  DbGrid* out = DbGrid::createSubGrid(&in, lim, nondet_bool());
  __CPROVER_assert(out != 0 && g_created == 1, "the sub-grid is created");
  __CPROVER_assert(g_i2c_calls == 1, "its origin comes from the index -> coordinate conversion of the original grid (which applies the rotation)");
  for (int d = 0; d < ND; d++) if (d < in._ndim) {
    __CPROVER_assert(g_i2c_ind.n == in._ndim && g_i2c_ind.a[d] == lim.a[d].a[0], "... asked for the node of the lower limits");
    __CPROVER_assert(g_x0.a[d] == W_origin[d] || g_x0.a[d] != g_x0.a[d], "... and used as the origin of the sub-grid");
    __CPROVER_assert(g_nx.a[d] == lim.a[d].a[1] - lim.a[d].a[0], "node count = upper - lower limit");
    __CPROVER_assert((g_dx.a[d] == in._dx.a[d] || g_dx.a[d] != g_dx.a[d]) && (g_ang.a[d] == in._ang.a[d] || g_ang.a[d] != g_ang.a[d]), "same mesh and same rotation as the original grid"); }
  VF_REACH();
}
"""
    return Unit("C16.createSubGrid.geometry", [f], mode="cpp", prelude=pre, harness=h, unwind=5, checks=[], backends=("minisat", "cadical"), timeout=600,
                ignore=r"delete argument must be dynamic object|double delete",
                bounded="space dimension <= 3 (unwinding assertions)",
                claim=("DbGrid::createSubGrid: the sub-grid keeps mesh and rotation, has upper - lower nodes per axis, and its origin is the coordinate of the node of the lower "
                       "limits obtained through the index -> coordinate conversion of the original grid (rotation included)"),
                assumptions=["Route X; DbGrid / Grid are stubs recording the geometry handed to DbGrid::create; the copy of the values is outside this unit"],
                canaries=[{"fn": "DbGrid::createSubGrid", "rx": r"NXs\[idim\]\s*= limits\[idim\]\[1\] - limits\[idim\]\[0\];", "rp": "NXs[idim] = limits[idim][1] - limits[idim][0] + 1;", "expect": r"assertion"}])


def unit_multiple_divider():
    """derived grids: Grid::multiple / Grid::divider - node counts, mesh, and where the first node of the derived grid lies"""
    pre = BOOL + """
#define NDMAX 3
int _nDim; int _nx[NDMAX]; int _iwork0[NDMAX]; double _dx[NDMAX], _x0[NDMAX];
#define getNX(i) (_nx[i])
#define getDX(i) (_dx[i])
#define getX0(i) (_x0[i])
double floor(double);
typedef struct { double a[NDMAX]; } vd;
#define VD_DECL(name) vd name
/* ghost for indicesToCoordinateInPlace(indice, coor, percent): records every call; the result is an arbitrary vector per call */
int g_calls; int g_ind[2][NDMAX]; double g_pct[2][NDMAX]; double* g_dst[2];
static void VF_i2c(const int* indice, vd* coor, const vd* percent)
{ int k = g_calls < 2 ? g_calls : 1; g_calls++; g_dst[k] = coor->a; for (int d = 0; d < NDMAX; d++) { g_ind[k][d] = indice[d]; g_pct[k][d] = percent->a[d]; coor->a[d] = W_out[k][d]; } }
"""
    RW = [(r"VectorDouble (\w+)\(_nDim\);[^\n]*", r"vd \1;", None), (r"\b(perc|coor1|coor2)\[", r"\1.a[", None),
          (r"indicesToCoordinateInPlace\(_iwork0, (\w+), perc\);", r"VF_i2c(_iwork0, &\1, &perc);", None)]
    fm = Fn("Grid::multiple", GR, r"^void Grid::multiple\(const VectorInt &nmult,[^{]*?VectorDouble &x0\) const\s*$", csig="void Grid_multiple(const int* nmult, bool flagCell, int* nx, double* dx, double* x0)", rewrites=RW)
    fd = Fn("Grid::divider", GR, r"^void Grid::divider\(const VectorInt &nmult,[^{]*?VectorDouble &x0\) const\s*$", csig="void Grid_divider(const int* nmult, bool flagCell, int* nx, double* dx, double* x0)", rewrites=RW)
    h = """
void vf_harness(void)
{
  vf_havoc_inputs();
  _nDim = W_ndim; __CPROVER_assume(1 <= _nDim && _nDim <= NDMAX);
  for (int d = 0; d < NDMAX; d++) { _nx[d] = W_nx[d]; _dx[d] = W_dx[d]; _x0[d] = W_x0[d]; __CPROVER_assume(1 <= _nx[d] && _nx[d] <= 10000 && 1 <= W_nmult[d] && W_nmult[d] <= 100); }
  int nx[NDMAX]; double dx[NDMAX], x0[NDMAX]; g_calls = 0;
  if (W_mult) Grid_multiple(W_nmult, W_cell, nx, dx, x0); else Grid_divider(W_nmult, W_cell, nx, dx, x0);
  /* the LAST conversion gives the origin; it must be asked for node 0 shifted by the fraction that puts it at the centre of the first derived cell */
  __CPROVER_assert(g_calls == 1, "one index -> coordinate conversion (which applies the rotation of the grid)");
  for (int d = 0; d < NDMAX; d++) if (d < _nDim) {
    __CPROVER_assert(g_ind[0][d] == 0, "the conversion is asked for node 0 ...");
    double frac = !W_cell ? 0. : (W_mult ? ((double) W_nmult[d] - 1.) / 2. : (1. / (double) W_nmult[d] - 1.) / 2.);
    __CPROVER_assert(g_pct[0][d] == frac, "... shifted, along each GRID axis, by the fraction that puts it at the centre of the first derived cell (0 for node matching)");
    __CPROVER_assert(x0[d] == W_out[0][d] || x0[d] != x0[d], "the origin of the derived grid is the coordinate returned");
    if (W_mult) __CPROVER_assert(dx[d] == _dx[d] * W_nmult[d] || dx[d] != dx[d], "mesh multiplied"); else __CPROVER_assert(dx[d] == _dx[d] / ((double) W_nmult[d]) || dx[d] != dx[d], "mesh divided");
    if (!W_mult) __CPROVER_assert(nx[d] == (W_cell ? _nx[d] * W_nmult[d] : 1 + (_nx[d] - 1) * W_nmult[d]), "node count of the divided grid");
  }
  VF_REACH();
}
"""
    return Unit("C16.multiple_divider", [fm, fd], prelude=pre, harness=h, pre_inputs=BOOL,
                inputs=[("int", "W_ndim"), ("bool", "W_mult"), ("bool", "W_cell"), ("int", "W_nx", "3"), ("int", "W_nmult", "3"), ("double", "W_dx", "3"), ("double", "W_x0", "3"), ("double", "W_out", "2][3")],
                unwind=5, checks=["--bounds-check", "--pointer-check", "--signed-overflow-check"], backends=("minisat", "cadical", "cvc5"), timeout=600,
                bounded="space dimension <= 3 (unwinding assertions)",
                claim=("Grid::multiple / Grid::divider: mesh multiplied / divided, node count of the divided grid, and the origin of the derived grid is the coordinate - through "
                       "ONE index -> coordinate conversion of the current grid, hence with its rotation - of node 0 shifted along each grid axis by (nmult - 1)/2 cells "
                       "(multiple) or (1/nmult - 1)/2 cells (divider) in cell matching, by 0 in node matching"),
                assumptions=["the conversion is a ghost recording its arguments (unit C16.coordinate_conversions.order); floor() of the node count of the multiple grid is not "
                             "claimed (floating-point division)"],
                canaries=[{"fn": "Grid::divider", "rx": r"getDX\(idim\) / \(\(double\) nmult\[idim\]\)", "rp": "getDX(idim) * ((double) nmult[idim])", "expect": r"assertion"}])


def units(tier):
    nxmax = 12 if tier == "quick" else 20
    return [unit_i2r(nxmax), unit_r2i(nxmax), unit_roundtrip(nxmax), unit_coord_order(), unit_rotation(), unit_get_coordinate(), unit_dilate(), unit_subgrid(), unit_multiple_divider()]


META = {
    "level": "other",
    "explanation": ("rank<->indices contracts and their round-trip lemma are discharged for space dimension <= 3 (the dimensions the property quantifies over) "
                    "and a stated cap on nodes per axis — bounded, not counted as unbounded proof; order/pairing of the coordinate operations and the "
                    "direct/inverse rotation pairing are proved; the floating-point coordinate round trip itself is not decidable here."),
    "trusted_base": ["CBMC 6.11", "Eigen matrix-vector product", "R^T R = I for rotation matrices"],
    "assumptions": [],
    "not_covered": ["floor(w/dx + eps) cell assignment as geometry (floating point)", "multiple/divider/dilate origin formulas", "DbGrid stored coordinates"],
}
MANIFEST = {
    "category": "other",
    "text": ("Contracts on the real rank<->indices functions with the round-trip lemma over them (bounded: ndim <= 3, nodes per axis capped), on the "
             "order of operations of the two coordinate conversions and on the direct/inverse pairing of class Rotation."),
    "note": "Bounded where stated; floating-point round trip of coordinates not claimed.",
    "design_ref": "DESIGN.md 3 C16",
}
