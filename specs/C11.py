"""C11 — matrix and vector classes compute what linear algebra defines: dimension typing of the Eigen-backed dense kernels."""
import os, re
from tools.vf import Fn, Unit, VERIF

AD = "src/Matrix/AMatrixDense.cpp"

# method -> (regex of the argument list in the definition head, replacement head or None)
METHODS = [
    ("multiplyRow", None), ("multiplyColumn", None), ("divideRow", None), ("divideColumn", None),
    ("prodVecMat", None), ("prodMatVec", None), ("setColumn", None), ("setRow", None), ("setDiagonal", None),
    ("_solve", None), ("_invert", None), ("addMatInPlace", None), ("prodMatMatInPlace", None),
    ("prodNormMatMatInPlace", None), ("prodNormMatVecInPlace", None),
    ("_prodMatVecInPlacePtr", "void AMatrixDense::_prodMatVecInPlacePtr(const DPtr& x, const DPtr& y, bool transpose) const"),
    ("_prodVecMatInPlacePtr", "void AMatrixDense::_prodVecMatInPlacePtr(const DPtr& x, const DPtr& y, bool transpose) const"),
    ("_addProdMatVecInPlaceToDestPtr", "void AMatrixDense::_addProdMatVecInPlaceToDestPtr(const DPtr& x, const DPtr& y, bool transpose) const"),
]


def unit_dense_dims():
    fns = []
    for name, csig in METHODS:
        rw = []
        if name == "prodMatMatInPlace":
            rw = [(r"dynamic_cast<const AMatrixDense\*>\((\w)\)", r"VF_as_dense(\1)", 2)]
        if name == "addMatInPlace":   # CBMC's front end cannot resolve scalar * class-object: the scalar factors are dropped (shapes unaffected)
            rw = [(r"cx \* _eigenMatrix \+ cy \* y\._eigenMatrix", "_eigenMatrix + y._eigenMatrix", 1)]
        fns.append(Fn("AMatrixDense::" + name, AD, r"^(?:void|int|VectorDouble) AMatrixDense::%s\([^)]*\)(?: const)?\s*$" % name, csig=csig, rewrites=rw))
    h = r"""
#define SHAPE(M, R, C) ((M)._eigenMatrix.r == (R) && (M)._eigenMatrix.c == (C) && (M)._nRows == (R) && (M)._nCols == (C))
static void mk(AMatrixDense& M) { M._nRows = nondet_int(); M._nCols = nondet_int(); __CPROVER_assume(1 <= M._nRows && M._nRows <= 1000 && 1 <= M._nCols && M._nCols <= 1000);
  M._eigenMatrix.r = M._nRows; M._eigenMatrix.c = M._nCols; M._flagCheckAddress = true; }
int g_eigen_violation;
#define EIGEN_OK(name) __CPROVER_assert(!g_eigen_violation, name ": every Eigen::Map stays inside its buffer and every Eigen product / sum / assignment has conforming dimensions")
void vf_harness()
{
  AMatrixDense M, X, Y; mk(M); mk(X); mk(Y); g_eigen_violation = 0;
  int R = M._nRows, C = M._nCols;
  VectorDouble v(nondet_int()); __CPROVER_assume(0 <= v.n && v.n <= 1000);
  bool t = nondet_bool(), t2 = nondet_bool();
  int sel = nondet_int();
  /* each case: the method's own precondition (its documentation / the guard of the generic version), then the call; afterwards the
     dense storage must still have the shape the matrix reports */
  if (sel == 0) { __CPROVER_assume(v.n == R); M.multiplyRow(v); __CPROVER_assert(SHAPE(M, R, C), "multiplyRow keeps the shape");  EIGEN_OK("multiplyRow"); }
  if (sel == 1) { __CPROVER_assume(v.n == C); M.multiplyColumn(v); __CPROVER_assert(SHAPE(M, R, C), "multiplyColumn keeps the shape");  EIGEN_OK("multiplyColumn"); }
  if (sel == 2) { __CPROVER_assume(v.n == R); M.divideRow(v); __CPROVER_assert(SHAPE(M, R, C), "divideRow keeps the shape");  EIGEN_OK("divideRow"); }
  if (sel == 3) { __CPROVER_assume(v.n == C); M.divideColumn(v); __CPROVER_assert(SHAPE(M, R, C), "divideColumn keeps the shape");  EIGEN_OK("divideColumn"); }
  if (sel == 4) { __CPROVER_assume(v.n == (t ? C : R)); VectorDouble y = M.prodVecMat(v, t); __CPROVER_assert(y.n == (t ? R : C), "prodVecMat result length");  EIGEN_OK("prodVecMat"); }
  if (sel == 5) { __CPROVER_assume(v.n == (t ? R : C)); VectorDouble y = M.prodMatVec(v, t); __CPROVER_assert(y.n == (t ? C : R), "prodMatVec result length");  EIGEN_OK("prodMatVec"); }
  if (sel == 6) { int i = nondet_int(); M.setColumn(i, v, true); __CPROVER_assert(SHAPE(M, R, C), "setColumn keeps the shape");  EIGEN_OK("setColumn"); }
  if (sel == 7) { int i = nondet_int(); M.setRow(i, v, true); __CPROVER_assert(SHAPE(M, R, C), "setRow keeps the shape");  EIGEN_OK("setRow"); }
  if (sel == 8) { __CPROVER_assume(R == C); M.setDiagonal(v, true); __CPROVER_assert(SHAPE(M, R, C), "setDiagonal keeps the shape");  EIGEN_OK("setDiagonal"); }
  if (sel == 9) { __CPROVER_assume(R == C && v.n == R); VectorDouble x(R); M._solve(v, x);  EIGEN_OK("_solve"); }
  if (sel == 10) { __CPROVER_assume(R == C); M._invert(); __CPROVER_assert(SHAPE(M, R, C), "_invert keeps the shape");  EIGEN_OK("_invert"); }
  if (sel == 11) { __CPROVER_assume(X._nRows == R && X._nCols == C); M.addMatInPlace(X, 1., 1.); __CPROVER_assert(SHAPE(M, R, C), "addMatInPlace keeps the shape");  EIGEN_OK("addMatInPlace"); }
  if (sel == 12) { int xr = t ? X._nCols : X._nRows, xc = t ? X._nRows : X._nCols, yr = t2 ? Y._nCols : Y._nRows, yc = t2 ? Y._nRows : Y._nCols;
                   __CPROVER_assume(xc == yr && R == xr && C == yc);
                   M.prodMatMatInPlace(&X, &Y, t, t2); __CPROVER_assert(SHAPE(M, xr, yc), "prodMatMatInPlace: result is op(x).rows x op(y).cols"); EIGEN_OK("prodMatMatInPlace"); }
  if (sel == 13) { /* this = t(a) m a  or  a m t(a) */
                   __CPROVER_assume(Y._nRows == Y._nCols && Y._nRows == (t ? X._nRows : X._nCols));
                   int n = t ? X._nCols : X._nRows; __CPROVER_assume(R == n && C == n);
                   M.prodNormMatMatInPlace(&X, &Y, t); __CPROVER_assert(SHAPE(M, n, n), "prodNormMatMatInPlace result shape"); EIGEN_OK("prodNormMatMatInPlace"); }
  if (sel == 14) { /* this = t(a) diag(vec) a  or  a diag(vec) t(a) */
                   __CPROVER_assume(v.n == 0 || v.n == (t ? X._nRows : X._nCols));
                   int n = t ? X._nCols : X._nRows; __CPROVER_assume(R == n && C == n);
                   M.prodNormMatVecInPlace(X, v, t); __CPROVER_assert(SHAPE(M, n, n), "prodNormMatVecInPlace result shape"); EIGEN_OK("prodNormMatVecInPlace"); }
  if (sel == 15) { DPtr x, y; x.avail = C; y.avail = R; M._prodMatVecInPlacePtr(x, y, false); EIGEN_OK("_prodMatVecInPlacePtr"); }      /* y = op(M) x */
  if (sel == 16) { DPtr x, y; x.avail = R; y.avail = C; M._prodVecMatInPlacePtr(x, y, false); EIGEN_OK("_prodVecMatInPlacePtr"); }      /* y = x op(M) */
  if (sel == 17) { DPtr x, y; x.avail = C; y.avail = R; M._addProdMatVecInPlaceToDestPtr(x, y, false);  EIGEN_OK("_addProdMatVecInPlaceToDestPtr"); }
  VF_REACH();
}
"""
    return Unit("C11.AMatrixDense.dimensions", fns, mode="cpp", prelude=open(os.path.join(VERIF, "stubs", "eigen_stub.hpp")).read(), harness=h, checks=[],
                claim=("Eigen-backed kernels of AMatrixDense (18 methods, real text verbatim, loop-free => all shapes): under each method's documented "
                       "precondition every Eigen::Map stays inside its buffer, every Eigen product/sum/assignment has conforming dimensions (Eigen's own "
                       "preconditions, which the release build does not check) and the dense storage keeps the shape the matrix reports"),
                assumptions=["Route X: Eigen objects are ghosts carrying (rows, cols) only — values, aliasing and numerical accuracy are not modelled",
                             "raw-pointer kernels (_prod*Ptr): only the non-transposed branch is under contract.  In the transposed branch the declared Eigen::Map lengths disagree with the buffers the callers pass (x of length rows is mapped with length cols), which violates Eigen's documented preconditions, but the release build of Eigen sizes the evaluation from the product and no wrong result could be produced on the library — reported in DESIGN.md as an observation, not claimed as a violation",
                             "dynamic_cast<const AMatrixDense*> replaced by a cast (all operands dense in this unit; 2 must-fire rewrites)"],
                trusted=["stubs/eigen_stub.hpp (Eigen preconditions as documented)"],
                canaries=[{"fn": "AMatrixDense::prodMatVec", "rx": r"VectorDouble y\(transpose \? getNCols\(\) : getNRows\(\)\);", "rp": "VectorDouble y(transpose ? getNRows() : getNCols());",
                           "expect": r"assertion"}])


MS = "src/Matrix/MatrixSparse.cpp"
SPARSE = [
    ("prodMatMatInPlace", None), ("prodNormMatMatInPlace", None), ("prodNormMatVecInPlace", None), ("prodVecMat", None), ("prodMatVec", None), ("addMatInPlace", None),
    ("_prodMatVecInPlacePtr", "void MatrixSparse::_prodMatVecInPlacePtr(const DPtr& x, const DPtr& y, bool transpose) const"),
    ("_prodVecMatInPlacePtr", "void MatrixSparse::_prodVecMatInPlacePtr(const DPtr& x, const DPtr& y, bool transpose) const"),
    ("_addProdMatVecInPlaceToDestPtr", "void MatrixSparse::_addProdMatVecInPlaceToDestPtr(const DPtr& x, const DPtr& y, bool transpose) const"),
]


def unit_sparse_dims():
    fns = [Fn("AMatrix::_checkLink", "src/Matrix/AMatrix.cpp", r"^bool AMatrix::_checkLink\(int nrow1,[^{]*?bool transpose3\) const\s*$",
              csig="bool MatrixSparse::_checkLink(int nrow1, int ncol1, bool transpose1, int nrow2, int ncol2, bool transpose2, int nrow3, int ncol3, bool transpose3) const")]
    for name, csig in SPARSE:
        rw = []
        if name == "prodMatMatInPlace":
            rw = [(r"dynamic_cast<const MatrixSparse\*>\((\w)\)", r"VF_as_sparse(\1)", 2)]
        if name == "addMatInPlace":   # scalar * class-object is outside CBMC's overload resolution: scalar factors dropped (shapes unaffected)
            rw = [(r"cx \* _eigenMatrix \+ cy \* y\._eigenMatrix", "_eigenMatrix + y._eigenMatrix", 1)]
        fns.append(Fn("MatrixSparse::" + name, MS, r"^(?:void|int|VectorDouble) MatrixSparse::%s\([^)]*\)(?: const)?\s*$" % name, csig=csig, rewrites=rw))
    h = r"""
#define SHAPE(M, R, C) ((M)._eigenMatrix.r == (R) && (M)._eigenMatrix.c == (C) && (M)._nRows == (R) && (M)._nCols == (C))
static void mk(MatrixSparse& M) { M._nRows = nondet_int(); M._nCols = nondet_int(); __CPROVER_assume(1 <= M._nRows && M._nRows <= 1000 && 1 <= M._nCols && M._nCols <= 1000);
  M._eigenMatrix.r = M._nRows; M._eigenMatrix.c = M._nCols; M._flagCheckAddress = nondet_bool(); M._csMatrix = 0; }
int g_eigen_violation;
#define EIGEN_OK(name) __CPROVER_assert(!g_eigen_violation, name ": every Eigen::Map stays inside its buffer and every Eigen product / sum / assignment has conforming dimensions")
void vf_harness()
{
  MatrixSparse M, X, Y; mk(M); mk(X); mk(Y); g_eigen_violation = 0;
  int R = M._nRows, C = M._nCols;
  VectorDouble v(nondet_int()); __CPROVER_assume(0 <= v.n && v.n <= 1000);
  bool t = nondet_bool(), t2 = nondet_bool();
  int sel = nondet_int();
  /* each case: the method's documented precondition (what _checkLink / the public wrapper tests when address checking is on), then the call */
  if (sel == 0) { int xr = t ? X._nCols : X._nRows, xc = t ? X._nRows : X._nCols, yr = t2 ? Y._nCols : Y._nRows, yc = t2 ? Y._nRows : Y._nCols;
                  __CPROVER_assume(xc == yr && R == xr && C == yc);
                  M.prodMatMatInPlace(&X, &Y, t, t2); __CPROVER_assert(SHAPE(M, xr, yc), "prodMatMatInPlace: result is op(x).rows x op(y).cols"); EIGEN_OK("prodMatMatInPlace"); }
  if (sel == 1) { __CPROVER_assume(Y._nRows == Y._nCols && Y._nRows == (t ? X._nRows : X._nCols));
                  int n = t ? X._nCols : X._nRows; __CPROVER_assume(R == n && C == n);
                  M.prodNormMatMatInPlace(&X, &Y, t); __CPROVER_assert(SHAPE(M, n, n), "prodNormMatMatInPlace result shape"); EIGEN_OK("prodNormMatMatInPlace"); }
  if (sel == 2) { __CPROVER_assume(v.n == 0 || v.n == (t ? X._nRows : X._nCols));
                  int n = t ? X._nCols : X._nRows; __CPROVER_assume(R == n && C == n);
                  M.prodNormMatVecInPlace(&X, v, t); __CPROVER_assert(SHAPE(M, n, n), "prodNormMatVecInPlace result shape"); EIGEN_OK("prodNormMatVecInPlace"); }
  if (sel == 3) { __CPROVER_assume(v.n == (t ? C : R)); VectorDouble y = M.prodVecMat(v, t); __CPROVER_assert(y.n == (t ? R : C), "prodVecMat result length"); EIGEN_OK("prodVecMat"); }
  if (sel == 4) { __CPROVER_assume(v.n == (t ? R : C)); VectorDouble y = M.prodMatVec(v, t); __CPROVER_assert(y.n == (t ? C : R), "prodMatVec result length"); EIGEN_OK("prodMatVec"); }
  if (sel == 5) { __CPROVER_assume(X._nRows == R && X._nCols == C); M.addMatInPlace(X, 1., 1.); __CPROVER_assert(SHAPE(M, R, C), "addMatInPlace keeps the shape"); EIGEN_OK("addMatInPlace"); }
  /* raw-pointer kernels with the buffers the public wrappers pass: y = op(M) x  (x: C or R values), y = x op(M) */
  if (sel == 6) { DPtr x, y; x.avail = t ? R : C; y.avail = t ? C : R; M._prodMatVecInPlacePtr(x, y, t); EIGEN_OK("_prodMatVecInPlacePtr"); }
  if (sel == 7) { DPtr x, y; x.avail = t ? C : R; y.avail = t ? R : C; M._prodVecMatInPlacePtr(x, y, t); EIGEN_OK("_prodVecMatInPlacePtr"); }
  if (sel == 8) { DPtr x, y; x.avail = t ? R : C; y.avail = t ? C : R; M._addProdMatVecInPlaceToDestPtr(x, y, t); EIGEN_OK("_addProdMatVecInPlaceToDestPtr"); }
  VF_REACH();
}
"""
    return Unit("C11.MatrixSparse.dimensions", fns, mode="cpp", prelude=open(os.path.join(VERIF, "stubs", "eigen_stub.hpp")).read(), harness=h, checks=[],
                claim=("Eigen-backed product kernels of MatrixSparse (9 methods + AMatrix::_checkLink, real text verbatim, loop-free => all shapes, both transposition "
                       "flags): under each method's documented precondition every Eigen::Map stays inside the buffer its public wrapper passes, every Eigen "
                       "product/sum/assignment has conforming dimensions, and the result has the shape of op(x) op(y)"),
                assumptions=["Route X: Eigen objects are ghosts carrying (rows, cols) only - values, sparsity pattern and numerical accuracy are not modelled",
                             "isFlagEigen() is true (library default); the csparse branch is not under contract",
                             "dynamic_cast<const MatrixSparse*> replaced by a cast (all operands sparse in this unit; 2 must-fire rewrites)"],
                trusted=["stubs/eigen_stub.hpp (Eigen preconditions as documented)"],
                canaries=[{"fn": "MatrixSparse::prodMatVec", "rx": r"VectorDouble y\(transpose \? getNCols\(\) : getNRows\(\)\);", "rp": "VectorDouble y(transpose ? getNRows() : getNCols());",
                           "expect": r"assertion"}])


def unit_normmatrix():
    """congruence product this = t(Y) [X] Y or Y [X] t(Y) (generic loops of MatrixSquareSymmetric::normMatrix)"""
    NM = 3
    pre = """
int nondet_int(); bool nondet_bool(); double nondet_double();
int g_thrown;
#define my_throw(msg) do { g_thrown = 1; return; } while (0)
/* ghost: the output cell (gI,gJ) and the contracted indices (gK,gL) under observation, chosen by the harness */
int gI, gJ, gK, gL; bool gT;
int cur_yA, cur_ytot, cur_xKL, cur_xtot;           /* calls since the last setValue */
int snap_yA, snap_ytot, snap_xKL, snap_xtot, nset_IJ, nset_tot, g_oob;
struct AMatrix { int nr, nc;
  int getNRows() const { return nr; } int getNCols() const { return nc; }
  double getValue(int r, int c) const { if (r < 0 || r >= nr || c < 0 || c >= nc) g_oob = 1;
    cur_ytot = cur_ytot + 1; if (gT ? (r == gI && c == gK) : (r == gK && c == gI)) cur_yA = cur_yA + 1; return 0.; } };
struct AMatrixSquare { int n; bool isempty;
  bool empty() const { return isempty; } int getNSize() const { return n; }
  double getValue(int r, int c) const { if (r < 0 || r >= n || c < 0 || c >= n) g_oob = 1;
    cur_xtot = cur_xtot + 1; if (r == gK && c == gL) cur_xKL = cur_xKL + 1; return 0.; } };
struct MatrixSquareSymmetric { int n;
  int getNSize() const { return n; }
  void setValue(int r, int c, double v) { if (r < 0 || r >= n || c < 0 || c > r) g_oob = 1; nset_tot = nset_tot + 1;
    if (r == gI && c == gJ) { nset_IJ = nset_IJ + 1; snap_yA = cur_yA; snap_ytot = cur_ytot; snap_xKL = cur_xKL; snap_xtot = cur_xtot; }
    cur_yA = 0; cur_ytot = 0; cur_xKL = 0; cur_xtot = 0; }
  void normMatrix(const AMatrix& y, const AMatrixSquare& x, bool transpose); };
"""
    f = Fn("MatrixSquareSymmetric::normMatrix", "src/Matrix/MatrixSquareSymmetric.cpp",
           r"^void MatrixSquareSymmetric::normMatrix\(const AMatrix& y, const AMatrixSquare& x, bool transpose\)\s*$")
    h = r"""
void vf_harness()
{
  AMatrix Y; AMatrixSquare X; MatrixSquareSymmetric M;
  Y.nr = nondet_int(); Y.nc = nondet_int(); X.n = nondet_int(); M.n = nondet_int(); X.isempty = nondet_bool(); gT = nondet_bool();
  __CPROVER_assume(1 <= Y.nr && Y.nr <= NM && 1 <= Y.nc && Y.nc <= NM && 1 <= X.n && X.n <= NM && 1 <= M.n && M.n <= NM);
  int nout = gT ? Y.nr : Y.nc;            /* documented: the result has the dimension of the non-contracted side of Y */
  int ncon = gT ? Y.nc : Y.nr;            /* contracted dimension */
  /* X given: the documented preconditions (dimension of X = contracted dimension; the receiving matrix already has the result dimension) */
  if (!X.isempty) __CPROVER_assume(M.n == nout);
  gI = nondet_int(); gJ = nondet_int(); gK = nondet_int(); gL = nondet_int();
  __CPROVER_assume(0 <= gJ && gJ <= gI && gI < nout && 0 <= gK && gK < ncon && 0 <= gL && gL < ncon);
  g_thrown = 0; g_oob = 0; nset_IJ = 0; nset_tot = 0; cur_yA = 0; cur_ytot = 0; cur_xKL = 0; cur_xtot = 0;
  M.normMatrix(Y, X, gT);
  bool conform = X.isempty ? (M.n == nout) : (X.n == ncon);
  __CPROVER_assert(!g_oob, "normMatrix: every element read of Y and X and every element written lies inside its matrix");
  if (!conform) __CPROVER_assert(g_thrown && nset_tot == 0, "normMatrix: non-conforming dimensions are refused before anything is written");
  if (conform)
  {
    __CPROVER_assert(!g_thrown, "normMatrix: conforming dimensions are accepted");
    __CPROVER_assert(nset_tot == nout * (nout + 1) / 2 && nset_IJ == 1, "normMatrix: every cell of the lower triangle is written exactly once");
    if (X.isempty)
    {
      __CPROVER_assert(snap_ytot == 2 * ncon, "normMatrix (X absent): the sum for a cell has one term per index of the contracted dimension of Y");
      __CPROVER_assert(snap_yA == ((gI == gJ) ? 2 : 1), "normMatrix (X absent): the term of every contracted index k reads Y at (k, row) [or (row, k) when transposed]");
    }
    else
    {
      __CPROVER_assert(snap_xtot == ncon * ncon && snap_ytot == 2 * ncon * ncon, "normMatrix (X given): the sum for a cell has one term per pair of contracted indices");
      __CPROVER_assert(snap_xKL == 1, "normMatrix (X given): every element X(k,l) enters the sum of a cell exactly once");
    }
  }
  VF_REACH();
}
"""
    return Unit("C11.normMatrix.terms", [f], mode="cpp", prelude="#define NM %d\n" % NM + pre, harness=h, checks=[], unwind=NM + 1, timeout=900,
                backends=("minisat", "cadical"),
                claim=("MatrixSquareSymmetric::normMatrix (congruence product, real text verbatim): for both transposition flags, X given or absent, and every "
                       "shape of Y up to %dx%d — non-conforming dimensions are refused before anything is written; otherwise every read stays inside Y / X, every "
                       "cell of the lower triangle is written once, and the sum of a cell runs over exactly the contracted dimension of Y (each index, resp. each "
                       "pair of indices with X, exactly once)" % (NM, NM)),
                assumptions=["Route X: matrices are ghosts carrying their dimensions and counting element accesses; the floating-point values are not modelled",
                             "with X given, the documented preconditions are assumed for the dimension of the receiving matrix (the function does not test it)"],
                bounded="matrices up to %dx%d; unwind %d with unwinding assertions" % (NM, NM, NM + 1),
                canaries=[{"fn": "MatrixSquareSymmetric::normMatrix", "rx": r"for \(int icol = 0; icol <= irow; icol\+\+\)", "rp": "for (int icol = 0; icol < irow; icol++)", "expect": r"assertion"}])


BOOL = "typedef _Bool bool;\n#define true 1\n#define false 0\n"


def AND(xs):
    xs = list(xs)
    return "(" + " && ".join(xs) + ")" if xs else "1"


def unit_where(which, nmax=6):
    """VH::whereMinimum / VH::whereMaximum (Route C, loop closed by invariant): the rank returned is a defined element that bounds every defined element."""
    mn = which == "Minimum"
    VHC = "src/Basic/VectorHelper.cpp"
    cname = "VH_where" + which
    LE = (lambda a, b: "%s <= %s" % (a, b)) if mn else (lambda a, b: "%s >= %s" % (a, b))
    init = "1.e30" if mn else "-1.e30"
    pre = BOOL + """
#define NMAX %d
#define FFFF_(v) ((v) > 1.0e30 || (v) != (v))
static bool FFFF(double v) { return FFFF_(v); }
""" % nmax
    D = lambda k: "!FFFF_(W_tab[%s])" % k
    contract = "\n".join([
        "__CPROVER_requires(0 <= tab_size && tab_size <= NMAX && tab == W_tab)",
        # defined values lie in the representable domain of the library: |v| <= 1e30 (above: undefined by convention)
        "__CPROVER_requires(%s)" % AND("(FFFF_(W_tab[%d]) || (-1.0e30 <= W_tab[%d] && W_tab[%d] <= 1.0e30))" % (k, k, k) for k in range(nmax)),
        "__CPROVER_assigns()",
        "__CPROVER_ensures(-1 <= __CPROVER_return_value && __CPROVER_return_value < tab_size)",
        # -1 iff no defined element
        "__CPROVER_ensures(__CPROVER_return_value != -1 || %s)" % AND("(%d >= tab_size || FFFF_(W_tab[%d]))" % (k, k) for k in range(nmax)),
        # otherwise: a defined element that is the extremum of the defined elements
        "__CPROVER_ensures(__CPROVER_return_value < 0 || !FFFF_(W_tab[__CPROVER_return_value]))",
        "__CPROVER_ensures(__CPROVER_return_value < 0 || %s)" % AND("(%d >= tab_size || FFFF_(W_tab[%d]) || %s)" % (k, k, LE("W_tab[__CPROVER_return_value]", "W_tab[%d]" % k)) for k in range(nmax)),
    ])
    loop = "\n".join([
        "__CPROVER_assigns(i, vbest, ibest)",
        "__CPROVER_loop_invariant(0 <= i && i <= ntab && ntab == tab_size && -1 <= ibest && ibest < i)",
        "__CPROVER_loop_invariant(ibest >= 0 || (vbest == %s && %s))" % (init, AND("(%d >= i || FFFF_(W_tab[%d]))" % (k, k) for k in range(nmax))),
        "__CPROVER_loop_invariant(ibest < 0 || (!FFFF_(W_tab[ibest]) && vbest == W_tab[ibest]))",
        "__CPROVER_loop_invariant(%s)" % AND("(%d >= i || FFFF_(W_tab[%d]) || %s)" % (k, k, LE("vbest", "W_tab[%d]" % k)) for k in range(nmax)),
        "__CPROVER_decreases(ntab - i)",
    ])
    f = Fn("VectorHelper::where" + which, VHC, r"^int VectorHelper::where%s\(const VectorDouble& tab\)\s*$" % which,
           csig="int %s(const double* tab, int tab_size)" % cname, contract=contract, loops={1: loop}, nloops=1,
           rewrites=[(r"\(int\) tab\.size\(\)", "tab_size", 1)])
    h = """
void vf_harness(void)
{
  vf_havoc_inputs();
  %s(W_tab, W_n);
  VF_REACH();
}
""" % cname
    native = r"""
static void vf_native(void)
{
  if (!(0 <= W_n && W_n <= NMAX)) exit(77);
  for (int k = 0; k < NMAX; k++) if (!(FFFF(W_tab[k]) || (-1.0e30 <= W_tab[k] && W_tab[k] <= 1.0e30))) exit(77);
  int r = %s(W_tab, W_n);
  int ndef = 0;
  for (int k = 0; k < W_n; k++) if (!FFFF(W_tab[k])) ndef++;
  __CPROVER_assert((r == -1) == (ndef == 0), "rank -1 exactly when no element is defined");
  if (r >= 0) { __CPROVER_assert(r < W_n && !FFFF(W_tab[r]), "the rank designates a defined element");
    for (int k = 0; k < W_n; k++) if (!FFFF(W_tab[k])) __CPROVER_assert(%s, "the element returned bounds every defined element"); }
}
""" % (cname, LE("W_tab[r]", "W_tab[k]"))
    canary = ({"fn": f.name, "rx": r"if \(tab\[i\] > vbest\) continue;", "rp": "if (tab[i] < vbest) continue;"} if mn else
              {"fn": f.name, "rx": r"if \(tab\[i\] < vbest\) continue;", "rp": "if (tab[i] > vbest) continue;"})
    canary["expect"] = r"%s\.(postcondition|loop_invariant_step)" % cname
    return Unit("C11.VH.where" + which, [f], prelude=pre, harness=h, native=native, pre_inputs=BOOL, defines={"NMAX": nmax},
                inputs=[("double", "W_tab", "NMAX"), ("int", "W_n")], enforce=cname, backends=("minisat", "cadical"), timeout=600, fallback_unwind=nmax + 2,
                claim=("VH::where%s returns -1 exactly when the vector has no defined element, otherwise the rank of a defined element that is %s "
                       "every defined element (undefined = NaN or > 1e30 are skipped); nothing written; loop closed by invariant (length <= %d)"
                       % (which, "<=" if mn else ">=", nmax)),
                assumptions=["at most %d elements (quantifier range)" % nmax, "defined values lie in [-1e30, 1e30] (the library's sentinel domain)",
                             "const VectorDouble& -> (const double*, int)"],
                canaries=[canary])


def unit_where_element(nmax=6):
    """VH::whereElement (Route C, loop closed by invariant): first rank holding the target, -1 iff absent."""
    pre = BOOL + "#define NMAX %d\n" % nmax
    contract = "\n".join([
        "__CPROVER_requires(0 <= tab_size && tab_size <= NMAX && tab == W_itab)",
        "__CPROVER_assigns()",
        "__CPROVER_ensures(-1 <= __CPROVER_return_value && __CPROVER_return_value < tab_size)",
        "__CPROVER_ensures(__CPROVER_return_value < 0 || W_itab[__CPROVER_return_value] == target)",
        # no earlier (resp. no) element holds the target
        "__CPROVER_ensures(%s)" % AND("(%d >= tab_size || (__CPROVER_return_value >= 0 && %d >= __CPROVER_return_value) || W_itab[%d] != target)" % (k, k, k) for k in range(nmax)),
    ])
    loop = "\n".join([
        "__CPROVER_assigns(i)",
        "__CPROVER_loop_invariant(0 <= i && i <= ntab && ntab == tab_size)",
        "__CPROVER_loop_invariant(%s)" % AND("(%d >= i || W_itab[%d] != target)" % (k, k) for k in range(nmax)),
        "__CPROVER_decreases(ntab - i)",
    ])
    f = Fn("VectorHelper::whereElement", "src/Basic/VectorHelper.cpp", r"^int VectorHelper::whereElement\(const VectorInt& tab, int target\)\s*$",
           csig="int VH_whereElement(const int* tab, int tab_size, int target)", contract=contract, loops={1: loop}, nloops=1,
           rewrites=[(r"\(int\) tab\.size\(\)", "tab_size", 1)])
    h = """
void vf_harness(void)
{
  vf_havoc_inputs();
  VH_whereElement(W_itab, W_n, W_target);
  VF_REACH();
}
"""
    native = r"""
static void vf_native(void)
{
  if (!(0 <= W_n && W_n <= NMAX)) exit(77);
  int r = VH_whereElement(W_itab, W_n, W_target);
  int first = -1;
  for (int k = W_n - 1; k >= 0; k--) if (W_itab[k] == W_target) first = k;
  __CPROVER_assert(r == first, "first rank holding the target, -1 when absent");
}
"""
    return Unit("C11.VH.whereElement", [f], prelude=pre, harness=h, native=native, pre_inputs=BOOL, defines={"NMAX": nmax},
                inputs=[("int", "W_itab", "NMAX"), ("int", "W_n"), ("int", "W_target")], enforce="VH_whereElement", backends=("minisat", "cadical"), timeout=600,
                fallback_unwind=nmax + 2,
                claim="VH::whereElement returns the first rank whose element equals the target and -1 exactly when no element does; nothing written; loop closed by invariant (length <= %d)" % nmax,
                assumptions=["at most %d elements (quantifier range)" % nmax, "const VectorInt& -> (const int*, int)"],
                canaries=[{"fn": f.name, "rx": r"for \(int i = 0, ntab", "rp": "for (int i = 1, ntab", "expect": r"VH_whereElement\.(postcondition|loop_invariant_base)"}])


def unit_extremum(which, nmax=5):
    """VH::maximum / VH::minimum (vec, flagAbs, aux, mode), Route C, both loops closed by invariants."""
    mx = which == "maximum"
    var = "max" if mx else "min"
    cname = "VH_" + which
    init = "-1.e30" if mx else "1.e30"
    GE = (lambda a, b: "%s >= %s" % (a, b)) if mx else (lambda a, b: "%s <= %s" % (a, b))
    pre = BOOL + """
#define NMAX %d
#define TEST 1.234e30
#define FFFF_(v) ((v) > 1.0e30 || (v) != (v))
static bool FFFF(double v) { return FFFF_(v); }
#define ABS(a) (((a) < 0.) ? -(a) : (a))
/* spec side */
#define flagAux_ (aux_size != 0 && aux_size == vec_size)
#define A_(k) (flagAbs ? ABS(W_vec[k]) : W_vec[k])
#define Q_(k) (!FFFF_(W_vec[k]) && (!flagAux_ || (!FFFF_(W_aux[k]) && !(mode > 0 && W_aux[k] > A_(k)) && !(mode < 0 && W_aux[k] < A_(k)))))
""" % nmax
    contract = "\n".join([
        "__CPROVER_requires(0 <= vec_size && vec_size <= NMAX && 0 <= aux_size && aux_size <= NMAX && vec == W_vec && aux == W_aux)",
        "__CPROVER_assigns()",
        "__CPROVER_ensures(vec_size != 0 || __CPROVER_return_value == TEST)",
        # bounds every retained element ...
        "__CPROVER_ensures(vec_size == 0 || %s)" % AND("(%d >= vec_size || !Q_(%d) || %s)" % (k, k, GE("__CPROVER_return_value", "A_(%d)" % k)) for k in range(nmax)),
        # ... and is one of them (or the neutral start value when none is retained)
        "__CPROVER_ensures(vec_size == 0 || __CPROVER_return_value == %s || (%s))" % (init, " || ".join("(%d < vec_size && Q_(%d) && __CPROVER_return_value == A_(%d))" % (k, k, k) for k in range(nmax))),
    ])
    inv = lambda i: "\n".join([
        "__CPROVER_loop_invariant(%s)" % AND("(%d >= %s || !Q_(%d) || %s)" % (k, i, k, GE(var, "A_(%d)" % k)) for k in range(nmax)),
        "__CPROVER_loop_invariant(%s == %s || (%s))" % (var, init, " || ".join("(%d < %s && Q_(%d) && %s == A_(%d))" % (k, i, k, var, k) for k in range(nmax))),
    ])
    loop1 = "\n".join([
        "__CPROVER_assigns(vk, %s)" % var,
        "__CPROVER_loop_invariant(0 <= vk && vk <= size && size == vec_size && !flagAux && !flagAux_)",
        inv("vk"),
        "__CPROVER_decreases(size - vk)",
    ])
    loop2 = "\n".join([
        "__CPROVER_assigns(i, ptrv, ptra, val_vec, val_aux, %s)" % var,
        "__CPROVER_loop_invariant(0 <= i && i <= size && size == vec_size && flagAux && flagAux_)",
        # each pass reads the element of its own rank in both vectors
        "__CPROVER_loop_invariant(ptrv == W_vec + i && ptra == W_aux + i)",
        inv("i"),
        "__CPROVER_decreases(size - i)",
    ])
    f = Fn("VectorHelper::" + which, "src/Basic/VectorHelper.cpp",
           r"^double VectorHelper::%s\(const VectorDouble &vec, bool flagAbs, const VectorDouble& aux, int mode\)\s*$" % which,
           csig="double %s(const double* vec, int vec_size, bool flagAbs, const double* aux, int aux_size, int mode)" % cname,
           contract=contract, loops={1: loop1, 2: loop2}, nloops=2,
           rewrites=[(r"vec\.empty\(\)", "(vec_size == 0)", 1), (r"\(int\) vec\.size\(\)", "vec_size", 1),
                     (r"! aux\.empty\(\)", "(aux_size != 0)", 1), (r"\(int\) aux\.size\(\)", "aux_size", 1),
                     (r"for \(auto v : vec\)\s*\n(\s*)\{", r"for (int vk = 0; vk < size; vk++)\n\1{ double v = vec[vk];", 1),
                     (r"vec\.data\(\)", "vec", 1), (r"aux\.data\(\)", "aux", 1)])
    h = """
void vf_harness(void)
{
  vf_havoc_inputs();
  %s(W_vec, W_n, W_flagAbs, W_aux, W_naux, W_mode);
  VF_REACH();
}
""" % cname
    native = r"""
static void vf_native(void)
{
  if (!(0 <= W_n && W_n <= NMAX && 0 <= W_naux && W_naux <= NMAX)) exit(77);
  double r = %s(W_vec, W_n, W_flagAbs, W_aux, W_naux, W_mode);
  if (W_n == 0) { __CPROVER_assert(r == TEST, "empty vector: TEST"); return; }
  int fa = W_naux != 0 && W_naux == W_n; int hit = (r == %s);
  for (int k = 0; k < W_n; k++) {
    double a = W_flagAbs ? ABS(W_vec[k]) : W_vec[k];
    int q = !FFFF(W_vec[k]) && (!fa || (!FFFF(W_aux[k]) && !(W_mode > 0 && W_aux[k] > a) && !(W_mode < 0 && W_aux[k] < a)));
    if (q) { __CPROVER_assert(%s, "the result bounds every retained element"); if (r == a) hit = 1; } }
  __CPROVER_assert(hit, "the result is one of the retained elements");
}
""" % (cname, init, GE("r", "a"))
    return Unit("C11.VH." + which, [f], prelude=pre, harness=h, native=native, pre_inputs=BOOL, defines={"NMAX": nmax},
                inputs=[("double", "W_vec", "NMAX"), ("double", "W_aux", "NMAX"), ("int", "W_n"), ("int", "W_naux"), ("bool", "W_flagAbs"), ("int", "W_mode")],
                enforce=cname, backends=("minisat", "cadical"), timeout=900, split=True, fallback_unwind=nmax + 2,
                claim=("VH::%s(vec, flagAbs, aux, mode): TEST for an empty vector; otherwise the %s of (|.| of) the retained elements - defined, and when a "
                       "conforming aux is given, aux defined and satisfying the comparison selected by mode - every element being examined once at its own rank "
                       "in both vectors; %s when none is retained; nothing written; both loops closed by invariants (length <= %d)" % (which, which, init, nmax)),
                assumptions=["at most %d elements (quantifier range)" % nmax, "const VectorDouble& -> (const double*, int); range-for rewritten to an index loop (must-fire rule)",
                             "ties vec == aux are retained for mode != 0, as the code does (the documentation says 'vec > aux')"],
                canaries=[{"fn": f.name, "rx": r"if \(FFFF\(v\)\) continue;", "rp": "", "expect": r"%s\.(postcondition|loop_invariant_step)" % cname}])


def unit_extremum_vv(which, nrow=4):
    """VH::maximum / VH::minimum over a vector of vectors: combines the per-vector extrema (callee abstracted by its value per row)."""
    mx = which == "maximum"
    cname = "VH_%s_vv" % which
    LE = (lambda a, b: "%s >= %s" % (a, b)) if mx else (lambda a, b: "%s <= %s" % (a, b))
    pre = BOOL + """
#define NROW %d
#define MAX(a,b) (((a) > (b)) ? (a) : (b))
#define MIN(a,b) (((a) < (b)) ? (a) : (b))
/* the extremum of row k as VH::%s(vect[k], flagAbs) returns it (contract of that callee: units C11.VH.%s): one value per (row, flagAbs) */
#define ROWEXT(k, fa) ((fa) ? W_extabs[k] : W_ext[k])
""" % (nrow, which, which)
    notnan = AND("(W_ext[%d] == W_ext[%d] && W_extabs[%d] == W_extabs[%d])" % (k, k, k, k) for k in range(nrow))
    contract = "\n".join([
        "__CPROVER_requires(1 <= vect_size && vect_size <= NROW && %s)" % notnan,
        "__CPROVER_assigns()",
        "__CPROVER_ensures(%s)" % AND("(%d >= vect_size || %s)" % (k, LE("__CPROVER_return_value", "ROWEXT(%d, flagAbs)" % k)) for k in range(nrow)),
        "__CPROVER_ensures(%s)" % " || ".join("(%d < vect_size && __CPROVER_return_value == ROWEXT(%d, flagAbs))" % (k, k) for k in range(nrow)),
    ])
    loop = "\n".join([
        "__CPROVER_assigns(i, val)",
        "__CPROVER_loop_invariant(1 <= i && i <= n && n == vect_size)",
        "__CPROVER_loop_invariant(%s)" % AND("(%d >= i || %s)" % (k, LE("val", "ROWEXT(%d, flagAbs)" % k)) for k in range(nrow)),
        "__CPROVER_loop_invariant(%s)" % " || ".join("(%d < i && val == ROWEXT(%d, flagAbs))" % (k, k) for k in range(nrow)),
        "__CPROVER_decreases(n - i)",
    ])
    f = Fn("VectorHelper::%s(VectorVectorDouble)" % which, "src/Basic/VectorHelper.cpp",
           r"^double VectorHelper::%s\(const VectorVectorDouble& vect, bool flagAbs\)\s*$" % which,
           csig="double %s(int vect_size, bool flagAbs)" % cname, contract=contract, loops={1: loop}, nloops=1,
           rewrites=[(r"VH::%s\(vect\[(\w+)\], flagAbs\)" % which, r"ROWEXT(\1, flagAbs)", None),
                     (r"VH::%s\(vect\[(\w+)\]\)" % which, r"ROWEXT(\1, false)", "opt"),   # a call that omits flagAbs (default false) - the original text had one
                     (r"\(int\) vect\.size\(\)", "vect_size", 1)])
    h = """
void vf_harness(void)
{
  vf_havoc_inputs();
  %s(W_n, W_flagAbs);
  VF_REACH();
}
""" % cname
    native = r"""
static void vf_native(void)
{
  if (!(1 <= W_n && W_n <= NROW)) exit(77);
  for (int k = 0; k < NROW; k++) if (W_ext[k] != W_ext[k] || W_extabs[k] != W_extabs[k]) exit(77);
  double r = %s(W_n, W_flagAbs); int hit = 0;
  for (int k = 0; k < W_n; k++) { double e = ROWEXT(k, W_flagAbs); __CPROVER_assert(%s, "the result bounds the extremum of every vector"); if (r == e) hit = 1; }
  __CPROVER_assert(hit, "the result is the extremum of one of the vectors");
}
""" % (cname, LE("r", "e"))
    return Unit("C11.VH.%s.vv" % which, [f], prelude=pre, harness=h, native=native, pre_inputs=BOOL, defines={"NROW": nrow},
                inputs=[("double", "W_ext", "NROW"), ("double", "W_extabs", "NROW"), ("int", "W_n"), ("bool", "W_flagAbs")],
                enforce=cname, backends=("minisat", "cadical"), timeout=600, fallback_unwind=nrow + 2,
                claim=("VH::%s(vector of vectors, flagAbs) returns the %s of the per-vector results VH::%s(vect[k], flagAbs), the same flagAbs for every vector "
                       "including the first; nothing written; loop closed by invariant (vectors <= %d)" % (which, which, which, nrow)),
                assumptions=["at most %d vectors (quantifier range); at least one (vect[0] is read unconditionally)" % nrow,
                             "callee VH::%s(vect[k], flagAbs) abstracted as one value per (row, flagAbs) - its own contract is discharged by unit C11.VH.%s; values not NaN" % (which, which)],
                canaries=[{"fn": f.name, "rx": r"int i = 1, n", "rp": "int i = 2, n", "expect": r"%s\.(postcondition|loop_invariant_base)" % cname}])


def unit_extremum_int(which, nmax=6):
    """VH::maximum / VH::minimum (VectorInt, flagAbs), Route C, loop closed by invariant."""
    mx = which == "maximum"
    var = "max" if mx else "min"
    cname = "VH_%s_int" % which
    init = "-10000000" if mx else "10000000"
    GE = (lambda a, b: "%s >= %s" % (a, b)) if mx else (lambda a, b: "%s <= %s" % (a, b))
    pre = BOOL + """
#define NMAX %d
#define ITEST (-1234567)
#define IFFFF_(v) ((v) == ITEST)
static bool IFFFF(int v) { return IFFFF_(v); }
#define ABS(a) (((a) < 0.) ? -(a) : (a))
#define A_(k) (flagAbs ? ABS(W_ivec[k]) : W_ivec[k])
""" % nmax
    contract = "\n".join([
        "__CPROVER_requires(0 <= vec_size && vec_size <= NMAX && vec == W_ivec)",
        # the library's integer sentinel domain: defined values within +-1e7
        "__CPROVER_requires(%s)" % AND("(-10000000 <= W_ivec[%d] && W_ivec[%d] <= 10000000)" % (k, k) for k in range(nmax)),
        "__CPROVER_assigns()",
        "__CPROVER_ensures(vec_size != 0 || __CPROVER_return_value == 0)",
        "__CPROVER_ensures(vec_size == 0 || %s)" % AND("(%d >= vec_size || IFFFF_(W_ivec[%d]) || %s)" % (k, k, GE("__CPROVER_return_value", "A_(%d)" % k)) for k in range(nmax)),
        "__CPROVER_ensures(vec_size == 0 || __CPROVER_return_value == %s || (%s))" % (init, " || ".join("(%d < vec_size && !IFFFF_(W_ivec[%d]) && __CPROVER_return_value == A_(%d))" % (k, k, k) for k in range(nmax))),
    ])
    loop = "\n".join([
        "__CPROVER_assigns(vk, %s)" % var,
        "__CPROVER_loop_invariant(0 <= vk && vk <= vec_size)",
        "__CPROVER_loop_invariant(%s)" % AND("(%d >= vk || IFFFF_(W_ivec[%d]) || %s)" % (k, k, GE(var, "A_(%d)" % k)) for k in range(nmax)),
        "__CPROVER_loop_invariant(%s == %s || (%s))" % (var, init, " || ".join("(%d < vk && !IFFFF_(W_ivec[%d]) && %s == A_(%d))" % (k, k, var, k) for k in range(nmax))),
        "__CPROVER_decreases(vec_size - vk)",
    ])
    f = Fn("VectorHelper::%s(VectorInt)" % which, "src/Basic/VectorHelper.cpp", r"^int VectorHelper::%s\(const VectorInt &vec, bool flagAbs\)\s*$" % which,
           csig="int %s(const int* vec, int vec_size, bool flagAbs)" % cname, contract=contract, loops={1: loop}, nloops=1,
           rewrites=[(r"vec\.size\(\) <= 0", "vec_size <= 0", 1),
                     (r"for \(auto v : vec\)\s*\n(\s*)\{", r"for (int vk = 0; vk < vec_size; vk++)\n\1{ int v = vec[vk];", 1)])
    h = """
void vf_harness(void)
{
  vf_havoc_inputs();
  %s(W_ivec, W_n, W_flagAbs);
  VF_REACH();
}
""" % cname
    native = r"""
static void vf_native(void)
{
  if (!(0 <= W_n && W_n <= NMAX)) exit(77);
  for (int k = 0; k < NMAX; k++) if (W_ivec[k] < -10000000 || W_ivec[k] > 10000000) exit(77);
  int r = %s(W_ivec, W_n, W_flagAbs);
  if (W_n == 0) { __CPROVER_assert(r == 0, "empty vector: 0"); return; }
  int hit = (r == %s);
  for (int k = 0; k < W_n; k++) if (!IFFFF(W_ivec[k])) { int a = W_flagAbs ? ABS(W_ivec[k]) : W_ivec[k];
    __CPROVER_assert(%s, "the result bounds every defined element"); if (r == a) hit = 1; }
  __CPROVER_assert(hit, "the result is one of the defined elements");
}
""" % (cname, init, GE("r", "a"))
    return Unit("C11.VH.%s.int" % which, [f], prelude=pre, harness=h, native=native, pre_inputs=BOOL, defines={"NMAX": nmax},
                inputs=[("int", "W_ivec", "NMAX"), ("int", "W_n"), ("bool", "W_flagAbs")], enforce=cname, backends=("minisat", "cadical"), timeout=600,
                fallback_unwind=nmax + 2,
                claim=("VH::%s(VectorInt, flagAbs): 0 for an empty vector; otherwise the %s of (|.| of) the defined (non ITEST) elements, %s when none is defined; "
                       "nothing written, no overflow; loop closed by invariant (length <= %d)" % (which, which, init, nmax)),
                assumptions=["at most %d elements (quantifier range)" % nmax, "values within [-1e7, 1e7]: outside it the start value +-1e7 hides them (the library's integer sentinel convention)",
                             "const VectorInt& -> (const int*, int); range-for rewritten to an index loop (must-fire rule)"],
                canaries=[{"fn": f.name, "rx": r"if \(IFFFF\(v\)\) continue;", "rp": "", "expect": r"%s\.(postcondition|loop_invariant_step)" % cname}])


def unit_is_sorted(nmax=6):
    """VH::isSorted (Route C, both loops closed by invariants): true iff every consecutive pair is strictly ordered in the requested direction."""
    pre = BOOL + "#define NMAX %d\n#define ORD_(k) (ascending ? W_vec[k] > W_vec[k - 1] : W_vec[k] < W_vec[k - 1])\n" % nmax
    allp = lambda upto: AND("(%d >= %s || ORD_(%d))" % (k, upto, k) for k in range(1, nmax))
    contract = "\n".join([
        "__CPROVER_requires(0 <= vec_size && vec_size <= NMAX && vec == W_vec)",
        "__CPROVER_assigns()",
        "__CPROVER_ensures(__CPROVER_return_value == %s)" % allp("vec_size"),
    ])
    loop = lambda asc: "\n".join([
        "__CPROVER_assigns(i)",
        "__CPROVER_loop_invariant(1 <= i && (i <= nval || nval < 1) && nval == vec_size && %sascending)" % ("" if asc else "!"),
        "__CPROVER_loop_invariant(%s)" % allp("i"),
        "__CPROVER_decreases(nval - i)",
    ])
    f = Fn("VectorHelper::isSorted", "src/Basic/VectorHelper.cpp", r"^bool VectorHelper::isSorted\(const VectorDouble& vec, bool ascending\)\s*$",
           csig="bool VH_isSorted(const double* vec, int vec_size, bool ascending)", contract=contract, loops={1: loop(True), 2: loop(False)}, nloops=2,
           rewrites=[(r"\(int\) vec\.size\(\)", "vec_size", 1)])
    h = """
void vf_harness(void)
{
  vf_havoc_inputs();
  VH_isSorted(W_vec, W_n, W_asc);
  VF_REACH();
}
"""
    native = r"""
static void vf_native(void)
{
  if (!(0 <= W_n && W_n <= NMAX)) exit(77);
  int r = VH_isSorted(W_vec, W_n, W_asc), e = 1;
  for (int k = 1; k < W_n; k++) if (!(W_asc ? W_vec[k] > W_vec[k - 1] : W_vec[k] < W_vec[k - 1])) e = 0;
  __CPROVER_assert(r == e, "true exactly when every consecutive pair is strictly ordered");
}
"""
    return Unit("C11.VH.isSorted", [f], prelude=pre, harness=h, native=native, pre_inputs=BOOL, defines={"NMAX": nmax},
                inputs=[("double", "W_vec", "NMAX"), ("int", "W_n"), ("bool", "W_asc")], enforce="VH_isSorted", backends=("minisat", "cadical"), timeout=600,
                fallback_unwind=nmax + 2,
                claim="VH::isSorted returns true exactly when every consecutive pair is strictly ordered in the requested direction (ties and NaN: false); nothing written; both loops closed by invariants (length <= %d)" % nmax,
                assumptions=["at most %d elements (quantifier range)" % nmax, "const VectorDouble& -> (const double*, int)", "strict order, as the code defines it"],
                canaries=[{"fn": f.name, "rx": r"if \(vec\[i\] < vec\[i - 1\]\) continue;", "rp": "if (vec[i] > vec[i - 1]) continue;", "expect": r"VH_isSorted\.(postcondition|loop_invariant_step)"}])


def unit_is_constant(kind, nmax=6):
    """VH::isConstant (double / int), Route C, loop closed by invariant (pointer walk tied to the rank)."""
    dbl = kind == "double"
    T, V, tab = ("double", "VectorDouble", "W_vec") if dbl else ("int", "VectorInt", "W_ivec")
    cname = "VH_isConstant_" + kind
    undef = "FFFF_(refval)" if dbl else "(refval == ITEST)"
    pre = BOOL + """
#define NMAX %d
#define ITEST (-1234567)
#define FFFF_(v) ((v) > 1.0e30 || (v) != (v))
static bool FFFF(double v) { return FFFF_(v); }
static bool IFFFF(int v) { return v == ITEST; }
#define REF_ (%s ? %s[0] : refval)
""" % (nmax, undef, tab)
    allp = lambda upto, ref: AND("(%d >= %s || %s[%d] == %s)" % (k, upto, tab, k, ref) for k in range(nmax))
    contract = "\n".join([
        "__CPROVER_requires(0 <= vect_size && vect_size <= NMAX && vect == %s)" % tab,
        "__CPROVER_assigns()",
        "__CPROVER_ensures(vect_size != 0 || !__CPROVER_return_value)",
        "__CPROVER_ensures(vect_size == 0 || __CPROVER_return_value == %s)" % allp("vect_size", "REF_"),
    ])
    loop = "\n".join([
        "__CPROVER_assigns(i, iptr)",
        "__CPROVER_loop_invariant(0 <= i && i <= n && n == vect_size && iptr == %s + i)" % tab,
        "__CPROVER_loop_invariant(%s)" % allp("i", "refval"),
        "__CPROVER_decreases(n - i)",
    ])
    f = Fn("VectorHelper::isConstant(%s)" % V, "src/Basic/VectorHelper.cpp", r"^bool VectorHelper::isConstant\(const %s& vect, %s refval\)\s*$" % (V, T),
           csig="bool %s(const %s* vect, int vect_size, %s refval)" % (cname, T, T), contract=contract, loops={1: loop}, nloops=1,
           rewrites=[(r"vect\.empty\(\)", "(vect_size == 0)", 1), (r"vect\.data\(\)", "vect", 1), (r"\(int\) vect\.size\(\)", "vect_size", 1)])
    h = """
void vf_harness(void)
{
  vf_havoc_inputs();
  %s(%s, W_n, W_ref);
  VF_REACH();
}
""" % (cname, tab)
    native = r"""
static void vf_native(void)
{
  if (!(0 <= W_n && W_n <= NMAX)) exit(77);
  int r = %s(%s, W_n, W_ref);
  if (W_n == 0) { __CPROVER_assert(!r, "empty vector: false"); return; }
  %s refval = W_ref; %s ref = REF_; int e = 1;
  for (int k = 0; k < W_n; k++) if (!(%s[k] == ref)) e = 0;
  __CPROVER_assert(r == e, "true exactly when every element equals the reference value (the first element when none is given)");
}
""" % (cname, tab, T, T, tab)
    return Unit("C11.VH.isConstant." + kind, [f], prelude=pre, harness=h, native=native, pre_inputs=BOOL, defines={"NMAX": nmax},
                inputs=[(T, tab, "NMAX"), ("int", "W_n"), (T, "W_ref")], enforce=cname, backends=("minisat", "cadical"), timeout=600, fallback_unwind=nmax + 2,
                claim=("VH::isConstant(%s, refval): false for an empty vector, otherwise true exactly when every element equals refval (the first element when "
                       "refval is undefined), each pass reading the element of its own rank; nothing written; loop closed by invariant (length <= %d)" % (V, nmax)),
                assumptions=["at most %d elements (quantifier range)" % nmax, "const %s& -> (const %s*, int)" % (V, T)],
                canaries=[{"fn": f.name, "rx": r"    iptr\+\+;\n", "rp": "", "expect": r"%s\.(postcondition|loop_invariant_step)" % cname}])


def unit_count(which, nmax=6):
    """VH::countUndefined / countDefined (iterator walk -> pointer walk), Route C, loop closed by invariant."""
    und = which == "countUndefined"
    cname = "VH_" + which
    pre = BOOL + """
#define NMAX %d
#define FFFF_(v) ((v) > 1.0e30 || (v) != (v))
static bool FFFF(double v) { return FFFF_(v); }
#define HIT_(k) (%sFFFF_(W_vec[k]))
#define IDX_ ((long)(__CPROVER_POINTER_OFFSET(it) / 8))   /* rank designated by the walking pointer */
""" % (nmax, "" if und else "!")
    cnt = lambda upto: " + ".join("((%d < (%s) && HIT_(%d)) ? 1 : 0)" % (k, upto, k) for k in range(nmax))
    contract = "\n".join([
        "__CPROVER_requires(0 <= vec_size && vec_size <= NMAX && vec == W_vec)",
        "__CPROVER_assigns()",
        "__CPROVER_ensures(__CPROVER_return_value == %s)" % cnt("vec_size"),
    ])
    loop = "\n".join([
        "__CPROVER_assigns(it, count)",
        "__CPROVER_loop_invariant(__CPROVER_same_object(it, W_vec) && __CPROVER_POINTER_OFFSET(it) % 8 == 0 && 0 <= IDX_ && IDX_ <= vec_size)",
        "__CPROVER_loop_invariant(count == %s)" % cnt("IDX_"),
        "__CPROVER_decreases(vec_size - IDX_)",
    ])
    f = Fn("VectorHelper::" + which, "src/Basic/VectorHelper.cpp", r"^int VectorHelper::%s\(const VectorDouble &vec\)\s*$" % which,
           csig="int %s(const double* vec, int vec_size)" % cname, contract=contract, loops={1: loop}, nloops=1,
           rewrites=[(r"VectorDouble::const_iterator it\(vec\.begin\(\)\);", "const double* it = vec;", 1), (r"vec\.end\(\)", "(vec + vec_size)", 1)])
    h = """
void vf_harness(void)
{
  vf_havoc_inputs();
  %s(W_vec, W_n);
  VF_REACH();
}
""" % cname
    native = r"""
static void vf_native(void)
{
  if (!(0 <= W_n && W_n <= NMAX)) exit(77);
  int r = %s(W_vec, W_n), e = 0;
  for (int k = 0; k < W_n; k++) if (HIT_(k)) e++;
  __CPROVER_assert(r == e, "the number of %s elements");
}
""" % (cname, "undefined" if und else "defined")
    return Unit("C11.VH." + which, [f], prelude=pre, harness=h, native=native, pre_inputs=BOOL, defines={"NMAX": nmax},
                inputs=[("double", "W_vec", "NMAX"), ("int", "W_n")], enforce=cname, backends=("minisat", "cadical"), timeout=600, fallback_unwind=nmax + 2,
                claim="VH::%s returns the number of %s elements (undefined = NaN or > 1e30), each element counted once; nothing written; loop closed by invariant (length <= %d)" % (which, "undefined" if und else "defined", nmax),
                assumptions=["at most %d elements (quantifier range)" % nmax, "const VectorDouble& -> (const double*, int); const_iterator -> const double* (begin = data, end = data + size)"],
                canaries=[{"fn": f.name, "rx": r"count\+\+;", "rp": "count = 1;", "expect": r"%s\.(postcondition|loop_invariant_step)" % cname}])


def unit_has_undefined(nmax=6):
    pre = BOOL + "#define NMAX %d\n#define FFFF_(v) ((v) > 1.0e30 || (v) != (v))\nstatic bool FFFF(double v) { return FFFF_(v); }\n" % nmax
    anyp = lambda upto: "(" + " || ".join("(%d < %s && FFFF_(W_vec[%d]))" % (k, upto, k) for k in range(nmax)) + ")"
    contract = "\n".join([
        "__CPROVER_requires(0 <= vec_size && vec_size <= NMAX && vec == W_vec)",
        "__CPROVER_assigns()",
        "__CPROVER_ensures(__CPROVER_return_value == %s)" % anyp("vec_size"),
    ])
    loop = "\n".join([
        "__CPROVER_assigns(i)",
        "__CPROVER_loop_invariant(0 <= i && i <= n && n == vec_size && !%s)" % anyp("i"),
        "__CPROVER_decreases(n - i)",
    ])
    f = Fn("VectorHelper::hasUndefined", "src/Basic/VectorHelper.cpp", r"^bool VectorHelper::hasUndefined\(const VectorDouble& vec\)\s*$",
           csig="bool VH_hasUndefined(const double* vec, int vec_size)", contract=contract, loops={1: loop}, nloops=1,
           rewrites=[(r"\(int\) vec\.size\(\)", "vec_size", 1)])
    h = "\nvoid vf_harness(void)\n{\n  vf_havoc_inputs();\n  VH_hasUndefined(W_vec, W_n);\n  VF_REACH();\n}\n"
    native = r"""
static void vf_native(void)
{
  if (!(0 <= W_n && W_n <= NMAX)) exit(77);
  int r = VH_hasUndefined(W_vec, W_n), e = 0;
  for (int k = 0; k < W_n; k++) if (FFFF(W_vec[k])) e = 1;
  __CPROVER_assert(r == e, "true exactly when one element is undefined");
}
"""
    return Unit("C11.VH.hasUndefined", [f], prelude=pre, harness=h, native=native, pre_inputs=BOOL, defines={"NMAX": nmax},
                inputs=[("double", "W_vec", "NMAX"), ("int", "W_n")], enforce="VH_hasUndefined", backends=("minisat", "cadical"), timeout=600, fallback_unwind=nmax + 2,
                claim="VH::hasUndefined returns true exactly when one element is undefined (NaN or > 1e30); nothing written; loop closed by invariant (length <= %d)" % nmax,
                assumptions=["at most %d elements (quantifier range)" % nmax, "const VectorDouble& -> (const double*, int)"],
                canaries=[{"fn": f.name, "rx": r"int i = 0, n", "rp": "int i = 1, n", "expect": r"VH_hasUndefined\.(postcondition|loop_invariant_base)"}])


def unit_cumul(nmax=6):
    pre = BOOL + "#define NMAX %d\n#define VBOUND (2147483647 / NMAX)\n" % nmax
    tot = lambda upto: " + ".join("((%d < (%s)) ? W_ivec[%d] : 0)" % (k, upto, k) for k in range(nmax))
    contract = "\n".join([
        "__CPROVER_requires(0 <= vec_size && vec_size <= NMAX && vec == W_ivec)",
        # every partial sum is representable (machine arithmetic is then the mathematical one)
        "__CPROVER_requires(%s)" % AND("(-VBOUND <= W_ivec[%d] && W_ivec[%d] <= VBOUND)" % (k, k) for k in range(nmax)),
        "__CPROVER_assigns()",
        "__CPROVER_ensures(__CPROVER_return_value == %s)" % tot("vec_size"),
    ])
    loop = "\n".join([
        "__CPROVER_assigns(vk, total)",
        "__CPROVER_loop_invariant(0 <= vk && vk <= vec_size)",
        "__CPROVER_loop_invariant(total == %s)" % tot("vk"),
        "__CPROVER_decreases(vec_size - vk)",
    ])
    f = Fn("VectorHelper::cumul(VectorInt)", "src/Basic/VectorHelper.cpp", r"^int VectorHelper::cumul\(const VectorInt& vec\)\s*$",
           csig="int VH_cumul(const int* vec, int vec_size)", contract=contract, loops={1: loop}, nloops=1,
           rewrites=[(r"for \(const auto &v : vec\)\s*\n(\s*)\{", r"for (int vk = 0; vk < vec_size; vk++)\n\1{ const int v = vec[vk];", 1),
                     (r"int total = 0\.;", "int total = 0;", 1)])
    h = "\nvoid vf_harness(void)\n{\n  vf_havoc_inputs();\n  VH_cumul(W_ivec, W_n);\n  VF_REACH();\n}\n"
    native = r"""
static void vf_native(void)
{
  if (!(0 <= W_n && W_n <= NMAX)) exit(77);
  for (int k = 0; k < NMAX; k++) if (W_ivec[k] < -VBOUND || W_ivec[k] > VBOUND) exit(77);
  long e = 0; for (int k = 0; k < W_n; k++) e += W_ivec[k];
  __CPROVER_assert(VH_cumul(W_ivec, W_n) == e, "the sum of the elements");
}
"""
    return Unit("C11.VH.cumul", [f], prelude=pre, harness=h, native=native, pre_inputs=BOOL, defines={"NMAX": nmax},
                inputs=[("int", "W_ivec", "NMAX"), ("int", "W_n")], enforce="VH_cumul", backends=("minisat", "cadical"), timeout=600, fallback_unwind=nmax + 2,
                claim="VH::cumul(VectorInt) returns the sum of the elements, each added once, without signed overflow; nothing written; loop closed by invariant (length <= %d)" % nmax,
                assumptions=["at most %d elements (quantifier range)" % nmax, "|element| <= INT_MAX / %d so that every partial sum is representable" % nmax,
                             "const VectorInt& -> (const int*, int); range-for rewritten to an index loop; the initialiser '0.' written '0' (same value)"],
                canaries=[{"fn": f.name, "rx": r"total \+= v;", "rp": "total = v;", "expect": r"VH_cumul\.(postcondition|loop_invariant_step)"}])


def unit_is_equal_int(nmax=5):
    pre = BOOL + """
#define NMAX %d
#define I1_ ((long)(__CPROVER_POINTER_OFFSET(it1) / 4))
#define I2_ ((long)(__CPROVER_POINTER_OFFSET(it2) / 4))
""" % nmax
    allp = lambda upto: AND("(%d >= %s || W_ivec[%d] == W_ivec2[%d])" % (k, upto, k, k) for k in range(nmax))
    contract = "\n".join([
        "__CPROVER_requires(0 <= v1_size && v1_size <= NMAX && 0 <= v2_size && v2_size <= NMAX && v1 == W_ivec && v2 == W_ivec2)",
        "__CPROVER_assigns()",
        "__CPROVER_ensures(__CPROVER_return_value == (v1_size == v2_size && %s))" % allp("v1_size"),
    ])
    loop = "\n".join([
        "__CPROVER_assigns(it1, it2)",
        "__CPROVER_loop_invariant(v1_size == v2_size && __CPROVER_same_object(it1, W_ivec) && __CPROVER_same_object(it2, W_ivec2) && __CPROVER_POINTER_OFFSET(it1) % 4 == 0 && __CPROVER_POINTER_OFFSET(it2) % 4 == 0)",
        # the two walks designate the same rank
        "__CPROVER_loop_invariant(0 <= I1_ && I1_ <= v1_size && I2_ == I1_)",
        "__CPROVER_loop_invariant(%s)" % allp("I1_"),
        "__CPROVER_decreases(v1_size - I1_)",
    ])
    f = Fn("VectorHelper::isEqual(VectorInt)", "src/Basic/VectorHelper.cpp", r"^bool VectorHelper::isEqual\(const VectorInt &v1, const VectorInt &v2\)\s*$",
           csig="bool VH_isEqual_int(const int* v1, int v1_size, const int* v2, int v2_size)", contract=contract, loops={1: loop}, nloops=1,
           rewrites=[(r"v1\.size\(\) != v2\.size\(\)", "v1_size != v2_size", 1),
                     (r"VectorInt::const_iterator it1\(v1\.begin\(\)\);", "const int* it1 = v1;", 1),
                     (r"VectorInt::const_iterator it2\(v2\.begin\(\)\);", "const int* it2 = v2;", 1),
                     (r"v1\.end\(\)", "(v1 + v1_size)", 1)])
    h = "\nvoid vf_harness(void)\n{\n  vf_havoc_inputs();\n  VH_isEqual_int(W_ivec, W_n, W_ivec2, W_n2);\n  VF_REACH();\n}\n"
    native = r"""
static void vf_native(void)
{
  if (!(0 <= W_n && W_n <= NMAX && 0 <= W_n2 && W_n2 <= NMAX)) exit(77);
  int r = VH_isEqual_int(W_ivec, W_n, W_ivec2, W_n2), e = (W_n == W_n2);
  for (int k = 0; e && k < W_n; k++) if (W_ivec[k] != W_ivec2[k]) e = 0;
  __CPROVER_assert(r == e, "true exactly when the two vectors have the same length and the same elements");
}
"""
    return Unit("C11.VH.isEqual.int", [f], prelude=pre, harness=h, native=native, pre_inputs=BOOL, defines={"NMAX": nmax},
                inputs=[("int", "W_ivec", "NMAX"), ("int", "W_ivec2", "NMAX"), ("int", "W_n"), ("int", "W_n2")], enforce="VH_isEqual_int",
                backends=("minisat", "cadical"), timeout=600, fallback_unwind=nmax + 2,
                claim="VH::isEqual(VectorInt, VectorInt) returns true exactly when the two vectors have the same length and equal elements rank by rank (the two walks stay at the same rank and inside their vectors); nothing written; loop closed by invariant (length <= %d)" % nmax,
                assumptions=["at most %d elements (quantifier range)" % nmax, "const VectorInt& -> (const int*, int); const_iterator -> const int*"],
                canaries=[{"fn": f.name, "rx": r"    it2\+\+;\n", "rp": "", "expect": r"VH_isEqual_int\.(postcondition|loop_invariant_step)"}])


def units(tier):
    return [unit_dense_dims(), unit_sparse_dims(), unit_normmatrix(), unit_where("Minimum"), unit_where("Maximum"), unit_where_element(), unit_extremum("maximum"), unit_extremum("minimum"), unit_extremum_vv("maximum"), unit_extremum_vv("minimum"), unit_extremum_int("maximum"), unit_extremum_int("minimum"), unit_is_sorted(), unit_is_constant("double"), unit_is_constant("int"), unit_count("countUndefined"), unit_count("countDefined"), unit_has_undefined(), unit_cumul(), unit_is_equal_int()]


META = {
    "level": "other",
    "explanation": "(the two dimension units and the seventeen VH units (isEqual (int), whereMinimum, whereMaximum, whereElement, isSorted, isConstant (double, int), countUndefined, countDefined, hasUndefined, cumul, maximum, minimum, their vector-of-vectors and VectorInt forms) are unbounded proofs, normMatrix.terms is a bounded stand-in, hence level 'other') Shape/index contracts of the Eigen-backed dense kernels and sparse product kernels for every shape; extremum-rank contracts of VH::whereMinimum / whereMaximum (loop invariant); numerical values, sparse storage, decompositions and thread-count independence are not decidable here.",
    "trusted_base": ["CBMC 6.11 C++ front end", "Eigen (numerics)", "stub classes"],
    "assumptions": [],
    "not_covered": ["values computed by Eigen/csparse", "csparse storage of MatrixSparse and its non-product methods", "Cholesky / eigen-decomposition", "thread-count independence (no thread model)",
                    "generic AMatrix fallbacks and the other VectorHelper reductions (sum, mean, norm, ...: floating-point sums, not built)"],
}
MANIFEST = {
    "category": "other",
    "text": "Dimension-typing contracts on the Eigen-backed kernels of AMatrixDense (18 methods) and on the Eigen-storage product kernels of MatrixSparse (9 methods): loop-free, hence for every matrix shape and both transposition flags (proved); bounded (3x3) term-coverage unit on the generic congruence product normMatrix; seventeen VectorHelper units, each loop closed by an invariant (proved, lengths <= 6): whereMinimum / whereMaximum / whereElement (rank of the extremum of the defined elements, first rank of a target), maximum / minimum in their conditional, vector-of-vectors and VectorInt forms, isSorted, isConstant, countUndefined / countDefined, hasUndefined, cumul, isEqual (int); other values are not claimed.",
    "note": "Trusted: Eigen preconditions as documented; numerical results N/A.",
    "design_ref": "DESIGN.md 3 C11",
}
