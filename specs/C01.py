"""C01 — kriging output solves the documented (co)kriging system: structural contracts on the assembly / compression / data-vector
bookkeeping of KrigingSystem (covariance, drift and solve are abstract or trusted)."""
from tools.vf import Fn, Unit

KS = "src/Estimation/KrigingSystem.cpp"
BOOL = "typedef _Bool bool;\n#define true 1\n#define false 0\n"
SAMED = "#define SAMED(x, y) ((x) == (y) || ((x) != (x) && (y) != (y)))\n"


def AND(xs):
    xs = list(xs)
    return "(" + " && ".join(xs) + ")" if xs else "1"


def pos(i, neq):
    """number of kept equations before i"""
    return "(" + " + ".join("((%d < (%s) && _flag[%d] != 0) ? 1 : 0)" % (k, i, k) for k in range(neq)) + ")"


def unit_lhs_compress(neq):
    pre = BOOL + SAMED + """
#define NEQ %d
int _neq; bool _flagIsotopic; int _flag[NEQ]; double LC[NEQ][NEQ]; void* _lhs; int _lhsc_tag;
/* MatrixSquareSymmetric accessors bound to plain arrays (the full matrix is read-only here, the compressed one is written cell by cell) */
#define LHSF_get(i, j) (W_LF[i][j])
#define LHSC_set(i, j, v) (LC[i][j] = (v))
""" % neq
    P = lambda x: pos(x, neq)
    rows_done = lambda upto, tag: AND("(%d >= (%s) || _flag[%d] == 0 || %d >= _neq || _flag[%d] == 0 || SAMED(LC[%s][%s], W_LF[%d][%d]))"
                                      % (a, upto, a, b, b, P(str(a)), P(str(b)), a, b) for a in range(neq) for b in range(neq))
    contract = "\n".join([
        "__CPROVER_requires(0 <= _neq && _neq <= NEQ && !_flagIsotopic)",
        "__CPROVER_assigns(__CPROVER_object_whole(LC), _lhs)",
        # row/column POS(i) of the compressed system is row/column i of the full one, for exactly the kept equations, in increasing order
        "__CPROVER_ensures(%s)" % rows_done("_neq", "a"),
    ])
    Lo = "\n".join([
        "__CPROVER_assigns(i, ecri, ecrj, __CPROVER_object_whole(LC))",
        "__CPROVER_loop_invariant(0 <= i && i <= _neq && ecri == %s)" % P("i"),
        "__CPROVER_loop_invariant(%s)" % rows_done("i", "b"),
        "__CPROVER_decreases(_neq - i)"])
    Li = "\n".join([
        "__CPROVER_assigns(j, ecrj, __CPROVER_object_whole(LC))",
        "__CPROVER_loop_invariant(0 <= j && j <= _neq && ecrj == %s && 0 <= i && i < _neq && _flag[i] != 0 && ecri == %s)" % (P("j"), P("i")),
        "__CPROVER_loop_invariant(%s)" % rows_done("i", "c"),
        "__CPROVER_loop_invariant(%s)" % AND("(%d >= j || _flag[%d] == 0 || SAMED(LC[ecri][%s], W_LF[i][%d]))" % (b, b, P(str(b)), b) for b in range(neq)),
        "__CPROVER_decreases(_neq - j)"])
    f = Fn("KrigingSystem::_lhsIsoToHetero", KS, r"^void KrigingSystem::_lhsIsoToHetero\(\)\s*$", csig="void KrigingSystem_lhsIsoToHetero(void)",
           contract=contract, loops={1: Lo, 2: Li}, nloops=2,
           rewrites=[(r"_lhsc\.setValue\(ecri, ecrj, _lhsf\.getValue\((\w+),\s*(\w+),false\), false\);", r"LHSC_set(ecri, ecrj, LHSF_get(\1, \2));", 1),
                     (r"_lhs = &_lhsc;", "_lhs = &_lhsc_tag;", 1)])
    h = """
void vf_harness(void)
{
  vf_havoc_inputs();
  _neq = W_neq; _flagIsotopic = 0;
  for (int k = 0; k < NEQ; k++) _flag[k] = W_flag[k];
  KrigingSystem_lhsIsoToHetero();
  VF_REACH();
}
"""
    return Unit("C01.lhsIsoToHetero", [f], prelude=pre, harness=h, pre_inputs=BOOL, defines={"NEQ": neq},
                inputs=[("double", "W_LF[NEQ]", "NEQ"), ("int", "W_flag", "NEQ"), ("int", "W_neq")], enforce="KrigingSystem_lhsIsoToHetero",
                backends=("minisat", "cadical"), timeout=900, split=True, fallback_unwind=neq + 2,
                claim=("KrigingSystem::_lhsIsoToHetero: cell (pos(i), pos(j)) of the compressed left-hand side is cell (i, j) of the full one for exactly the "
                       "equations whose flag is set, pos = number of kept equations before — same order for rows and columns; both loops closed by "
                       "invariants (equations <= %d)" % neq),
                assumptions=["at most %d equations (quantifier range)" % neq, "matrix accessors bound to plain arrays (2 must-fire rewrites)"],
                canaries=[{"fn": "KrigingSystem::_lhsIsoToHetero", "rx": r"_lhsf\.getValue\(i,j,false\)", "rp": "_lhsf.getValue(j,i,false)", "expect": r"postcondition|loop_invariant_step",
                           "thorough_only": False},
                          {"fn": "KrigingSystem::_lhsIsoToHetero", "rx": r"      ecrj\+\+;", "rp": "      if (j > 0) ecrj++;", "expect": r"postcondition|loop_invariant"}])


def unit_dual_data(nech, nvar):
    neq = nech * nvar
    pre = BOOL + SAMED + """
#define NE %d
#define NV %d
int _nech, _nvar; int _flag[NE * NV]; int _nbgh[NE]; double ZEXT[NE * NV]; bool _flagLTerm, _flagDataChanged;
#define IND(iech, ivar)   ((iech) + (ivar) * _nech)
static int _getFLAG(int iech, int ivar) { return _flag[IND(iech, ivar)]; }
double __CPROVER_uninterpreted_mean(int);
double __CPROVER_uninterpreted_z(int, int);
static double _getMean(int ivar, bool flagLHS) { return __CPROVER_uninterpreted_mean(ivar); }
static double _getIvar(int rank, int ivar) { return __CPROVER_uninterpreted_z(rank, ivar); }
""" % (nech, nvar)
    f = Fn("KrigingSystem::_dualCalcul", KS, r"^void KrigingSystem::_dualCalcul\(\)\s*$", csig="void KrigingSystem_dualCalcul(void)",
           rewrites=[(r"_zext\.setValue\(ecr, 0, (.*?), false\);", r"ZEXT[ecr] = (\1);", 1),
                     (r"_zam\.prodMatMatInPlace\(&_lhsinv, &_zext\);", "/* zam = lhsinv * zext : trusted product */", 1),
                     (r"(?s)MatrixSquareGeneral ltermMat\(1\);.*?_lterm = ltermMat\.getValue\(0,0\);", "/* lterm: trusted product */", 1)])
    h = """
void vf_harness(void)
{
  vf_havoc_inputs();
  _nech = NE; _nvar = NV;           /* fixed sizes (bounded stand-in): keeps every matrix index constant after unwinding */
  for (int k = 0; k < NE * NV; k++) _flag[k] = W_flag[k];
  for (int k = 0; k < NE; k++) { _nbgh[k] = W_nbgh[k]; __CPROVER_assume(0 <= _nbgh[k] && _nbgh[k] < NE); }
  KrigingSystem_dualCalcul();
  /* the data vector uses the SAME order as the kept equations of the compressed left-hand side: position = number of kept equations
     before IND(iech, ivar) = iech + ivar * nech */
  for (int ivar = 0; ivar < NV; ivar++) for (int iech = 0; iech < NE; iech++) if (ivar < _nvar && iech < _nech && _flag[iech + ivar * _nech] != 0) {
    int p = 0; for (int k = 0; k < NE * NV; k++) if (k < iech + ivar * _nech && _flag[k] != 0) p++;
    __CPROVER_assert(SAMED(ZEXT[p], __CPROVER_uninterpreted_z(_nbgh[iech], ivar) - __CPROVER_uninterpreted_mean(ivar)),
                     "data vector entry of a kept equation = value of THAT neighbourhood sample and variable minus the mean of the variable");
  }
  VF_REACH();
}
"""
    return Unit("C01.dualCalcul.data_order", [f], prelude=pre, harness=h, pre_inputs=BOOL, unwind=neq + 2,
                inputs=[("int", "W_flag", str(neq)), ("int", "W_nbgh", str(nech)),
                        ("int", "W_nech"), ("int", "W_nvar")],
                checks=["--bounds-check", "--pointer-check", "--signed-overflow-check"], backends=("minisat", "cadical", "cvc5"), timeout=600, split="assert",
                bounded="exactly %d neighbourhood samples and %d variables, any pattern of dropped equations (unwinding assertions)" % (nech, nvar),
                claim=("KrigingSystem::_dualCalcul extracts the data vector in the order of the kept equations of the compressed system, each entry being the "
                       "value of the corresponding neighbourhood sample (through its rank) and variable minus that variable's mean"),
                assumptions=["BOUNDED stand-in", "matrix products (A^-1 z, z^T A^-1 z) dropped by must-fire rewrites: trusted"],
                canaries=[{"fn": "KrigingSystem::_dualCalcul", "rx": r"_getIvar\(_nbgh\[iech\], ivar\)", "rp": "_getIvar(iech, ivar)", "expect": r"assertion"}])


def unit_lhs_assembly(nech, nvar, nfeq):
    pre = BOOL + SAMED + """
#define NE %d
#define NV %d
#define NB %d
#define NEQF (NE * NV + NB)
int _nech, _nvar, _nfeq, _nbfl, _iechOut; bool _flagVerr, _flagCode; int _nbgh[NE]; double LF[NEQF][NEQF]; double COVTAB[NV][NV];
int g_p1, g_p2;                         /* ghost: data-base ranks carried by the two work points */
#define IND(iech, ivar)   ((iech) + (ivar) * _nech)
static void VF_p_setTarget(int which, bool t) {}
static void VF_updateCovByPoints(int a, int r1, int b, int r2) {}
static bool VF_isStationary(void) { return W_stationary; }
/* covariance model: an arbitrary table — C(0) for a stationary model, C(sample1, sample2) otherwise */
double __CPROVER_uninterpreted_cov0(int, int);
double __CPROVER_uninterpreted_cov(int, int, int, int);
double __CPROVER_uninterpreted_verr(int, int);
double __CPROVER_uninterpreted_drift(int, int, int);
static void _covtab0Calcul(int icas, int rank, void* mode) { for (int a = 0; a < NV; a++) for (int b = 0; b < NV; b++) COVTAB[a][b] = __CPROVER_uninterpreted_cov0(a, b); }
static void VF_evalCovKriging(void) { for (int a = 0; a < NV; a++) for (int b = 0; b < NV; b++) COVTAB[a][b] = __CPROVER_uninterpreted_cov(g_p1, g_p2, a, b); }
static double _getCOVTAB(int ivar, int jvar) { return COVTAB[ivar][jvar]; }
/* MatrixSquareSymmetric::setValue writes the cell and its symmetric */
static void VF_lhsf_set(int i, int j, double v) { LF[i][j] = v; LF[j][i] = v; }
static double VF_lhsf_get(int i, int j) { return LF[i][j]; }
#define ELOC_V 1
#define ELOC_C 2
static double VF_getLocVariable(int loc, int rank, int item) { return loc == ELOC_V ? __CPROVER_uninterpreted_verr(rank, item) : 0.; }
double __CPROVER_uninterpreted_verrOut(int, int);
static double VF_getLocVariableOut(int loc, int rank, int item) { return loc == ELOC_V ? __CPROVER_uninterpreted_verrOut(rank, item) : 0.; }
static bool VF_getFlagContinuous(void) { return 0; }
static double _continuousMultiplier(int r1, int r2) { return 0.; }
static double VF_evalDriftValue(int rank, int ivar, int ib) { return __CPROVER_uninterpreted_drift(rank, ivar, ib); }
static bool FFFF(double v) { return v > 1.0e30 || v != v; }
""" % (nech, nvar, nfeq)
    acc = [Fn("KrigingSystem::_setLHSF", KS, r"^void KrigingSystem::_setLHSF\(int iech, int ivar, int jech, int jvar, double value\)\s*$",
              csig="void _setLHSF(int iech, int ivar, int jech, int jvar, double value)", rewrites=[(r"_lhsf\.setValue\(indi, indj, value, false\);", "VF_lhsf_set(indi, indj, value);", 1)]),
           Fn("KrigingSystem::_addLHSF", KS, r"^void KrigingSystem::_addLHSF\(int iech, int ivar, int jech, int jvar, double value\)\s*$",
              csig="void _addLHSF(int iech, int ivar, int jech, int jvar, double value)", rewrites=[(r"_lhsf\.setValue\(indi, indj, _lhsf\.getValue\(indi, indj, false\) \+ value, false\);", "VF_lhsf_set(indi, indj, VF_lhsf_get(indi, indj) + value);", "opt"),
                                                                                                     (r"_lhsf\.(\w+)\(", r"VF_lhsf_\1(", "opt")]),
           # helper a refactor may route the error variance through (real text; the target-side branch reads the output Db)
           Fn("KrigingSystem::_getVerr", KS, r"^double KrigingSystem::_getVerr\(int rank, int ivar\) const\s*$", csig="double _getVerr(int rank, int ivar)",
              rewrites=[(r"_dbin->getLocVariable\(ELoc::(\w),", r"VF_getLocVariable(ELOC_\1,", 1), (r"_dbout->getLocVariable\(ELoc::(\w),", r"VF_getLocVariableOut(ELOC_\1,", 1)]),
           Fn("KrigingSystem::_getLHSF", KS, r"^double KrigingSystem::_getLHSF\(int iech, int ivar, int jech, int jvar\) const\s*$",
              csig="double _getLHSF(int iech, int ivar, int jech, int jvar)", rewrites=[(r"_lhsf\.getValue\(indi, indj, false\)", "VF_lhsf_get(indi, indj)", 1)])]
    f = Fn("KrigingSystem::_lhsCalcul", KS, r"^void KrigingSystem::_lhsCalcul\(\)\s*$", csig="void KrigingSystem_lhsCalcul(void)",
           rewrites=[(r"_p1\.setTarget\(false\);", "VF_p_setTarget(1, false);", 1), (r"_p2\.setTarget\(false\);", "VF_p_setTarget(2, false);", 1),
                     (r"_p1\.setIech\(", "g_p1 = (", 1), (r"_p2\.setIech\(", "g_p2 = (", 1),
                     (r"_cova->updateCovByPoints\(", "VF_updateCovByPoints(", 1), (r"_cova->isStationary\(\)", "VF_isStationary()", 1),
                     (r"&_calcModeLHS", "NULL", None),
                     (r"_cova->evalCovKriging\(_covtab,_p1,_p2,NULL\);", "VF_evalCovKriging();", 1),
                     (r"_dbin->getLocVariable\(ELoc::(\w),", r"VF_getLocVariable(ELOC_\1,", None),
                     (r"_neigh->getFlagContinuous\(\)", "VF_getFlagContinuous()", 1),
                     # the sample argument is kept as the code writes it: the contract pins it to the neighbourhood rank _nbgh[iech]
                     (r"_model->evalDriftValue\(_dbin,\s*([^,()]+(?:\[[^\]]*\])?),\s*(\w+),\s*(\w+),\s*ECalcMember::LHS\)", r"VF_evalDriftValue(\1, \2, \3)", 1)])
    h = """
void vf_harness(void)
{
  vf_havoc_inputs();
  _nech = NE; _nvar = NV; _nfeq = NB; _nbfl = NB; _flagVerr = W_flagVerr; _flagCode = 0;     /* fixed sizes (bounded stand-in) */
  for (int k = 0; k < NE; k++) { _nbgh[k] = W_nbgh[k]; __CPROVER_assume(0 <= _nbgh[k] && _nbgh[k] < NE); }
  for (int a = 0; a < NEQF; a++) for (int b = 0; b < NEQF; b++) LF[a][b] = 0.;
  KrigingSystem_lhsCalcul();
  for (int i = 0; i < NE; i++) for (int j = 0; j < NE; j++) for (int iv = 0; iv < NV; iv++) for (int jv = 0; jv < NV; jv++)
    if (j <= i && i < _nech && iv < _nvar && jv < _nvar) {
      double c = (i == j && W_stationary) ? __CPROVER_uninterpreted_cov0(iv, jv) : __CPROVER_uninterpreted_cov(_nbgh[i], _nbgh[j], iv, jv);
      double v = __CPROVER_uninterpreted_verr(_nbgh[i], iv);
      bool addv = _flagVerr && i == j && iv == jv && !FFFF(v) && v > 0;
      /* (with i == j and iv != jv the cell (i,iv),(i,jv) is written twice — as (iv,jv) and as (jv,iv) — the later write wins) */
      if (!(i == j && iv != jv)) {
        __CPROVER_assert(SAMED(LF[i + iv * _nech][j + jv * _nech], addv ? c + v : c),
                         "LHS cell ((i,iv),(j,jv)) = covariance between neighbourhood samples i and j, variables iv and jv (+ error variance on the diagonal)");
        __CPROVER_assert(SAMED(LF[j + jv * _nech][i + iv * _nech], LF[i + iv * _nech][j + jv * _nech]), "the covariance block is symmetric");
      }
    }
  for (int i = 0; i < NE; i++) for (int iv = 0; iv < NV; iv++) for (int ib = 0; ib < NB; ib++) if (i < _nech && iv < _nvar && ib < _nfeq) {
    __CPROVER_assert(SAMED(LF[i + iv * _nech][ib + _nvar * _nech], __CPROVER_uninterpreted_drift(_nbgh[i], iv, ib)), "drift column: drift function ib at neighbourhood sample i for variable iv");
    __CPROVER_assert(SAMED(LF[ib + _nvar * _nech][i + iv * _nech], __CPROVER_uninterpreted_drift(_nbgh[i], iv, ib)), "drift row is the transpose of the drift column");
  }
  for (int a = 0; a < NB; a++) for (int b = 0; b < NB; b++) if (a < _nfeq && b < _nfeq)
    __CPROVER_assert(LF[a + _nvar * _nech][b + _nvar * _nech] == 0., "the lower-right block stays zero");
  VF_REACH();
}
"""
    return Unit("C01.lhsCalcul.assembly", acc + [f], prelude=pre, harness=h, pre_inputs=BOOL + "#define NULL ((void*)0)\n", unwind=nech * nvar + nfeq + 2,
                inputs=[("int", "W_nbgh", str(nech)), ("int", "W_nech"), ("int", "W_nvar"), ("int", "W_nfeq"),
                        ("bool", "W_stationary"), ("bool", "W_flagVerr")],
                checks=["--bounds-check", "--pointer-check", "--signed-overflow-check"], backends=("minisat", "cadical"), timeout=900, split="assert",
                bounded="exactly %d neighbourhood samples, %d variables, %d drift equations (unwinding assertions)" % (nech, nvar, nfeq),
                claim=("KrigingSystem::_lhsCalcul assembles [Sigma X; X^t 0]: the covariance block holds, for every pair of neighbourhood samples (through "
                       "their data-base ranks) and pair of variables, the model covariance of exactly those (C(0) on the diagonal of a stationary model) plus "
                       "the measurement-error variance on the diagonal; drift columns/rows hold the drift functions of those samples both ways; the lower-right "
                       "block is zero"),
                assumptions=["BOUNDED stand-in", "covariance, drift and error-variance functions are uninterpreted functions of (sample rank(s), variable(s), drift index) (ACov::evalCovKriging, Model::evalDriftValue trusted)",
                             "code/continuous-kriging options off in this unit", "MatrixSquareSymmetric::setValue modelled as writing the cell and its symmetric"],
                canaries=[{"fn": "KrigingSystem::_lhsCalcul", "rx": r"_p2\.setIech\(_nbgh\[jech\]\);", "rp": "_p2.setIech(jech);", "expect": r"assertion"}])


def unit_flagdefine_shared():
    """the equations kept in the system are exactly those of the (sample, variable) pairs, drift and constraint rows defined for THIS neighbourhood (unit shared with C05)"""
    import copy
    from specs import C05
    u = copy.copy(C05.unit_flagdefine())
    u.name = "C01.flagDefine"
    u.claim = "[the system is assembled over exactly the samples / variables of the current neighbourhood: no equation is dropped or kept because of an earlier neighbourhood] " + u.claim
    return u


def units(tier):
    return [unit_lhs_compress(4 if tier == "quick" else 6), unit_dual_data(3, 2), unit_lhs_assembly(2, 2, 2), unit_flagdefine_shared()]


META = {
    "level": "other",
    "explanation": ("Structural contracts on the assembly and index bookkeeping of the kriging system (which sample, which variable, which cell, which order); the "
                    "numerical solve and every value equality of the property are trusted / not decidable here."),
    "trusted_base": ["CBMC 6.11", "ACov::evalCovKriging, Model::evalDriftValue (values)", "matrix inversion / products", "Cholesky"],
    "assumptions": [],
    "not_covered": ["right-hand side assembly for block/drift targets", "the solve (_lhsInvert, _wgtCalcul)", "estimate / stdev / varZ formulas", "numerical accuracy"],
}
MANIFEST = {
    "category": "other",
    "text": ("Contracts on the left-hand-side assembly (bounded sizes), on the compression of the heterotopic system (loops closed by invariants) and on the order of the "
             "data vector; the numerical solution is trusted."),
    "note": "Partial claim: bookkeeping only; values/solve N/A.",
    "design_ref": "DESIGN.md 3 C01",
}
