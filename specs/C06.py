"""C06 — moving neighbourhood and k-NN return exactly the specified samples.

Units (all Route C: real bodies from src/Tree/neighbors_heap.cpp, src/Tree/ball_algorithm.cpp,
src/Neigh/NeighMoving.cpp)."""
from tools.vf import Fn, Unit

HEAP = "src/Tree/neighbors_heap.cpp"
BALL = "src/Tree/ball_algorithm.cpp"
HDR = "include/Tree/ball_algorithm.h"


def types():
    return [
        Fn("struct t_nheap", HDR, r"^struct t_nheap\s*$", take="struct"),
        Fn("t_nodedata", HDR, r"^typedef struct\s*$(?=\s*\{\s*int idx_start)", take="struct",
           csig="struct t_nodedata_s\n"),
        Fn("struct t_btree", HDR, r"^struct t_btree\s*$", take="struct"),
    ]


TYPES_PRE = "typedef struct t_nheap t_nheap; typedef struct t_btree t_btree; typedef struct t_nodedata_s t_nodedata;\n"


def helpers(nmax):
    """Pure straight-line spec functions over a (dist, idx) slice of at most nmax entries."""
    cnt = " + ".join("((%d < n) & (d[%d < n ? %d : 0] == w) & (ix[%d < n ? %d : 0] == j))" % (k, k, k, k, k)
                     for k in range(nmax))
    mn = "".join("  if (%d < n && d[%d] < m) m = d[%d];\n" % (k, k, k) for k in range(nmax))
    mx = "".join("  if (%d < n && d[%d] > m) m = d[%d];\n" % (k, k, k) for k in range(nmax))
    cntm = " + ".join("((%d < (n)) & ((d)[%d] == (w)) & ((ix)[%d] == (j)))" % (k, k, k) for k in range(nmax))
    cnth = " + ".join("((%d < (n)) & (H((d)[%d]) == (w)) & (H((ix)[%d]) == (j)))" % (k, k, k) for k in range(nmax))
    return ("#define VF_CNT(d, ix, n, w, j) (%s)\n#define VF_CNT_H(H, d, ix, n, w, j) (%s)\n" % (cntm, cnth)) + """
#ifndef INFINITY
#define INFINITY (__builtin_inf())
#endif
/* number of slots k<n holding the pair (w,j) */
int vf_cnt(const double* d, const int* ix, int n, double w, int j) { return %s; }
double vf_min(const double* d, int n) { double m = INFINITY;\n%s  return m; }
double vf_max(const double* d, int n) { double m = -INFINITY;\n%s  return m; }
""" % (cnt, mn, mx)


def q_heap(D, n, tag):
    # max-heap order on D[0..n): every parent >= child
    return ("__CPROVER_forall { int k%s; (1 <= k%s && k%s < NMAX) ==> (k%s >= (%s) || (%s)[(k%s - 1) / 2] >= (%s)[k%s]) }"
            % (tag, tag, tag, tag, n, D, tag, D, tag))


def q_nonan(D, n, tag):
    return ("__CPROVER_forall { int k%s; (0 <= k%s && k%s < NMAX) ==> (k%s >= (%s) || (%s)[k%s] == (%s)[k%s]) }"
            % (tag, tag, tag, tag, n, D, tag, D, tag))


def q_sorted(D, n, tag):
    return ("__CPROVER_forall { int k%s; (1 <= k%s && k%s < NMAX) ==> (k%s >= (%s) || (%s)[k%s - 1] <= (%s)[k%s]) }"
            % (tag, tag, tag, tag, n, D, tag, D, tag))


def unit_nheap_push(nmax):
    D = "h->distances[row]"
    I = "h->indices[row]"
    n = "h->n_nbrs"
    contract = "\n".join([
        "__CPROVER_requires(row == 0 && 1 <= %s && %s <= NMAX)" % (n, n),
        "__CPROVER_requires(val == val)",
        "__CPROVER_requires(%s)" % q_nonan(D, n, "a"),
        "__CPROVER_requires(%s)" % q_heap(D, n, "b"),
        "__CPROVER_assigns(__CPROVER_object_whole(%s), __CPROVER_object_whole(%s), vf_oldroot)" % (D, I),
        # representation invariant preserved
        "__CPROVER_ensures(%s)" % q_heap(D, n, "c"),
        "__CPROVER_ensures(%s)" % q_nonan(D, n, "d"),
        "__CPROVER_ensures(__CPROVER_return_value == 0)",
        # the pair multiset: for the arbitrary ghost pair (W_gw, W_gj)
        "__CPROVER_ensures(val > __CPROVER_old(%s[0]) ==> "
        "VF_CNT(%s, %s, %s, W_gw, W_gj) == VF_CNT_H(__CPROVER_old, %s, %s, %s, W_gw, W_gj))" % (D, D, I, n, D, I, n),
        "__CPROVER_ensures(!(val > __CPROVER_old(%s[0])) ==> "
        "VF_CNT(%s, %s, %s, W_gw, W_gj) == VF_CNT_H(__CPROVER_old, %s, %s, %s, W_gw, W_gj)"
        " - ((__CPROVER_old(%s[0]) == W_gw) & (__CPROVER_old(%s[0]) == W_gj)) + ((val == W_gw) & (i_val == W_gj)))"
        % (D, D, I, n, D, I, n, D, I),
        # root is the maximum afterwards (consequence of heap order, stated for callers)
        "__CPROVER_ensures(__CPROVER_forall { int ke; (0 <= ke && ke < NMAX) ==> (ke >= %s || %s[ke] <= %s[0]) })" % (n, D, D),
        # never grows the root: new root <= max(old root, val)... and the pushed value is <= new root when accepted
        "__CPROVER_ensures(!(val > __CPROVER_old(%s[0])) ==> %s[0] <= __CPROVER_old(%s[0]))" % (D, D, D),
    ])
    loop = "\n".join([
        "__CPROVER_assigns(i, ic1, ic2, i_swap, __CPROVER_object_whole(dist_arr), __CPROVER_object_whole(ind_arr))",
        "__CPROVER_loop_invariant(0 <= i && i < size)",
        "__CPROVER_loop_invariant(size == h->n_nbrs && dist_arr == h->distances[row] && ind_arr == h->indices[row])",
        # heap order on every edge not leaving the hole when the hole is the root
        "__CPROVER_loop_invariant(__CPROVER_forall { int kf; (1 <= kf && kf < NMAX) ==> "
        "(kf >= size || ((kf - 1) / 2 == i && i == 0) || dist_arr[(kf - 1) / 2] >= dist_arr[kf]) })",
        "__CPROVER_loop_invariant(i == 0 || (dist_arr[(i - 1) / 2] >= val && dist_arr[i] > val))",
        "__CPROVER_loop_invariant(__CPROVER_forall { int kg; (0 <= kg && kg < NMAX) ==> (kg >= size || dist_arr[kg] == dist_arr[kg]) })",
        # every entry stays below the old root
        "__CPROVER_loop_invariant(__CPROVER_forall { int kh; (0 <= kh && kh < NMAX) ==> (kh >= size || dist_arr[kh] <= vf_oldroot) })",
        # ghost pair count, with the hole slot counted as (val, i_val)
        "__CPROVER_loop_invariant(VF_CNT(dist_arr, ind_arr, size, W_gw, W_gj)"
        " - ((dist_arr[i] == W_gw) & (ind_arr[i] == W_gj)) == "
        "VF_CNT_H(__CPROVER_loop_entry, dist_arr, ind_arr, size, W_gw, W_gj) - ((val == W_gw) & (i_val == W_gj)))",
        "__CPROVER_decreases(size - i)",
    ])
    fn = Fn("nheap_push", HEAP, r"^int nheap_push\(t_nheap\* h, int row, double val, int i_val\)\s*$",
            contract=contract, loops={1: loop},
            rewrites=[
                # ghost snapshots for the loop invariant (annotation only: two ghost assignments)
                (r"(dist_arr\[0\] = val;)", r"vf_oldroot = dist_arr[0]; \1", 1),
            ])
    harness = """
void vf_harness(void)
{
  vf_havoc_inputs();
  double* drows[1] = { W_D };
  int*    irows[1] = { W_I };
  t_nheap h;
  h.n_pts = 1; h.n_nbrs = W_size; h.distances = drows; h.indices = irows;
  nheap_push(&h, 0, W_val, W_ival);
  VF_REACH();
}
"""
    native = r"""
static int nat_cnt(const double* d, const int* ix, int n, double w, int j)
{ int c = 0; for (int k = 0; k < n; k++) if (d[k] == w && ix[k] == j) c++; return c; }
static void vf_native(void)
{
  int n = W_size;
  if (!(1 <= n && n <= NMAX) || W_val != W_val) { printf("REPLAY-ASSUME-FALSE\n"); exit(77); }
  for (int k = 0; k < n; k++) if (W_D[k] != W_D[k]) exit(77);
  for (int k = 1; k < n; k++) if (!(W_D[(k - 1) / 2] >= W_D[k])) exit(77);
  double D0[NMAX]; int I0[NMAX];
  memcpy(D0, W_D, sizeof D0); memcpy(I0, W_I, sizeof I0);
  double* drows[1] = { W_D }; int* irows[1] = { W_I };
  t_nheap h; h.n_pts = 1; h.n_nbrs = n; h.distances = drows; h.indices = irows;
  int r = nheap_push(&h, 0, W_val, W_ival);
  __CPROVER_assert(r == 0, "return value");
  for (int k = 1; k < n; k++) __CPROVER_assert(W_D[(k - 1) / 2] >= W_D[k], "heap order after push");
  /* multiset: check for every pair present before/after and the pushed pair */
  for (int t = 0; t < 2 * n + 1; t++) {
    double w = t < n ? D0[t] : (t < 2 * n ? W_D[t - n] : W_val);
    int j = t < n ? I0[t] : (t < 2 * n ? W_I[t - n] : W_ival);
    int before = nat_cnt(D0, I0, n, w, j), after = nat_cnt(W_D, W_I, n, w, j);
    if (W_val > D0[0]) __CPROVER_assert(after == before, "rejected push leaves the pair multiset unchanged");
    else __CPROVER_assert(after == before - (D0[0] == w && I0[0] == j) + (W_val == w && W_ival == j),
                          "accepted push replaces exactly the old root by the new pair");
  }
}
"""
    return Unit(
        "C06.nheap_push", types() + [fn],
        prelude=TYPES_PRE + helpers(nmax) + "double vf_oldroot;\n",
        harness=harness,
        inputs=[("double", "W_D", "NMAX"), ("int", "W_I", "NMAX"), ("int", "W_size"), ("double", "W_val"),
                ("int", "W_ival"), ("double", "W_gw"), ("int", "W_gj")],
        defines={"NMAX": nmax}, enforce="nheap_push", backends=("minisat", "cadical"), timeout=900,
        bounded=None, native=native,
        claim=("nheap_push keeps the max-heap invariant of a k-NN row and changes its (distance,index) multiset by "
               "exactly: nothing when val > root, else old root replaced by (val,i_val); sift loop closed by invariant "
               "(row capacity <= %d)" % nmax),
        assumptions=["row capacity n_nbrs <= %d (quantifier range; the sift loop itself is closed by its invariant)" % nmax,
                     "distances are not NaN (property excludes undefined coordinates)"],
        canaries=[
            {"fn": "nheap_push", "rx": r"dist_arr\[ic1\] >= dist_arr\[ic2\]", "rp": "dist_arr[ic1] <= dist_arr[ic2]",
             "expect": r"nheap_push\.(postcondition|loop_invariant_step)"},
            {"fn": "nheap_push", "rx": r"ind_arr\[i\]  = ind_arr\[i_swap\];", "rp": "ind_arr[i]  = ind_arr[i];",
             "expect": r"nheap_push\.(postcondition|loop_invariant_step)"},
        ])


def q_subset(Dnew, H, Dold, n, tag, nmax):
    """every new element (k<n) equals some old element (j<n): forall k, OR_j"""
    ors = " || ".join("(%d < (%s) && %s((%s)[%d]) == (%s)[k%s])" % (j, n, H, Dold, j, Dnew, tag) for j in range(nmax))
    return ("__CPROVER_forall { int k%s; (0 <= k%s && k%s < NMAX) ==> (k%s >= (%s) || %s) }" % (tag, tag, tag, tag, n, ors))


def q_range(D, n, lo, hi, tag):
    return ("__CPROVER_forall { int k%s; (0 <= k%s && k%s < NMAX) ==> (k%s >= (%s) || ((%s) <= (%s)[k%s] && (%s)[k%s] <= (%s))) }"
            % (tag, tag, tag, tag, n, lo, D, tag, D, tag, hi))


SORT_NATIVE = r"""
static int nat_cnt(const double* d, const int* ix, int n, double w, int j)
{ int c = 0; for (int k = 0; k < n; k++) if (d[k] == w && ix[k] == j) c++; return c; }
static void vf_native(void)
{
  int n = W_size;
  if (!(0 <= n && n <= NMAX)) exit(77);
  for (int k = 0; k < n; k++) if (W_D[k] != W_D[k]) exit(77);
  double D0[2 * NMAX]; int I0[2 * NMAX];
  memcpy(D0, W_D, sizeof D0); memcpy(I0, W_I, sizeof I0);
  simultaneous_sort(W_D, W_I, n);
  for (int k = 1; k < n; k++) __CPROVER_assert(W_D[k - 1] <= W_D[k], "ascending order after simultaneous_sort");
  for (int t = 0; t < n; t++)
    __CPROVER_assert(nat_cnt(D0, I0, n, D0[t], I0[t]) == nat_cnt(W_D, W_I, n, D0[t], I0[t]), "pair multiset preserved");
  if (vf_fail) return;
  /* the modular counterexample need not be a concrete failing input (recursive calls were replaced by their
     contract): bounded search for one over all permutations of 0..m-1, m <= 7 */
  for (int m = 2; m <= 7 && m <= NMAX && !vf_fail; m++) {
    int perm[8]; for (int k = 0; k < m; k++) perm[k] = k;
    for (;;) {
      double d[8]; int ix[8];
      for (int k = 0; k < m; k++) { d[k] = perm[k]; ix[k] = 100 + perm[k]; }
      simultaneous_sort(d, ix, m);
      int bad = 0;
      for (int k = 0; k < m; k++) if (d[k] != k || ix[k] != 100 + k) bad = 1;
      if (bad) { printf("failing input found by permutation search: size=%d dist=", m);
                 for (int k = 0; k < m; k++) printf("%d ", perm[k]);
                 printf("\n"); __CPROVER_assert(0, "simultaneous_sort does not sort this permutation"); break; }
      int i = m - 2; while (i >= 0 && perm[i] > perm[i + 1]) i--;
      if (i < 0) break;
      int j = m - 1; while (perm[j] < perm[i]) j--;
      int t = perm[i]; perm[i] = perm[j]; perm[j] = t;
      for (int a = i + 1, b = m - 1; a < b; a++, b--) { t = perm[a]; perm[a] = perm[b]; perm[b] = t; }
    }
  }
}
"""

SORT_HARNESS = """
void vf_harness(void)
{
  vf_havoc_inputs();
  vf_lo = W_lo; vf_hi = W_hi;
  simultaneous_sort(W_D, W_I, W_size);
  VF_REACH();
}
"""
SORT_SIG = r"^void simultaneous_sort\(double\* dist, int\* idx, int size\)\s*$"
# ghost bounds handed to the two recursive calls (annotation only: ghost assignments before each call)
SORT_GHOST = [
    (r"(if \(pivot_idx > 1\) )(simultaneous_sort\(dist, idx, pivot_idx\);)",
     r"\1{ double vf_s = vf_hi; vf_hi = pivot_val; \2 vf_hi = vf_s; }", 1),
    (r"(if \(pivot_idx [^\n]{1,12} size\)\s*\n\s*)(simultaneous_sort\(dist \+ pivot_idx \+ 1, idx \+ pivot_idx \+ 1,\s*\n\s*size - pivot_idx - 1\);)",
     r"\1{ double vf_s = vf_lo; vf_lo = pivot_val; \2 vf_lo = vf_s; }", 1),
]


def unit_sort_order(nmax):
    """ascending order (+ value range preservation, which the recursion needs)"""
    contract = "\n".join([
        "__CPROVER_requires(0 <= size && size <= NMAX)",
        "__CPROVER_requires(%s)" % q_nonan("dist", "size", "a"),
        "__CPROVER_requires(vf_lo == vf_lo && vf_hi == vf_hi)",
        "__CPROVER_requires(%s)" % q_range("dist", "size", "vf_lo", "vf_hi", "r"),
        "__CPROVER_assigns(__CPROVER_object_upto(dist, size * sizeof(double)), __CPROVER_object_upto(idx, size * sizeof(int)), vf_lo, vf_hi)",
        "__CPROVER_ensures(%s)" % q_sorted("dist", "size", "b"),
        "__CPROVER_ensures(%s)" % q_nonan("dist", "size", "c"),
        "__CPROVER_ensures(%s)" % q_range("dist", "size", "vf_lo", "vf_hi", "s"),
        "__CPROVER_ensures(vf_lo == __CPROVER_old(vf_lo) && vf_hi == __CPROVER_old(vf_hi))",
    ])
    loop = "\n".join([
        "__CPROVER_assigns(i, store_idx, __CPROVER_object_upto(dist, size * sizeof(double)), __CPROVER_object_upto(idx, size * sizeof(int)))",
        "__CPROVER_loop_invariant(0 <= store_idx && store_idx <= i && i <= size - 1 && size >= 4 && size <= NMAX)",
        "__CPROVER_loop_invariant(dist[size - 1] == pivot_val)",
        "__CPROVER_loop_invariant(__CPROVER_forall { int ke; (0 <= ke && ke < NMAX) ==> (ke >= store_idx || dist[ke] < pivot_val) })",
        "__CPROVER_loop_invariant(__CPROVER_forall { int kf; (0 <= kf && kf < NMAX) ==> (kf < store_idx || kf >= i || dist[kf] >= pivot_val) })",
        "__CPROVER_loop_invariant(%s)" % q_nonan("dist", "size", "g"),
        "__CPROVER_loop_invariant(%s)" % q_range("dist", "size", "vf_lo", "vf_hi", "t"),
        "__CPROVER_decreases(size - i)",
    ])
    dswap = Fn("dual_swap", HEAP, r"^void dual_swap\(double\* darr, int\* iarr, int i1, int i2\)\s*$")
    fn = Fn("simultaneous_sort", HEAP, SORT_SIG, contract=contract, loops={1: loop}, rewrites=SORT_GHOST)
    return Unit(
        "C06.simultaneous_sort.order", [dswap, fn],
        prelude=helpers(nmax) + "double vf_lo, vf_hi;\n", harness=SORT_HARNESS,
        inputs=[("double", "W_D", "2 * NMAX"), ("int", "W_I", "2 * NMAX"), ("int", "W_size"),
                ("double", "W_lo"), ("double", "W_hi"), ("double", "W_gw"), ("int", "W_gj")],
        defines={"NMAX": nmax}, enforce="simultaneous_sort", rec=True, backends=("minisat", "cadical"), timeout=1200, split=True,
        native=SORT_NATIVE,
        claim=("simultaneous_sort leaves the row in ascending distance order (and inside any closed value range that "
               "contained it); recursion closed by its own contract, partition loop by invariant (slice length <= %d)" % nmax),
        assumptions=["slice length <= %d (quantifier range)" % nmax, "distances are not NaN",
                     "ghost bounds vf_lo/vf_hi: two ghost assignments inserted before the recursive calls (listed under rewrites)"],
        canaries=[
            {"fn": "simultaneous_sort", "rx": r"if \(dist\[i\] < pivot_val\)", "rp": "if (dist[i] > pivot_val)",
             "expect": r"simultaneous_sort\.(postcondition|loop_invariant_step)"},
        ])


def unit_sort_multiset(nmax):
    """the (distance,index) pair multiset is unchanged"""
    contract = "\n".join([
        "__CPROVER_requires(0 <= size && size <= NMAX)",
        "__CPROVER_assigns(__CPROVER_object_upto(dist, size * sizeof(double)), __CPROVER_object_upto(idx, size * sizeof(int)))",
        "__CPROVER_ensures(VF_CNT(dist, idx, size, W_gw, W_gj) == VF_CNT_H(__CPROVER_old, dist, idx, size, W_gw, W_gj))",
    ])
    loop = "\n".join([
        "__CPROVER_assigns(i, store_idx, __CPROVER_object_upto(dist, size * sizeof(double)), __CPROVER_object_upto(idx, size * sizeof(int)))",
        "__CPROVER_loop_invariant(0 <= store_idx && store_idx <= i && i <= size - 1 && size >= 4 && size <= NMAX)",
        "__CPROVER_loop_invariant(VF_CNT(dist, idx, size, W_gw, W_gj) == VF_CNT_H(__CPROVER_loop_entry, dist, idx, size, W_gw, W_gj))",
        "__CPROVER_decreases(size - i)",
    ])
    dswap = Fn("dual_swap", HEAP, r"^void dual_swap\(double\* darr, int\* iarr, int i1, int i2\)\s*$")
    fn = Fn("simultaneous_sort", HEAP, SORT_SIG, contract=contract, loops={1: loop})
    return Unit(
        "C06.simultaneous_sort.multiset", [dswap, fn],
        prelude=helpers(nmax) + "double vf_lo, vf_hi;\n", harness=SORT_HARNESS,
        inputs=[("double", "W_D", "2 * NMAX"), ("int", "W_I", "2 * NMAX"), ("int", "W_size"),
                ("double", "W_lo"), ("double", "W_hi"), ("double", "W_gw"), ("int", "W_gj")],
        defines={"NMAX": nmax}, enforce="simultaneous_sort", rec=True, backends=("minisat", "cadical"), timeout=1200, split=True,
        native=SORT_NATIVE,
        claim=("simultaneous_sort preserves the multiset of (distance,index) pairs of the row (ghost pair form), "
               "slice length <= %d" % nmax),
        assumptions=["slice length <= %d (quantifier range)" % nmax],
        canaries=[
            {"fn": "dual_swap", "rx": r"iarr\[i2\]\s*= itmp;", "rp": "iarr[i2] = iarr[i1];",
             "expect": r"simultaneous_sort\.(postcondition|loop_invariant_step)"},
        ])


NEIGH = "src/Neigh/NeighMoving.cpp"


def moving_prelude(nmax, smax):
    # PRECNT(k, s): number of positions i < k of _movingInd whose *entry* sector is s
    precnt = " + ".join("((%d < (k)) & (vf_r0[W_ind[%d]] == (s)))" % (i, i) for i in range(nmax))
    notin = " && ".join("(%d >= nsel || W_ind[%d] != (j))" % (i, i) for i in range(nmax))
    return """
#define PRECNT(k, s) (%s)
#define NOTIN(j) (%s)
/* binding of the NeighMoving members / getters used by the extracted bodies */
int S_nsect, S_nsmax, S_nmaxi;
int S_Nsect[SMAX], S_Isect[SMAX];
int vf_r0[NMAX];                 /* ghost: sector of every sample at entry */
#define getNSect() (S_nsect)
#define getNSMax() (S_nsmax)
#define getNMaxi() (S_nmaxi)
#define _movingInd W_ind
#define _movingNsect S_Nsect
#define _movingIsect S_Isect
""" % (precnt, notin)


def q_distinct(nmax):
    cl = []
    for a in range(nmax):
        for b in range(a + 1, nmax):
            cl.append("(%d >= nsel || W_ind[%d] != W_ind[%d])" % (b, a, b))
    return " && ".join(cl) if cl else "1"


def unit_sector_nsmax(nmax, smax):
    pre = [
        "__CPROVER_requires(0 <= nsel && nsel <= NMAX && 1 <= S_nsect && S_nsect <= SMAX && 1 <= S_nsmax)",
        "__CPROVER_requires(__CPROVER_forall { int ka; (0 <= ka && ka < NMAX) ==> (0 <= W_ind[ka] && W_ind[ka] < NMAX) })",
        "__CPROVER_requires(%s)" % q_distinct(nmax),
        "__CPROVER_requires(__CPROVER_forall { int kb; (0 <= kb && kb < NMAX) ==> (-1 <= ranks[kb] && ranks[kb] < S_nsect && vf_r0[kb] == ranks[kb]) })",
        "__CPROVER_assigns(__CPROVER_object_whole(ranks))",
        # every candidate, in closest-first order: kept iff fewer than nsmax earlier candidates share its sector
        "__CPROVER_ensures(__CPROVER_forall { int kc; (0 <= kc && kc < NMAX) ==> (kc >= nsel || vf_r0[W_ind[kc]] < 0 || "
        "ranks[W_ind[kc]] == (PRECNT(kc, vf_r0[W_ind[kc]]) < S_nsmax ? vf_r0[W_ind[kc]] : -1)) })",
        "__CPROVER_ensures(__CPROVER_forall { int kd; (0 <= kd && kd < NMAX) ==> (kd >= nsel || vf_r0[W_ind[kd]] >= 0 || ranks[W_ind[kd]] == -1) })",
        # samples that are not candidates are untouched
        "__CPROVER_ensures(__CPROVER_forall { int ke; (0 <= ke && ke < NMAX) ==> (!NOTIN(ke) || ranks[ke] == vf_r0[ke]) })",
    ]
    state = ("__CPROVER_forall { int k%s; (0 <= k%s && k%s < NMAX) ==> (k%s >= nsel || "
             "((0 <= vf_r0[W_ind[k%s]] && (vf_r0[W_ind[k%s]] < isect%s)) ? "
             "ranks[W_ind[k%s]] == (PRECNT(k%s, vf_r0[W_ind[k%s]]) < S_nsmax ? vf_r0[W_ind[k%s]] : -1) : "
             "ranks[W_ind[k%s]] == vf_r0[W_ind[k%s]])) }")
    outer = "\n".join([
        "__CPROVER_assigns(isect, __CPROVER_object_whole(ranks))",
        "__CPROVER_loop_invariant(0 <= isect && isect <= S_nsect)",
        "__CPROVER_loop_invariant(%s)" % (state % (("f",) * 6 + ("",) + ("f",) * 6)),
        "__CPROVER_loop_invariant(__CPROVER_forall { int kg; (0 <= kg && kg < NMAX) ==> (!NOTIN(kg) || ranks[kg] == vf_r0[kg]) })",
        "__CPROVER_decreases(S_nsect - isect)",
    ])
    inner_extra = " || (vf_r0[W_ind[kh]] == isect && kh < i)"
    inner = "\n".join([
        "__CPROVER_assigns(i, n_ang, __CPROVER_object_whole(ranks))",
        "__CPROVER_loop_invariant(0 <= i && i <= nsel && 0 <= isect && isect < S_nsect)",
        "__CPROVER_loop_invariant(n_ang == (PRECNT(i, isect) < S_nsmax ? PRECNT(i, isect) : S_nsmax))",
        "__CPROVER_loop_invariant(%s)" % (state % (("h",) * 6 + (inner_extra,) + ("h",) * 6)),
        "__CPROVER_loop_invariant(__CPROVER_forall { int km; (0 <= km && km < NMAX) ==> (!NOTIN(km) || ranks[km] == vf_r0[km]) })",
        "__CPROVER_decreases(nsel - i)",
    ])
    fn = Fn("NeighMoving::_movingSectorNsmax", NEIGH,
            r"^void NeighMoving::_movingSectorNsmax\(int nsel, VectorInt& ranks\)\s*$",
            csig="void NeighMoving__movingSectorNsmax(int nsel, int* ranks)",
            contract="\n".join(pre), loops={1: outer, 2: inner})
    harness = """
void vf_harness(void)
{
  vf_havoc_inputs();
  S_nsect = W_nsect; S_nsmax = W_nsmax;
  for (int k = 0; k < NMAX; k++) vf_r0[k] = W_ranks[k];
  NeighMoving__movingSectorNsmax(W_nsel, W_ranks);
  VF_REACH();
}
"""
    native = r"""
static void vf_native(void)
{
  int nsel = W_nsel; S_nsect = W_nsect; S_nsmax = W_nsmax;
  if (!(0 <= nsel && nsel <= NMAX && 1 <= S_nsect && S_nsect <= SMAX && 1 <= S_nsmax)) exit(77);
  for (int k = 0; k < NMAX; k++) { if (W_ind[k] < 0 || W_ind[k] >= NMAX) exit(77);
    if (W_ranks[k] < -1 || W_ranks[k] >= S_nsect) exit(77); vf_r0[k] = W_ranks[k]; }
  for (int a = 0; a < nsel; a++) for (int b = a + 1; b < nsel; b++) if (W_ind[a] == W_ind[b]) exit(77);
  NeighMoving__movingSectorNsmax(nsel, W_ranks);
  for (int k = 0; k < nsel; k++) {
    int j = W_ind[k], s = vf_r0[j], c = 0;
    for (int i = 0; i < k; i++) if (vf_r0[W_ind[i]] == s) c++;
    if (s >= 0) __CPROVER_assert(W_ranks[j] == (c < S_nsmax ? s : -1), "candidate kept iff fewer than nsmax closer candidates in its sector");
    else __CPROVER_assert(W_ranks[j] == -1, "discarded candidate stays discarded");
  }
  for (int j = 0; j < NMAX; j++) { int in = 0; for (int k = 0; k < nsel; k++) if (W_ind[k] == j) in = 1;
    if (!in) __CPROVER_assert(W_ranks[j] == vf_r0[j], "non-candidate untouched"); }
}
"""
    return Unit(
        "C06.movingSectorNsmax", [fn], prelude=moving_prelude(nmax, smax), harness=harness,
        inputs=[("int", "W_ind", "NMAX"), ("int", "W_ranks", "NMAX"), ("int", "W_nsel"), ("int", "W_nsect"), ("int", "W_nsmax")],
        defines={"NMAX": nmax, "SMAX": smax}, enforce="NeighMoving__movingSectorNsmax", backends=("minisat", "cadical"), timeout=900,
        native=native, split=True,
        claim=("NeighMoving::_movingSectorNsmax keeps, in every angular sector, exactly the first nsmax candidates in "
               "closest-first order and discards the later ones; other samples untouched (both loops closed by invariants; "
               "candidates <= %d, sectors <= %d)" % (nmax, smax)),
        assumptions=["at most %d candidates / samples and %d sectors (quantifier ranges)" % (nmax, smax),
                     "binding prelude maps getNSect()/getNSMax()/_movingInd onto plain C globals; VectorInt& ranks -> int*",
                     "candidate ranks in _movingInd are distinct and within the Db (established by NeighMoving::_moving)"],
        canaries=[
            {"fn": "NeighMoving::_movingSectorNsmax", "rx": r"if \(n_ang < getNSMax\(\)\)", "rp": "if (n_ang <= getNSMax())",
             "expect": r"movingSectorNsmax\.(postcondition|loop_invariant_step)"},
        ])


def unit_moving_select(nmax, smax):
    tot = " + ".join("((%d < nsel) & (vf_r0[W_ind[%d]] >= 0))" % (i, i) for i in range(nmax))
    pretot = " + ".join("((%d < (k)) & (vf_r0[W_ind[%d]] >= 0))" % (i, i) for i in range(nmax))
    sumq = " + ".join("(%d < S_nsect ? S_Isect[%d] : 0)" % (t, t) for t in range(smax))
    extra = """
#define TOT (%s)
#define PRETOT(k) (%s)
#define SUMQ (%s)
#define NS(s) PRECNT(nsel, s)
""" % (tot, pretot, sumq)

    def pairs(body):  # forall s,t < nsect, expanded
        cl = []
        for a in range(smax):
            for b in range(smax):
                cl.append("(%d >= S_nsect || %d >= S_nsect || (%s))" % (a, b, body.replace("$s", str(a)).replace("$t", str(b))))
        return " && ".join(cl)

    def each(body):
        return " && ".join("(%d >= S_nsect || (%s))" % (a, body.replace("$s", str(a))) for a in range(smax))

    FAIR = pairs("S_Isect[$s] >= S_Nsect[$s] || S_Isect[$t] <= S_Isect[$s] || (S_Isect[$t] == S_Isect[$s] + 1 && $t < $s)")
    FAIRN = pairs("S_Isect[$s] >= NS($s) || S_Isect[$t] <= S_Isect[$s] || (S_Isect[$t] == S_Isect[$s] + 1 && $t < $s)")
    ROUND = pairs("S_Isect[$s] >= S_Nsect[$s] || S_Isect[$t] <= S_Isect[$s]")
    INV = pairs("S_Isect[$s] >= S_Nsect[$s] || S_Isect[$t] <= S_Isect[$s] || "
                "(S_Isect[$t] == S_Isect[$s] + 1 && $t < $s && $t < isect && $s >= isect)") + " && " + pairs(
                "!($s < isect && $t >= isect && S_Isect[$s] < S_Nsect[$s]) || S_Isect[$t] < S_Isect[$s]")
    QRANGE = each("0 <= S_Isect[$s] && S_Isect[$s] <= S_Nsect[$s]")
    NDEF = each("S_Nsect[$s] == NS($s)")
    NRANGE = each("0 <= S_Nsect[$s] && S_Nsect[$s] <= NMAX")
    def state(tag, cond):
        t = ("__CPROVER_forall { int k@; (0 <= k@ && k@ < NMAX) ==> (k@ >= nsel || "
             "((0 <= vf_r0[W_ind[k@]] && ($COND)) ? "
             "ranks[W_ind[k@]] == (PRECNT(k@, vf_r0[W_ind[k@]]) < S_Isect[vf_r0[W_ind[k@]]] ? vf_r0[W_ind[k@]] : -1) : "
             "ranks[W_ind[k@]] == vf_r0[W_ind[k@]])) }")
        return t.replace("$COND", cond).replace("@", tag)

    def untouched(tag):
        return "__CPROVER_forall { int k@; (0 <= k@ && k@ < NMAX) ==> (!NOTIN(k@) || ranks[k@] == vf_r0[k@]) }".replace("@", tag)

    def same(tag):
        return "__CPROVER_forall { int k@; (0 <= k@ && k@ < NMAX) ==> (ranks[k@] == vf_r0[k@]) }".replace("@", tag)
    contract = "\n".join([
        "__CPROVER_requires(0 <= nsel && nsel <= NMAX && 1 <= S_nsect && S_nsect <= SMAX)",
        "__CPROVER_requires(__CPROVER_forall { int ka; (0 <= ka && ka < NMAX) ==> (0 <= W_ind[ka] && W_ind[ka] < NMAX) })",
        "__CPROVER_requires(%s)" % q_distinct(nmax),
        "__CPROVER_requires(__CPROVER_forall { int kb; (0 <= kb && kb < NMAX) ==> (-1 <= ranks[kb] && ranks[kb] < S_nsect && vf_r0[kb] == ranks[kb]) })",
        "__CPROVER_assigns(__CPROVER_object_whole(ranks), __CPROVER_object_whole(S_Nsect), __CPROVER_object_whole(S_Isect))",
        # fewer candidates than nmaxi (or no limit): nothing is discarded
        "__CPROVER_ensures((S_nmaxi <= 0 || TOT < S_nmaxi) ==> %s)" % same("c"),
        # otherwise: per-sector quotas Q = _movingIsect
        "__CPROVER_ensures((S_nmaxi > 0 && TOT >= S_nmaxi) ==> (%s))" % each("0 <= S_Isect[$s] && S_Isect[$s] <= NS($s)"),
        "__CPROVER_ensures((S_nmaxi > 0 && TOT >= S_nmaxi) ==> SUMQ == S_nmaxi)",
        # quotas are those of cycling over the sectors: never two apart, the extra one goes to earlier sectors
        "__CPROVER_ensures((S_nmaxi > 0 && TOT >= S_nmaxi) ==> (%s))" % FAIRN,
        # each sector keeps exactly its Q closest candidates
        "__CPROVER_ensures((S_nmaxi > 0 && TOT >= S_nmaxi) ==> %s)" % state("d", "1"),
        "__CPROVER_ensures(%s)" % untouched("e"),
    ])
    L1 = "\n".join([
        "__CPROVER_assigns(isect, __CPROVER_object_whole(S_Nsect), __CPROVER_object_whole(S_Isect))",
        "__CPROVER_loop_invariant(0 <= isect && isect <= S_nsect)",
        "__CPROVER_loop_invariant(__CPROVER_forall { int kf; (0 <= kf && kf < SMAX) ==> (kf >= isect || (S_Nsect[kf] == 0 && S_Isect[kf] == 0)) })",
        "__CPROVER_decreases(S_nsect - isect)",
    ])
    L2 = "\n".join([
        "__CPROVER_assigns(i, number, __CPROVER_object_whole(S_Nsect))",
        "__CPROVER_loop_invariant(0 <= i && i <= nsel)",
        "__CPROVER_loop_invariant(%s)" % each("S_Nsect[$s] == PRECNT(i, $s)"),
        "__CPROVER_loop_invariant(number == PRETOT(i))",
        "__CPROVER_decreases(nsel - i)",
    ])
    L3 = "\n".join([
        "__CPROVER_assigns(number, __CPROVER_object_whole(S_Isect))",
        "__CPROVER_loop_invariant(%s)" % NRANGE,
        "__CPROVER_loop_invariant(%s)" % QRANGE,
        "__CPROVER_loop_invariant(0 <= number && number <= S_nmaxi && number == SUMQ)",
        "__CPROVER_loop_invariant(%s)" % FAIR,
        "__CPROVER_loop_invariant(number >= S_nmaxi || (%s))" % ROUND,
        "__CPROVER_decreases(S_nmaxi - number)",
    ])
    L4 = "\n".join([
        "__CPROVER_assigns(isect, number, __CPROVER_object_whole(S_Isect))",
        "__CPROVER_loop_invariant(0 <= isect && isect <= S_nsect)",
        "__CPROVER_loop_invariant(%s)" % NRANGE,
        "__CPROVER_loop_invariant(%s)" % QRANGE,
        "__CPROVER_loop_invariant(0 <= number && number < S_nmaxi && number == SUMQ)",
        "__CPROVER_loop_invariant(%s)" % INV,
        "__CPROVER_loop_invariant(number >= __CPROVER_loop_entry(number))",
        "__CPROVER_loop_invariant(number > __CPROVER_loop_entry(number) || (%s))" % each("$s >= isect || S_Isect[$s] >= S_Nsect[$s]"),
        "__CPROVER_decreases(S_nsect - isect)",
    ])
    L5 = "\n".join([
        "__CPROVER_assigns(isect, number, __CPROVER_object_whole(ranks))",
        "__CPROVER_loop_invariant(0 <= isect && isect <= S_nsect)",
        "__CPROVER_loop_invariant(%s)" % state("g", "vf_r0[W_ind[kg]] < isect"),
        "__CPROVER_loop_invariant(%s)" % untouched("h"),
        "__CPROVER_decreases(S_nsect - isect)",
    ])
    L6 = "\n".join([
        "__CPROVER_assigns(i, number, __CPROVER_object_whole(ranks))",
        "__CPROVER_loop_invariant(0 <= i && i <= nsel && 0 <= isect && isect < S_nsect)",
        "__CPROVER_loop_invariant(number == PRECNT(i, isect))",
        "__CPROVER_loop_invariant(%s)" % state("m", "vf_r0[W_ind[km]] < isect || (vf_r0[W_ind[km]] == isect && km < i)"),
        "__CPROVER_loop_invariant(%s)" % untouched("n"),
        "__CPROVER_decreases(nsel - i)",
    ])
    fn = Fn("NeighMoving::_movingSelect", NEIGH,
            r"^void NeighMoving::_movingSelect\(int nsel, VectorInt& ranks\)\s*$",
            csig="void NeighMoving__movingSelect(int nsel, int* ranks)",
            contract=contract, loops={1: L1, 2: L2, 3: L3, 4: L4, 5: L5, 6: L6})
    harness = """
void vf_harness(void)
{
  vf_havoc_inputs();
  S_nsect = W_nsect; S_nmaxi = W_nmaxi;
  for (int k = 0; k < NMAX; k++) vf_r0[k] = W_ranks[k];
  for (int k = 0; k < SMAX; k++) { S_Nsect[k] = W_N0[k]; S_Isect[k] = W_I0[k]; }
  NeighMoving__movingSelect(W_nsel, W_ranks);
  VF_REACH();
}
"""
    native = r"""
static void vf_native(void)
{
  int nsel = W_nsel; S_nsect = W_nsect; S_nmaxi = W_nmaxi;
  if (!(0 <= nsel && nsel <= NMAX && 1 <= S_nsect && S_nsect <= SMAX)) exit(77);
  for (int k = 0; k < NMAX; k++) { if (W_ind[k] < 0 || W_ind[k] >= NMAX) exit(77);
    if (W_ranks[k] < -1 || W_ranks[k] >= S_nsect) exit(77); vf_r0[k] = W_ranks[k]; }
  for (int a = 0; a < nsel; a++) for (int b = a + 1; b < nsel; b++) if (W_ind[a] == W_ind[b]) exit(77);
  for (int k = 0; k < SMAX; k++) { S_Nsect[k] = W_N0[k]; S_Isect[k] = W_I0[k]; }
  NeighMoving__movingSelect(nsel, W_ranks);
  /* reference: cycle over the sectors */
  int N[SMAX] = {0}, Q[SMAX] = {0}, tot = 0;
  for (int k = 0; k < nsel; k++) if (vf_r0[W_ind[k]] >= 0) { N[vf_r0[W_ind[k]]]++; tot++; }
  if (S_nmaxi <= 0 || tot < S_nmaxi) { for (int j = 0; j < NMAX; j++) __CPROVER_assert(W_ranks[j] == vf_r0[j], "nothing discarded when fewer than nmaxi candidates"); return; }
  int number = 0;
  while (number < S_nmaxi) for (int s = 0; s < S_nsect && number < S_nmaxi; s++) if (Q[s] < N[s]) { Q[s]++; number++; }
  for (int k = 0; k < nsel; k++) {
    int j = W_ind[k], s = vf_r0[j], c = 0;
    for (int i = 0; i < k; i++) if (vf_r0[W_ind[i]] == s) c++;
    if (s >= 0) __CPROVER_assert(W_ranks[j] == (c < Q[s] ? s : -1), "sector keeps exactly its round-robin quota of closest candidates");
    else __CPROVER_assert(W_ranks[j] == -1, "discarded candidate stays discarded");
  }
}
"""
    return Unit(
        "C06.movingSelect", [fn], prelude=moving_prelude(nmax, smax) + extra, harness=harness,
        inputs=[("int", "W_ind", "NMAX"), ("int", "W_ranks", "NMAX"), ("int", "W_nsel"), ("int", "W_nsect"), ("int", "W_nmaxi"),
                ("int", "W_N0", "SMAX"), ("int", "W_I0", "SMAX")],
        defines={"NMAX": nmax, "SMAX": smax}, enforce="NeighMoving__movingSelect", backends=("minisat", "cadical"), timeout=1200,
        native=native, split=True,
        claim=("NeighMoving::_movingSelect: with fewer than nmaxi candidates nothing is discarded; otherwise the per-sector "
               "quotas sum to nmaxi, are those of cycling over the sectors (differ by at most one, extra to earlier sectors, "
               "never above availability) and each sector keeps exactly its quota of closest candidates; single sector => the "
               "nmaxi closest.  All six loops closed by invariants incl. termination of the cycling loop "
               "(candidates <= %d, sectors <= %d)" % (nmax, smax)),
        assumptions=["at most %d candidates / samples and %d sectors (quantifier ranges)" % (nmax, smax),
                     "binding prelude maps getNSect()/getNMaxi()/_movingInd/_movingNsect/_movingIsect onto plain C globals",
                     "_movingInd sorted closest-first by VH::arrangeInPlace (trusted std::sort wrapper)"],
        canaries=[
            {"fn": "NeighMoving::_movingSelect", "rx": r"if \(number > _movingIsect\[isect\]\)", "rp": "if (number >= _movingIsect[isect])",
             "expect": r"movingSelect\.(postcondition|loop_invariant_step)"},
            {"fn": "NeighMoving::_movingSelect", "rx": r"if \(number >= getNMaxi\(\)\) break;", "rp": ";",
             "expect": r"movingSelect\.(postcondition|loop_invariant)"},
        ])


def unit_sector_define():
    """producer of the sector indices that _movingSectorNsmax / _movingSelect require to lie in [0, nsect): the requirement of those two contracts"""
    pre = """
typedef _Bool bool;
#define GV_PI  3.14159265358979323846264338328
int S_nsect;
#define getNSect() (S_nsect)
/* libm: atan is an uninterpreted function with its range and sign (all that the index range needs) */
#ifndef VF_NATIVE
double __CPROVER_uninterpreted_atan(double);
static double atan(double x) { double r = __CPROVER_uninterpreted_atan(x); __CPROVER_assume(r >= -1.5707963267948966 && r <= 1.5707963267948966 && (x < 0. || r >= 0.) && (x > 0. || r <= 0.)); return r; }
#endif
"""
    contract = "\n".join(["__CPROVER_requires(2 <= S_nsect && S_nsect <= 1000)", "__CPROVER_requires(-1.e300 <= dx && dx <= 1.e300 && -1.e300 <= dy && dy <= 1.e300)",
                          "__CPROVER_assigns()",
                          "__CPROVER_ensures(0 <= __CPROVER_return_value && __CPROVER_return_value < S_nsect)"])
    f = Fn("NeighMoving::_movingSectorDefine", NEIGH, r"^int NeighMoving::_movingSectorDefine\(double dx, double dy\) const\s*$", csig="int NeighMoving_movingSectorDefine(double dx, double dy)",
           contract=contract)
    h = """
void vf_harness(void)
{
  vf_havoc_inputs();
  S_nsect = W_nsect;
  int s = NeighMoving_movingSectorDefine(W_dx, W_dy);
  VF_REACH();
}
"""
    native = r"""
#include <math.h>
static void vf_native(void)
{
  S_nsect = W_nsect;
  if (!(2 <= S_nsect && S_nsect <= 1000) || !(-1.e300 <= W_dx && W_dx <= 1.e300 && -1.e300 <= W_dy && W_dy <= 1.e300)) exit(77);
  int s = NeighMoving_movingSectorDefine(W_dx, W_dy);
  __CPROVER_assert(0 <= s && s < S_nsect, "the sector index lies in [0, nsect)");
}
"""
    return Unit("C06.movingSectorDefine.range", [f], prelude=pre, harness=h, native=native, inputs=[("double", "W_dx"), ("double", "W_dy"), ("int", "W_nsect")],
                enforce="NeighMoving_movingSectorDefine", backends=("cadical", "minisat", "cvc5"), timeout=900,
                claim=("NeighMoving::_movingSectorDefine returns, for every finite increment and every number of sectors, an index in [0, nsect): the "
                       "requirement under which _movingSectorNsmax and _movingSelect are proved (an index equal to nsect makes _movingSelect write past its counters "
                       "and loop for ever)"),
                assumptions=["atan is an uninterpreted function constrained to its range [-pi/2, pi/2] and sign; which sector the index designates is NOT decided here "
                             "(trigonometry and floating-point rounding: see the sampled unit C06.movingSectorDefine.sampled)"],
                canaries=[{"fn": "NeighMoving::_movingSectorDefine", "rx": r"angle = GV_PI \+ atan\(dy / dx\);", "rp": "angle = atan(dy / dx) - GV_PI;", "expect": r"postcondition"}])


def unit_sector_sampled():
    """BOUNDED stand-in (native sampling): which sector the index designates needs trigonometry and floating-point rounding, outside the verifier's reach"""
    pre = """
typedef _Bool bool;
#define GV_PI  3.14159265358979323846264338328
int S_nsect;
#define getNSect() (S_nsect)
#ifdef VF_NATIVE
#include <math.h>
#else
double atan(double);
#endif
"""
    f = Fn("NeighMoving::_movingSectorDefine", NEIGH, r"^int NeighMoving::_movingSectorDefine\(double dx, double dy\) const\s*$", csig="int NeighMoving_movingSectorDefine(double dx, double dy)")
    native = r"""
static void vf_native(void)
{
  long count = 0; int shown = 0;
  const double radii[3] = { 1.e-3, 1., 1.e3 };
  for (int nsect = 2; nsect <= 16; nsect++)
    for (int k = 0; k < 1440; k++)
      for (int ir = 0; ir < 3; ir++)
      {
        double theta = (k + 0.371) * (2. * GV_PI / 1440.);                 /* polar angle of the increment, in [0, 2 pi) */
        double pos = theta / (2. * GV_PI / nsect);                         /* position in sector units */
        if (fabs(pos - floor(pos + 0.5)) < 1.e-6) continue;                /* stay clear of the sector boundaries */
        int expected = (int) floor(pos);
        double dx = radii[ir] * cos(theta), dy = radii[ir] * sin(theta);
        S_nsect = nsect;
        int got = NeighMoving_movingSectorDefine(dx, dy);
        count++;
        if (got != expected && shown < 5) { printf("SAMPLE nsect=%d dx=%.17g dy=%.17g sector=%d expected=%d\n", nsect, dx, dy, got, expected); shown++; }
        if (got != expected) __CPROVER_assert(0, "the sector index is floor(polar angle of (dx, dy) / (2 pi / nsect)) on the sample");
      }
  printf("SAMPLED-COUNT %ld\n", count);
}
"""
    return Unit("C06.movingSectorDefine.sampled", [f], prelude=pre, harness="void vf_harness(void) { }\n", native=native, native_only=True,
                bounded="SAMPLED natively: nsect 2..16 x 1440 directions (quarter-degree steps, offset from every sector boundary by > 1e-6 sector) x 3 radii = about 64 000 inputs",
                claim=("NeighMoving::_movingSectorDefine (real text compiled natively with libm): on the stated sample the index equals floor(polar angle of the "
                       "increment / (2 pi / nsect)) computed independently with cos/sin - the sectors are the angular sectors counted counter-clockwise from the x axis"),
                assumptions=["NOT a proof: a finite sample; atan/cos/sin from libm", "the index RANGE for all inputs is the proved unit C06.movingSectorDefine.range"],
                canaries=[{"fn": "NeighMoving::_movingSectorDefine", "rx": r"angle = GV_PI \+ atan\(dy / dx\);", "rp": "angle = GV_PI - atan(dy / dx);", "expect": r"sampled"}])


def unit_moving_candidates(complete=False):
    """candidate filtering of NeighMoving::_moving: exactly the eligible samples reach the selection stage, with and without ball search"""
    BOOLS = "typedef _Bool bool;\n#define true 1\n#define false 0\n"
    pre = BOOLS + """
#define NS 3
#define nullptr 0
typedef struct { int a[NS]; int n; } ivec;
int S_nech, S_nmini, S_nmaxi; bool _useBallSearch, S_xvalid, S_sector; int _dbgrid; int _movingInd[NS]; double _movingDst[NS]; int g_ranks[NS];
int g_cur;                                  /* ghost: the data sample currently loaded as second point */
#define getNMini() (S_nmini)
#define getFlagXvalid() (S_xvalid)
#define getFlagSector() (S_sector)
#define getNSMax() (0)
static void VF_loadTarget(int iech_out) {}
static ivec VF_ballIndices(void) { ivec v; v.n = W_nball; for (int k = 0; k < NS; k++) v.a[k] = W_ball[k]; return v; }
static bool VF_isActive(int iech) { __CPROVER_assert(0 <= iech && iech < NS, "sample rank"); return W_active[iech]; }
static bool _discardUndefined(int iech) { __CPROVER_assert(0 <= iech && iech < NS, "sample rank"); return W_undef[iech]; }
static bool _xvalid(int iech, int iech_out) { return W_xv[iech]; }
static void VF_loadData(int iech) { g_cur = iech; }
static int _getBiPtsNumber(void) { return 1; }
static bool VF_biptOK(int ipt) { return W_bipt[g_cur]; }
static bool VF_distOK(void) { return W_dok[g_cur]; }
static double VF_getDistance(void) { return W_dist[g_cur]; }
static int VF_sector(void) { return W_sect[g_cur]; }
static void VF_arrange(int nsel) {}
static void _movingSectorNsmax(int nsel, int* ranks) {}
static void _movingSelect(int nsel, int* ranks) {}
"""
    f = Fn("NeighMoving::_moving", NEIGH, r"^int NeighMoving::_moving\(int iech_out, VectorInt& ranks, double eps\)\s*$", csig="int NeighMoving_moving(int iech_out, int* ranks, double eps)",
           rewrites=[(r"_dbin->getSampleNumber\(\)", "S_nech", 1), (r"ranks\.resize\(nech\);", ";", 1), (r"ranks\.fill\(-1\);", "for (int vf_k = 0; vf_k < NS; vf_k++) ranks[vf_k] = -1;", 1),
                     (r"_dbgrid->getSampleAsSTInPlace\(iech_out, _T1\);", "VF_loadTarget(iech_out);", 1), (r"_dbout->getSampleAsSTInPlace\(iech_out, _T1\);", "VF_loadTarget(iech_out);", 1),
                     (r"VectorInt elligibles;", "ivec elligibles; elligibles.n = 0;", 1), (r"elligibles = getBall\(\)\.getIndices\(_T1, _nMaxi\);", "elligibles = VF_ballIndices();", 1),
                     (r"\(int\)elligibles\.size\(\)", "elligibles.n", 1), (r"elligibles\[jech\]", "elligibles.a[jech]", 1),
                     (r"_dbin->isActive\(", "VF_isActive(", None),
                     (r"_dbin->getSampleAsSTInPlace\(iech, _T2\);", "VF_loadData(iech);", 1),
                     (r"_bipts\[ipt\]->isOK\(_T1, _T2\)", "VF_biptOK(ipt)", 1), (r"_biPtDist->isOK\(_T1, _T2\)", "VF_distOK()", 1),
                     (r"_biPtDist->getDistance\(\)", "VF_getDistance()", 1),
                     (r"(?s)VectorDouble incr = _biPtDist->getIncr\(\);\s*isect\s*= _movingSectorDefine\(incr\[0\], incr\[1\]\);", "isect = VF_sector();", 1),
                     (r"VH::arrangeInPlace\(0, _movingInd, _movingDst, true, nsel\);", "VF_arrange(nsel);", 1)])
    h = """
void vf_harness(void)
{
  vf_havoc_inputs();
  S_nech = NS; S_nmini = W_nmini; _useBallSearch = W_useBall; S_xvalid = W_xvalid; S_sector = W_sector; _dbgrid = 0;
  __CPROVER_assume(0 <= W_nball && W_nball <= NS);
  for (int k = 0; k < NS; k++) { __CPROVER_assume(0 <= W_ball[k] && W_ball[k] < NS); for (int m = 0; m < k; m++) __CPROVER_assume(W_ball[m] != W_ball[k]); }
  for (int k = 0; k < NS; k++) __CPROVER_assume(W_dist[k] >= 0. && W_dist[k] < 1.e6 && 0 <= W_sect[k] && W_sect[k] < 8);
  int ranks[NS];
  int rc = NeighMoving_moving(0, ranks, 0.);
  /* the eligible samples: offered by the search (all samples, or the ball-tree list), active, defined, not the cross-validated target, accepted by every checker */
  int nelig = 0;
  for (int i = 0; i < NS; i++) {
    bool offered = 1; if (W_useBall) { offered = 0; for (int k = 0; k < NS; k++) if (k < W_nball && W_ball[k] == i) offered = 1; }
    bool elig = offered && W_active[i] && !W_undef[i] && !(W_xvalid && W_xv[i]) && W_bipt[i] && W_dok[i];
    if (elig) nelig++;
    if (S_nech >= S_nmini)
      __CPROVER_assert((ranks[i] >= 0) == elig, "a sample reaches the selection stage exactly when it is offered by the search, ACTIVE, defined, not the cross-validated target and accepted by every checker");
    if (S_nech >= S_nmini && elig) __CPROVER_assert(ranks[i] == (W_sector ? W_sect[i] : 0), "it carries the sector of its own increment");
  }
  __CPROVER_assert(S_nech < S_nmini || (rc != 0) == (nelig < S_nmini), "the neighbourhood is refused exactly when fewer than nmini samples are eligible");
  VF_REACH();
}
"""
    if complete:
        # known finding: with the ball-tree search the rejected candidates are not replaced by the next nearest qualifying samples
        h = """
void vf_harness(void)
{
  vf_havoc_inputs();
  S_nech = NS; S_nmini = 0; _useBallSearch = 1; S_xvalid = W_xvalid; S_sector = 0; _dbgrid = 0;
  __CPROVER_assume(1 <= W_nball && W_nball <= NS);                  /* nmaxi = W_nball */
  for (int k = 0; k < NS; k++) { __CPROVER_assume(0 <= W_ball[k] && W_ball[k] < NS); for (int m = 0; m < k; m++) __CPROVER_assume(W_ball[m] != W_ball[k]); }
  for (int k = 0; k < NS; k++) __CPROVER_assume(W_dist[k] >= 0. && W_dist[k] < 1.e6);
  /* contract of Ball::getIndices (units C06.nheap_push / sort): the nmaxi nearest of all samples */
  for (int k = 0; k < NS; k++) for (int m = 0; m < NS; m++) if (k < W_nball && m >= W_nball) __CPROVER_assume(W_dist[W_ball[k]] <= W_dist[W_ball[m]]);
  int ranks[NS];
  (void) NeighMoving_moving(0, ranks, 0.);
  int reached = 0, qualify = 0;
  for (int i = 0; i < NS; i++) {
    if (ranks[i] >= 0) reached++;
    if (W_active[i] && !W_undef[i] && !(W_xvalid && W_xv[i]) && W_bipt[i] && W_dok[i]) qualify++;
  }
  __CPROVER_assert(reached >= (qualify < W_nball ? qualify : W_nball), "ball-tree search: min(nmaxi, number of qualifying samples) samples reach the selection stage");
  VF_REACH();
}
"""
        return Unit("C06.moving.ball_search_complete", [f], prelude=pre, harness=h, pre_inputs=BOOLS, unwind=NS_MV + 2,
                    inputs=[("bool", "W_xvalid"), ("int", "W_nball"), ("int", "W_ball", "3"), ("bool", "W_active", "3"),
                            ("bool", "W_undef", "3"), ("bool", "W_xv", "3"), ("bool", "W_bipt", "3"), ("bool", "W_dok", "3"), ("double", "W_dist", "3"), ("int", "W_sect", "3")],
                    checks=["--bounds-check", "--pointer-check"], backends=("minisat", "cadical"), timeout=600,
                    bounded="3 data samples (unwinding assertions)",
                    claim=("NeighMoving::_moving with the ball-tree search (real text): the neighbourhood holds the nmaxi closest qualifying samples also when some of the "
                           "nmaxi nearest samples of the tree are rejected (masked, undefined, cross-validated target, pair checkers) — FAILS on the current tree: KNOWN FINDING"),
                    assumptions=["BOUNDED stand-in (3 samples)", "Ball::getIndices through its contract (the nmaxi nearest of all samples)"])
    return Unit("C06.moving.candidates", [f], prelude=pre, harness=h, pre_inputs=BOOLS, unwind=NS_MV + 2,
                inputs=[("bool", "W_useBall"), ("bool", "W_xvalid"), ("bool", "W_sector"), ("int", "W_nmini"), ("int", "W_nball"), ("int", "W_ball", "3"), ("bool", "W_active", "3"),
                        ("bool", "W_undef", "3"), ("bool", "W_xv", "3"), ("bool", "W_bipt", "3"), ("bool", "W_dok", "3"), ("double", "W_dist", "3"), ("int", "W_sect", "3")],
                checks=["--bounds-check", "--pointer-check"], backends=("minisat", "cadical"), timeout=600,
                bounded="3 data samples (unwinding assertions)",
                claim=("NeighMoving::_moving, candidate stage (real text; search, checkers and the later stages are stubs): with the exhaustive search and with the ball-tree "
                       "search alike, a sample reaches the selection stage exactly when it is offered by the search, ACTIVE, defined, not the cross-validated target and "
                       "accepted by every pair checker including the distance one; it carries its own sector; the neighbourhood is refused exactly when fewer than nmini qualify"),
                assumptions=["BOUNDED stand-in (3 samples)", "per-sample predicates (active, undefined, checkers, distance, sector) are arbitrary tables; sorting and the two selection routines are "
                             "stubs (their contracts: units C06.simultaneous_sort.*, C06.movingSectorNsmax, C06.movingSelect)"],
                canaries=[{"fn": "NeighMoving::_moving", "rx": r"if \(_discardUndefined\(iech\)\) continue;", "rp": ";", "expect": r"assertion"}])

NS_MV = 3


def unit_distance_rotation():
    """the anisotropic distance of the moving neighbourhood is measured along the ROTATED axes whenever a rotation is given"""
    BT = "src/Geometry/BiTargetCheckDistance.cpp"
    pre = """
#define TEST 1.234e30
int nondet_int(); bool nondet_bool(); double nondet_double();
#define NDM 3
struct VectorDouble { double a[NDM * NDM]; int n;
  VectorDouble() : n(0) {}
  VectorDouble(const VectorDouble& r) : n(r.n) { for (int k = 0; k < NDM * NDM; k++) a[k] = r.a[k]; }
  VectorDouble& operator=(const VectorDouble& r) { n = r.n; for (int k = 0; k < NDM * NDM; k++) a[k] = r.a[k]; return *this; }
  bool empty() const { return n <= 0; } int size() const { return n; }
  void resize(int m) { __CPROVER_assert(0 <= m && m <= NDM * NDM, "modelled capacity"); for (int k = 0; k < NDM * NDM; k++) if (k >= n && k < m) a[k] = 0.; n = m; }
  void resize(int m, double v) { __CPROVER_assert(0 <= m && m <= NDM * NDM, "modelled capacity"); for (int k = 0; k < NDM * NDM; k++) if (k >= n && k < m) a[k] = v; n = m; }
  double* data() { return a; } const double* data() const { return a; }
  double& operator[](int i) { return a[i]; } double operator[](int i) const { return a[i]; } };
int g_rot_built_from_angles, g_rot_identity, g_rotated, g_nprod;
namespace VH { static bool isConstant(const VectorDouble& v, double val) { for (int k = 0; k < NDM * NDM; k++) if (k < v.n && v.a[k] != val) return false; return true; }
               static void fill(VectorDouble& v, double val, int n) { v.resize(n); for (int k = 0; k < NDM * NDM; k++) if (k < n) v.a[k] = val; } }
namespace GH { static void rotationMatrixInPlace(int ndim, const VectorDouble& angles, VectorDouble& rot) { g_rot_built_from_angles = 1; g_rot_identity = 0; }
               static void rotationMatrixIdentityInPlace(int ndim, VectorDouble& rot) { g_rot_identity = 1; } }
/* matrix_product_safe(1, ndim, ndim, incr, ROT, aux): the increment is turned into the rotated frame; (1, ndim, 1, incr, incr, &d): squared norm */
const double* g_rotmat_ptr;
static void matrix_product_safe(int n1, int n2, int n3, const double* a, const double* b, double* c) { g_nprod = g_nprod + 1; if (b == g_rotmat_ptr) g_rotated = 1; *c = 0.; }
static double sqrt(double x) { return x; }
struct ABiTargetCheck { ABiTargetCheck() {} };
struct BiTargetCheckDistance : public ABiTargetCheck { int _ndim; bool _flagAniso, _flagRotation; double _radius; VectorDouble _anisoCoeffs, _anisoRotMat; mutable double _dist; mutable VectorDouble _movingIncr, _movingAux;
  BiTargetCheckDistance(double radius, const VectorDouble& coeffs, const VectorDouble& angles);
  int getNDim() const { return _ndim; }
  void _calculateDistance() const; };
"""
    ctor = Fn("BiTargetCheckDistance::BiTargetCheckDistance", BT, r"^BiTargetCheckDistance::BiTargetCheckDistance\(double radius,\s*\n\s*const VectorDouble& coeffs,\s*\n\s*const VectorDouble& angles\)\s*\n\s*: ABiTargetCheck\(\),\s*\n(?:\s*_\w+\([^)]*\),?\s*\n)+")
    calc = Fn("BiTargetCheckDistance::_calculateDistance", BT, r"^void BiTargetCheckDistance::_calculateDistance\(\) const\s*$")
    h = """
void vf_harness()
{
  VectorDouble coeffs, angles;
  coeffs.n = nondet_int(); __CPROVER_assume(1 <= coeffs.n && coeffs.n <= NDM);
  angles.n = nondet_int(); __CPROVER_assume(0 <= angles.n && angles.n <= NDM);
  for (int k = 0; k < NDM; k++) { coeffs.a[k] = nondet_double(); __CPROVER_assume(coeffs.a[k] > 0. && coeffs.a[k] < 1.e6); angles.a[k] = nondet_double(); __CPROVER_assume(angles.a[k] > -360. && angles.a[k] < 360.); }
  g_rot_built_from_angles = 0; g_rot_identity = 0; g_rotated = 0; g_nprod = 0;
  BiTargetCheckDistance B(nondet_double(), coeffs, angles);
  g_rotmat_ptr = B._anisoRotMat.data();
  B._calculateDistance();
  bool some_angle = false;
  for (int k = 0; k < NDM; k++) if (k < angles.n && k < coeffs.n && angles.a[k] != 0.) some_angle = true;
  __CPROVER_assert(g_rotated == (some_angle ? 1 : 0), "the increment is turned into the rotated frame before the anisotropic scaling exactly when one of the rotation angles is not zero (whichever it is)");
  __CPROVER_assert(!some_angle || g_rot_built_from_angles, "the rotation matrix in use was built from the angles given");
  VF_REACH();
}
"""
    return Unit("C06.BiTargetCheckDistance.rotation", [ctor, calc], mode="cpp", prelude=pre, harness=h, unwind=NDM_U + 2, checks=[], backends=("minisat", "cadical"), timeout=300,
                bounded="space dimension <= 3 (unwinding assertions)",
                claim=("BiTargetCheckDistance (the anisotropic distance test of the moving neighbourhood; real constructor and real _calculateDistance): whenever one of the rotation angles given "
                       "is not zero — whichever — the increment is turned into the rotated frame before the anisotropic scaling, with the matrix built from those angles; never otherwise"),
                assumptions=["Route X: vectors / rotation matrices are ghosts; GH::rotationMatrixInPlace and matrix_product_safe record that they were called (numerical content: C16 rotation units)"],
                canaries=[{"fn": "BiTargetCheckDistance::_calculateDistance", "rx": r"if \(_flagRotation\)", "rp": "if (_flagRotation && !_flagAniso)", "expect": r"assertion"}])

NDM_U = 9


def units(tier):
    nmax = int(__import__("os").environ.get("VF_NMAX", 0)) or (6 if tier == "quick" else 10)
    return [unit_nheap_push(nmax), unit_sort_order(nmax), unit_sort_multiset(min(nmax, 8)), unit_sector_nsmax(nmax, 3), unit_moving_select(nmax, 3), unit_sector_define(), unit_sector_sampled(), unit_moving_candidates(), unit_distance_rotation()]


META = {
    "level": "other",
    "explanation": "",
    "trusted_base": ["CBMC 6.11 (goto-cc, goto-instrument --dfcc, SAT/SMT back ends)"],
    "assumptions": [],
    "not_covered": [],
}

MANIFEST = {
    "category": "other",
    "text": ("Function and loop contracts on the real k-NN heap / sort / sector-quota / sector-cycling kernels and on the range of the sector index, discharged by "
             "CBMC for all inputs and all iteration counts (container capacity capped where stated in the evidence); plus ONE bounded native stand-in (sampled) "
             "for which angular sector the index designates."),
    "note": ("Trusted: CBMC; lexical extraction rules listed in evidence; std::sort-based arrangeInPlace, SpacePoint distance "
             "(metric axioms), atan range. Capacity caps reported per unit."),
    "design_ref": "DESIGN.md 3 C06",
}
