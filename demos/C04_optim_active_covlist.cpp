// C04: the optimised covariance-matrix evaluation (evalCovMatrixOptim / evalCovMatrixSymmetricOptim) loops over ALL basic structures, whereas the
// plain pairwise evaluation honours the list of active structures of the calculation mode (CovCalcMode::setActiveCovList...): with a mode that
// switches a structure off (e.g. to filter the nugget effect) the two paths give different matrices.
#include "Db/Db.hpp"
#include "Model/Model.hpp"
#include "Covariances/CovCalcMode.hpp"
#include "Covariances/ACovAnisoList.hpp"
#include "Matrix/MatrixRectangular.hpp"
#include "Space/ASpaceObject.hpp"
#include <iostream>
#include <cmath>
int main()
{
  defineDefaultSpace(ESpaceType::RN, 2);
  Db* db = Db::createFromSamples(4, ELoadBy::COLUMN, {0., 1., 3., 6.,  0., 2., 1., 5.,  1., 2., 3., 4.}, {"x", "y", "z"}, {"x1", "x2", "z1"});
  Model* model = Model::createFromParam(ECov::SPHERICAL, 5., 2.);
  model->addCovFromParam(ECov::NUGGET, 0., 0.7);
  CovCalcMode mode; mode.setActiveCovListFromOne(0);            // only the spherical structure is active
  ACovAnisoList* covs = const_cast<ACovAnisoList*>(model->getCovAnisoList());
  MatrixRectangular plain = covs->evalCovMatrix(db, db, 0, 0, VectorInt(), VectorInt(), &mode);
  MatrixRectangular optim = covs->evalCovMatrixOptim(db, db, 0, 0, VectorInt(), VectorInt(), &mode);
  double dmax = 0.;
  for (int i = 0; i < 4; i++) for (int j = 0; j < 4; j++) dmax = std::max(dmax, std::fabs(plain.getValue(i, j) - optim.getValue(i, j)));
  std::cout << "C(0): plain " << plain.getValue(0, 0) << "  optimised " << optim.getValue(0, 0) << "   max |difference| " << dmax << std::endl;
  bool ok = dmax < 1e-12;
  std::cout << (ok ? "PASS" : "FAIL: the optimised evaluation ignores the list of active structures") << std::endl;
  return ok ? 0 : 1;
}
