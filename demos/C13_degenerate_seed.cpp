// Demonstration for C13/C14: a positive seed after which the (old-style) generator is stuck — every uniform draw returns the lower bound.
#include "Basic/Law.hpp"
#include <cstdio>
int main()
{
  law_set_random_seed(1099896953);
  double a = law_uniform(0., 1.), b = law_uniform(0., 1.), c = law_uniform(0., 1.);
  printf("seed 1099896953: uniform draws %g %g %g, gaussian %g\n", a, b, c, law_gaussian());
  return (a == 0. && b == 0. && c == 0.) ? 1 : 0;
}
