// C07: Db::clearLocators(ELoc::UNKNOWN) indexes the table of role lists with the value of UNKNOWN (-1): it clears whatever lies before the table
// (undefined behaviour; valgrind: invalid read/write).  It is reachable through the public Db::setLocators(names, ELoc::UNKNOWN, 0, true), the documented
// way of removing the roles of some columns.  Run under valgrind to see the invalid access; here the program only checks that the roles of the OTHER
// columns survive and that the process does not die.
#include "Db/Db.hpp"
#include "Space/ASpaceObject.hpp"
#include <iostream>
int main()
{
  defineDefaultSpace(ESpaceType::RN, 2);
  Db* db = Db::createFromSamples(3, ELoadBy::COLUMN, {1., 2., 3., 4., 5., 6., 7., 8., 9.}, {"x", "y", "z"}, {"x1", "x2", "z1"});
  db->setLocators({"z"}, ELoc::UNKNOWN, 0, true);
  bool ok = db->getLocatorNumber(ELoc::X) == 2 && db->getLocatorNumber(ELoc::Z) == 0;
  std::cout << (ok ? "PASS" : "FAIL") << std::endl;
  return ok ? 0 : 1;
}
