// Demonstration for C12: experimental variogram with a (non-restrictive) date interval vs a brute-force pair count.
#include "Db/Db.hpp"
#include "Variogram/VarioParam.hpp"
#include "Variogram/Vario.hpp"
#include "Space/ASpaceObject.hpp"
#include <cstdio>
#include <cmath>
int main()
{
  defineDefaultSpace(ESpaceType::RN, 1);
  const int n = 40;
  VectorDouble tab;
  for (int i = 0; i < n; i++) { tab.push_back(0.37 + 1.3 * i); tab.push_back(std::sin(0.7 * i)); tab.push_back(5.); }   // x, z, date (all dates equal)
  Db* db = Db::createFromSamples(n, ELoadBy::SAMPLE, tab, {"x", "z", "date"}, {"x1", "z1", "date"});
  const int npas = 5; const double dpas = 1.3;
  // one date interval [0, 10[ : every pair qualifies (all dates are 5), idate = 1 selects it
  VarioParam* vp = VarioParam::createOmniDirection(npas, dpas, 0.5, 0, 0, TEST, TEST, 0., VectorDouble(), 0., {-1., 10.});
  Vario* v = Vario::computeFromDb(*vp, db);
  if (v == nullptr) { printf("variogram failed\n"); return 2; }
  int bad = 0;
  for (int ipas = 1; ipas < npas; ipas++) {
    // brute force: pairs whose distance is within half a lag of ipas * dpas (each unordered pair once)
    double cnt = 0; for (int i = 0; i < n; i++) for (int j = i + 1; j < n; j++) { double d = std::fabs(tab[3*i] - tab[3*j]); if (std::fabs(d - ipas * dpas) <= 0.5 * dpas) cnt++; }
    double sw = v->getSw(0, 0, 0, ipas);
    if (!(sw == cnt || sw == 2 * cnt)) { printf("lag %d: %g pairs reported, %g exist (%g if ordered pairs are counted)\n", ipas, sw, cnt, 2 * cnt); bad++; }
  }
  printf("%s\n", bad ? "FAIL" : "PASS");
  return bad ? 1 : 0;
}
