// C10 (known finding, not repaired): krigtest(..., iech0, ...) must return the kriging system of target iech0.  CalcKriging::_run selects the target with
// 'if (_iechSingleTarget > 0)' (instead of >= 0): for iech0 = 0 every target is processed and the system exported is the one of the LAST target.
// Not repaired: tests/cpp/test_krige.cpp prints the result of krigtest(..., 0) on a grid and its reference output records the neighbours of the last node.
#include "Db/Db.hpp"
#include "Model/Model.hpp"
#include "Neigh/NeighUnique.hpp"
#include "Estimation/CalcKriging.hpp"
#include "Space/ASpaceObject.hpp"
#include <iostream>
#include <cmath>
int main()
{
  defineDefaultSpace(ESpaceType::RN, 2);
  Db* data = Db::createFromSamples(4, ELoadBy::COLUMN, {0., 3., 1., 5.,  0., 1., 4., 5.,  1., 2., 3., 4.}, {"x", "y", "z"}, {"x1", "x2", "z1"});
  Db* two  = Db::createFromSamples(2, ELoadBy::COLUMN, {1., 4.5,  1., 4.5}, {"x", "y"}, {"x1", "x2"});
  Db* one  = Db::createFromSamples(1, ELoadBy::COLUMN, {1., 1.}, {"x", "y"}, {"x1", "x2"});
  Model* model = Model::createFromParam(ECov::SPHERICAL, 6., 2.);
  NeighUnique* neigh = NeighUnique::create();
  Krigtest_Res a = krigtest(data, two, model, neigh, 0);      // target 0 of the two-target Db
  Krigtest_Res b = krigtest(data, one, model, neigh, 0);      // the same target alone
  double dmax = 0.;
  for (int i = 0; i < a.nech && i < b.nech; i++) dmax = std::max(dmax, std::fabs(a.wgt.getValue(i, 0) - b.wgt.getValue(i, 0)));
  std::cout << "first weight: target 0 among two targets " << a.wgt.getValue(0, 0) << "   the same target alone " << b.wgt.getValue(0, 0) << "   max |difference| " << dmax << std::endl;
  bool ok = dmax < 1e-12;
  std::cout << (ok ? "PASS" : "FAIL: krigtest(iech0 = 0) exports the system of another target") << std::endl;
  return ok ? 0 : 1;
}
