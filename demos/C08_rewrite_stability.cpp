// C08: for every serialisable class, reading a neutral file back and writing it again reproduces the same file
#include "Db/Db.hpp"
#include "Db/DbGrid.hpp"
#include "Model/Model.hpp"
#include "Variogram/Vario.hpp"
#include "Variogram/VarioParam.hpp"
#include "Variogram/DirParam.hpp"
#include "Polygon/Polygons.hpp"
#include "Matrix/Table.hpp"
#include "LithoRule/Rule.hpp"
#include "Basic/PolyLine2D.hpp"
#include "Anamorphosis/AnamHermite.hpp"
#include "Anamorphosis/AnamEmpirical.hpp"
#include "Anamorphosis/AnamDiscreteDD.hpp"
#include "Anamorphosis/AnamDiscreteIR.hpp"
#include "Neigh/NeighMoving.hpp"
#include "Neigh/NeighUnique.hpp"
#include "Mesh/MeshETurbo.hpp"
#include "Mesh/MeshEStandard.hpp"
#include "Faults/Faults.hpp"
#include "Neigh/NeighBench.hpp"
#include "Neigh/NeighCell.hpp"
#include "Neigh/NeighImage.hpp"
#include "Anamorphosis/AnamDiscreteDD.hpp"
#include "Anamorphosis/AnamDiscreteIR.hpp"
#include "Db/DbLine.hpp"
#include "Db/DbGraphO.hpp"
#include "Db/DbMeshTurbo.hpp"
#include "Fractures/FracEnviron.hpp"
#include "Fractures/FracFamily.hpp"
#include "Fractures/FracFault.hpp"
#include "Matrix/NF_Triplet.hpp"
#include "Basic/Law.hpp"
#include "Basic/VectorHelper.hpp"
#include "Basic/ASerializable.hpp"
#include "Space/ASpaceObject.hpp"
#include "Covariances/CovAniso.hpp"
#include <iostream>
#include <fstream>
#include <sstream>
static std::string slurp(const std::string& f) { std::ifstream is(f); std::stringstream ss; ss << is.rdbuf(); return ss.str(); }
static int bad = 0;
template <class T> static void trip(const char* what, const T* obj)
{
  std::string f1 = std::string("rt_") + what + "_1.ascii", f2 = std::string("rt_") + what + "_2.ascii";
  if (!obj->dumpToNF(f1)) { std::cout << what << ": cannot be written\n"; bad++; return; }
  T* back = T::createFromNF(f1, false);
  if (back == nullptr) { std::cout << what << ": the file written by the library cannot be read back\n"; bad++; return; }
  back->dumpToNF(f2);
  std::string a = slurp(ASerializable::buildFileName(1, f1)), b = slurp(ASerializable::buildFileName(1, f2));
  if (a.empty() || a != b)
  {
    bad++; std::cout << what << ": the second file differs from the first\n";
    std::istringstream ia(a), ib(b); std::string la, lb; int ln = 0;
    while (std::getline(ia, la) && std::getline(ib, lb)) { ln++; if (la != lb) { std::cout << "   line " << ln << ": '" << la << "'  ->  '" << lb << "'\n"; break; } }
  }
  else std::cout << what << ": ok\n";
}
int main()
{
  defineDefaultSpace(ESpaceType::RN, 2);
  ASerializable::setContainerName(false, "/tmp/demo/rt/", false);
  ASerializable::setPrefixName("");
  law_set_random_seed(99);
  int n = 20; VectorDouble tab;
  for (int i = 0; i < n; i++) for (double v : {law_uniform(0., 10.), law_uniform(0., 10.), law_gaussian(), law_uniform(1., 5.)}) tab.push_back(v);
  tab[2] = TEST;
  Db* db = Db::createFromSamples(n, ELoadBy::SAMPLE, tab, {"x","y","z","w"}, {"x1","x2","z1","w"});
  trip("Db", db);
  DbGrid* grid = DbGrid::create({5, 4}, {1., 2.}, {3., 4.}, {30., 0.});
  VectorDouble g = VH::simulateGaussian(20); g[3] = TEST; grid->addColumns(g, "v", ELoc::Z);
  trip("DbGrid", grid);
  Model* model = Model::createFromParam(ECov::SPHERICAL, 0., 2., 1., {3., 1.5}, VectorDouble(), {25., 0.});
  model->addCovFromParam(ECov::NUGGET, 0., 0.5);
  model->addCovFromParam(ECov::MATERN, 2., 1.2, 1.5);
  trip("Model", model);
  VarioParam* vp = VarioParam::createMultiple(2, 5, 1.);
  trip("Vario", Vario::computeFromDb(*vp, db, ECalcVario::VARIOGRAM));
  trip("VarioCov", Vario::computeFromDb(*vp, db, ECalcVario::COVARIANCE));
  Polygons* poly = Polygons::createFromDb(db);
  trip("Polygons", poly);
  Table* table = Table::create(3, 2); table->setValue(1, 1, 3.25); table->setValue(2, 0, TEST);
  trip("Table", table);
  trip("Rule", Rule::createFromNames({"S","F1","T","F2","S","F3","F4"}));
  trip("PolyLine2D", PolyLine2D::create({0., 1., 2.5}, {0., 2., 1.}));
  AnamHermite* ah = AnamHermite::create(12); ah->fitFromLocator(db);
  trip("AnamHermite", ah);
  AnamEmpirical* ae = AnamEmpirical::create(); ae->fitFromLocator(db);
  trip("AnamEmpirical", ae);
  trip("NeighMoving", NeighMoving::create(false, 8, 5., 2, 4, 3, {1., 0.5}, {20., 0.}));
  trip("NeighUnique", NeighUnique::create());
  trip("MeshETurbo", MeshETurbo::createFromGrid(grid));
  Faults* faults = new Faults(); PolyLine2D fl({0., 5.}, {1., 6.}); faults->addFault(fl);
  trip("Faults", faults);
  trip("NeighBench", NeighBench::create(false, 2.5));
  trip("NeighCell", NeighCell::create(false, 2));
  trip("NeighImage", NeighImage::create({2, 1}, 1));
  trip("AnamDiscreteDD", AnamDiscreteDD::create(1.2, 0.3));
  trip("AnamDiscreteIR", AnamDiscreteIR::create(0.8));
  trip("DbLine", DbLine::createFillRandom(2, 3, 4));
  trip("DbMeshTurbo", DbMeshTurbo::create({3, 3}, {1., 1.}, {0., 0.}));
  { FracEnviron* env = FracEnviron::create(10., 8., 1., 1., 2., 0.5); FracFamily fam(30., 5., 0.2, 3., 0.1, 0.2, 0.3, 4., 1.); env->addFamily(fam); FracFault ff(3., 0.5); env->addFault(ff); trip("FracEnviron", env); }
  { NF_Triplet t; t.add(0, 1, 1.); t.add(1, 2, 1.); t.add(0, 3, 2.); DbGraphO* go = DbGraphO::createFromSamples(4, ELoadBy::SAMPLE, {0.,0.,1., 1.,0.,2., 1.,1.,3., 0.,1.,4.}, t, {"x","y","z"}, {"x1","x2","z1"}); if (go != nullptr) trip("DbGraphO", go); else std::cout << "DbGraphO: creation failed\n"; }
  std::cout << (bad ? "FAIL" : "PASS") << "\n";
  return bad ? 1 : 0;
}
