// C19: a DGM kriging that fails (model sill != 1) must leave the input data base as it was: same columns, same roles
#include "Db/Db.hpp"
#include "Db/DbGrid.hpp"
#include "Model/Model.hpp"
#include "Neigh/NeighUnique.hpp"
#include "Estimation/CalcKriging.hpp"
#include "Anamorphosis/AnamHermite.hpp"
#include "Enum/EKrigOpt.hpp"
#include <iostream>
int main()
{
  DbGrid* grid = DbGrid::create({10,10},{1.,1.});
  Db* data = Db::createFromSamples(5, ELoadBy::SAMPLE, {1.2,1.3,1., 4.5,2.2,2., 7.1,6.3,0.5, 2.2,8.1,1.5, 8.3,8.8,3.}, {"x","y","z"}, {"x1","x2","z1"});
  AnamHermite* anam = AnamHermite::create(10);
  anam->fitFromLocator(data);
  anam->setRCoef(0.8);
  Model* model = Model::createFromParam(ECov::SPHERICAL, 5., 2.);   // total sill 2: DGM refuses it at run time
  model->setAnam(anam);
  NeighUnique* neigh = NeighUnique::create();
  int nx0 = data->getLocatorNumber(ELoc::X);
  VectorString n0 = data->getAllNames();
  int err = kriging(data, grid, model, neigh, EKrigOpt::DGM);
  std::cout << "kriging (DGM) returned " << err << "\n";
  int nx1 = data->getLocatorNumber(ELoc::X);
  std::cout << "coordinate roles of the input data base before: " << nx0 << "  after: " << nx1 << "\n";
  for (auto& n : data->getAllNames()) std::cout << " " << n; std::cout << "\n";
  bool ok = err != 0 && nx1 == nx0 && data->getAllNames() == n0 && data->getNameByLocator(ELoc::X, 0) == "x";
  std::cout << (ok ? "PASS" : "FAIL: the failed calculation changed the roles of the input data base") << "\n";
  return ok ? 0 : 1;
}
