// C06: NeighMoving::_movingSectorDefine returns nsect (one past the last sector) when the increment target - sample lies just below the positive
// x axis: angle = 2*pi - atan(-dy/dx) rounds to 2*pi when |dy| < 2.2e-16 * 2*pi * dx, and (int)(nsect * angle / (2*pi)) = nsect.
// The sector counters _movingNsect / _movingIsect have nsect entries: the neighbourhood search then writes one element past them
// (valgrind: invalid write in NeighMoving::_movingSectorNsmax / _movingSelect) and the sample is lost from every sector quota.
// Here: detected through the returned neighbourhood (the sample must be selected: it is inside the radius and sector 3 is otherwise empty).
#include "Db/Db.hpp"
#include "Neigh/NeighMoving.hpp"
#include "Space/ASpaceObject.hpp"
#include <iostream>
int main()
{
  defineDefaultSpace(ESpaceType::RN, 2);
  // increments (target - sample): A -> sector 2, B -> sector 1, C -> sector 0, D = (1000, -1e-13) -> last sector (3), alone in it
  VectorDouble x = {1000.,  800.,  -700., -1000.};
  VectorDouble y = { 900., -600.,  -500.,  1.e-13};
  VectorDouble z = {1., 2., 3., 4.};
  VectorDouble tab; for (double v : x) tab.push_back(v); for (double v : y) tab.push_back(v); for (double v : z) tab.push_back(v);
  Db* data = Db::createFromSamples(4, ELoadBy::COLUMN, tab, {"x", "y", "z"}, {"x1", "x2", "z1"});
  Db* target = Db::createFromSamples(1, ELoadBy::COLUMN, {0., 0.}, {"x", "y"}, {"x1", "x2"});
  int nsect = 4;
  NeighMoving* neigh = NeighMoving::create(false, 4, 5000., 1, nsect, 1);      // nmaxi = 4, radius, nmini = 1, 4 sectors, 1 sample per sector
  neigh->attach(data, target);
  VectorInt ranks;
  neigh->select(0, ranks);
  std::cout << "selected:"; for (int r : ranks) std::cout << " " << r; std::cout << std::endl;
  bool has3 = false; for (int r : ranks) if (r == 3) has3 = true;
  bool ok = ranks.size() == 4 && has3;
  std::cout << (ok ? "PASS" : "FAIL: the sample whose increment lies just below the x axis is not in the neighbourhood (its sector index is out of range)") << std::endl;
  return ok ? 0 : 1;
}
