// C09: counts and node tables taken from damaged neutral files.  Each case runs in a forked child so that a crash is observed.
//   anam  : AnamHermite with a negative number of polynomials      (was: std::length_error escapes, process terminated)
//   rule1 : Rule with a negative number of nodes                    (was: std::length_error escapes)
//   rule2 : Rule whose first node refers to a parent                (was: null parent dereferenced, SIGSEGV inside the loader)
//   rule3 : Rule with an invalid node type                          (was: error ignored, Rule accepted with a null main node, SIGSEGV on first use)
//   table : Table with a negative number of rows                    (was: accepted with -1 rows)
//   fault : FracFault-like vector line with a negative count through PolyLine/_recordReadVec is covered by 'poly'
//   poly  : Polygons whose vertex count is 2000000000 in a 3-line file (was: 32 GB allocation attempt, std::bad_alloc escapes) - run under 'ulimit -v'
// Prints PASS when every damaged file is refused cleanly, FAIL otherwise.
#include "Matrix/Table.hpp"
#include "Anamorphosis/AnamHermite.hpp"
#include "LithoRule/Rule.hpp"
#include "Polygon/Polygons.hpp"
#include "Basic/ASerializable.hpp"
#include <iostream>
#include <fstream>
#include <string>
#include <unistd.h>
#include <sys/wait.h>
#include <sys/resource.h>
static int child(const std::string& what)
{
  if (what == "anam")  { AnamHermite* t = AnamHermite::createFromNF("h.ascii", false); return t ? 3 : 0; }
  if (what == "table") { Table* t = Table::createFromNF("h.ascii", false); return (t && t->getNRows() < 0) ? 3 : 0; }
  if (what == "poly")  { Polygons* t = Polygons::createFromNF("h.ascii", false); return t ? 3 : 0; }
  Rule* r = Rule::createFromNF("h.ascii", false);
  if (r == nullptr) return 0;
  (void) r->getFaciesNumber();       // first use
  return 3;
}
static int probe(const std::string& what, const std::string& content)
{
  { std::ofstream o("h.ascii"); o << content; }
  pid_t p = fork();
  if (p == 0) { struct rlimit rl = {4000000000UL, 4000000000UL}; setrlimit(RLIMIT_AS, &rl); _exit(child(what)); }
  int st = 0; waitpid(p, &st, 0);
  bool ok = WIFEXITED(st) && WEXITSTATUS(st) == 0;
  std::cout << what << ": " << (ok ? "refused cleanly" : (WIFSIGNALED(st) ? "CRASH (signal)" : "ACCEPTED / abnormal exit")) << std::endl;
  return ok ? 0 : 1;
}
int main()
{
  int bad = 0;
  bad += probe("anam",  "AnamHermite\n0 1\n0 1\n0 1\n0 1\n0 1\n1 # r\n-1 # Number of Hermite Polynomials\n1\n2\n");
  bad += probe("rule1", "Rule\n0 # Rule definition\n0 # rho\n-1 # Number of Rule Nodes\n0 0 0 1 1 0\n");
  bad += probe("rule2", "Rule\n0 # Rule definition\n0 # rho\n1 # Number of Rule Nodes\n1 5 1 1 1 0\n");
  bad += probe("rule3", "Rule\n0 # Rule definition\n0 # rho\n1 # Number of Rule Nodes\n0 0 0 7 1 0\n");
  bad += probe("table", "Table\n2 # Number of Columns\n-1 # Number of Rows\n1 2\n3 4\n");
  bad += probe("poly",  "Polygon\n1 # Number of Polygons\nNA # Z-Minimum\nNA # Z-Maximum\n2000000000 # Number of Points\n0 0\n1 0\n1 1\n");
  std::cout << (bad ? "FAIL" : "PASS") << std::endl;
  return bad ? 1 : 0;
}
