// Demonstration for C09: a Db neutral file with a corrupted (negative) sample count is not rejected: the count is used for allocation.
#include "Db/Db.hpp"
#include <fstream>
#include <cstdio>
int main()
{
  Db* db = Db::createFromSamples(2, ELoadBy::SAMPLE, {0.,0.,1., 1.,0.,2.}, {"x","y","z"}, {"x1","x2","z1"});
  db->dumpToNF("/tmp/demo/c09_db.ascii");
  std::ifstream in("/tmp/demo/c09_db.ascii"); std::string all, l; int k = 0;
  while (std::getline(in, l)) { if (l.find("Number of samples") != std::string::npos) l = "-5 # Number of samples"; all += l + "\n"; k++; }
  in.close();
  std::ofstream out("/tmp/demo/c09_db_bad.ascii"); out << all; out.close();
  Db* back = Db::createFromNF("/tmp/demo/c09_db_bad.ascii", false);
  printf("loader returned %s\n", back == nullptr ? "failure (nullptr)" : "an object");
  return back == nullptr ? 0 : 1;
}
