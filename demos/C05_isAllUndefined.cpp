// C05 / C07: Db::isAllUndefined(iech) must tell whether every variable of the sample is undefined
#include "Db/Db.hpp"
#include <iostream>
int main()
{
  Db* db = Db::createFromSamples(3, ELoadBy::SAMPLE, {0.,0.,1.,2.,  1.,0.,TEST,TEST,  2.,0.,TEST,5.}, {"x","y","z1","z2"}, {"x1","x2","z1","z2"});
  bool a = db->isAllUndefined(0), b = db->isAllUndefined(1), c = db->isAllUndefined(2);
  std::cout << "sample 0 (both variables defined):   isAllUndefined = " << a << "\n";
  std::cout << "sample 1 (both variables undefined): isAllUndefined = " << b << "\n";
  std::cout << "sample 2 (one variable defined):     isAllUndefined = " << c << "\n";
  bool ok = !a && b && !c;
  std::cout << (ok ? "PASS" : "FAIL: the answer is the opposite of what the name says") << "\n";
  return ok ? 0 : 1;
}
