// Demonstration for C10: a call of evalCovMatrixOptim that returns the empty matrix (no valid sample)
// changes what the next call returns.
#include "Db/Db.hpp"
#include "Model/Model.hpp"
#include "Covariances/CovAniso.hpp"
#include "Basic/VectorHelper.hpp"
#include "Space/ASpaceObject.hpp"
#include <cmath>
#include <cstdio>
int main()
{
  defineDefaultSpace(ESpaceType::RN, 2);
  // db2: 3 good samples
  Db* dbB = Db::createFromSamples(3, ELoadBy::SAMPLE, {0.,0.,1., 1.,0.,2., 0.,1.,3.}, {"x","y","z"}, {"x1","x2","z1"});
  // db1: 2 samples whose variable is undefined everywhere -> no valid sample
  Db* dbA = Db::createFromSamples(2, ELoadBy::SAMPLE, {5.,5.,TEST, 9.,9.,TEST}, {"x","y","z"}, {"x1","x2","z1"});
  Model* model = Model::createFromParam(ECov::SPHERICAL, 2., 1.);
  MatrixRectangular ref = model->evalCovMatrixOptim(dbB, dbB);       // fresh answer
  MatrixRectangular bad = model->evalCovMatrixOptim(dbA, dbA);       // "failing" call: returns empty matrix
  MatrixRectangular aft = model->evalCovMatrixOptim(dbB, dbB);       // same arguments as the first call
  double dmax = 0.;
  for (int i = 0; i < ref.getNRows(); i++) for (int j = 0; j < ref.getNCols(); j++)
    dmax = std::fmax(dmax, std::fabs(ref.getValue(i,j) - aft.getValue(i,j)));
  printf("nvar=%d ndimB=%d nechB=%d nz=%d\n", model->getVariableNumber(), dbB->getNDim(), dbB->getSampleNumber(), dbB->getLocNumber(ELoc::Z)); ref.display(); aft.display();
  printf("empty matrix rows=%d ; max |first - third| = %g\n", bad.getNRows(), dmax);
  return dmax > 1e-12 ? 1 : 0;
}
