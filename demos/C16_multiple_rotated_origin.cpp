// C16: Grid::multiple / Grid::divider (cell matching) compute the centre of the first cell of the derived grid from the ROTATED half-diagonal of the
// original cell, scaling each rotated component by the multiplicity of that axis: correct only when the multiplicities are equal on all axes or the grid
// is not rotated.  Reference: the centre of the block of nmult cells, through the index -> coordinate conversion with cell fractions.
#include "Basic/Grid.hpp"
#include <iostream>
#include <cmath>
int main()
{
  int bad = 0;
  for (int rot = 0; rot < 2; rot++)
  {
    Grid g(2, {8, 9}, {100., 50.}, {2., 3.});
    if (rot) g.setRotationByAngles({30., 0.});
    VectorInt nmult = {2, 3}, nx(2); VectorDouble dx(2), x0(2);
    g.multiple(nmult, true, nx, dx, x0);
    // centre of the first coarse cell = centre of the block of cells [0,2) x [0,3): index (0.5, 1.0)
    VectorDouble ref = g.indicesToCoordinate({0, 0}, {0.5, 1.0});
    double d = std::hypot(ref[0] - x0[0], ref[1] - x0[1]);
    std::cout << (rot ? "rotated 30 deg" : "not rotated  ") << ": coarse origin (" << x0[0] << ", " << x0[1] << ")  expected (" << ref[0] << ", " << ref[1] << ")  distance " << d << std::endl;
    if (d > 1e-9) bad = 1;
  }
  std::cout << (bad ? "FAIL: on a rotated grid with unequal multiplicities the derived grid is misplaced" : "PASS") << std::endl;
  return bad;
}
