// C11: VH::minimum / VH::maximum over a vector of vectors.
// Before the fix minimum() combined the per-vector minima with MAX, and both forms ignored flagAbs for the first vector.
#include "Basic/VectorHelper.hpp"
#include <iostream>
int main()
{
  VectorVectorDouble vv(2);
  vv[0] = {-10.};
  vv[1] = {1., 2.};
  double mn = VH::minimum(vv);          // -10
  double mxa = VH::maximum(vv, true);   // |-10| = 10
  double mna = VH::minimum(vv, true);   // 1
  std::cout << "minimum = " << mn << " (expected -10)\nmaximum of |.| = " << mxa << " (expected 10)\nminimum of |.| = " << mna << " (expected 1)\n";
  bool ok = mn == -10. && mxa == 10. && mna == 1.;
  std::cout << (ok ? "PASS" : "FAIL") << "\n";
  return ok ? 0 : 1;
}
