// C08/C09: NeighImage::_deserialize stores the radii read from the file into _imageRadius[idim] although the object built by
// createFromNF() has an EMPTY radius vector: out-of-bounds write (null data pointer) -> crash on reload of any image neighbourhood.
#include "Neigh/NeighImage.hpp"
#include "Space/ASpaceObject.hpp"
#include "Basic/ASerializable.hpp"
#include <iostream>
int main()
{
  defineDefaultSpace(ESpaceType::RN, 2);
  ASerializable::setPrefixName("C08demo-");
  NeighImage* a = NeighImage::create({3, 5}, 2);
  if (!a->dumpToNF("neighI.ascii")) { std::cout << "dump failed" << std::endl; return 2; }
  NeighImage* b = NeighImage::createFromNF("neighI.ascii", false);
  if (b == nullptr) { std::cout << "FAIL: reload refused" << std::endl; return 1; }
  bool ok = b->getSkip() == 2 && (int) b->getImageRadius().size() == 2 && b->getImageRadius(0) == 3 && b->getImageRadius(1) == 5;
  std::cout << (ok ? "PASS" : "FAIL: radii not restored") << std::endl;
  return ok ? 0 : 1;
}
