// C05 / C06: with the ball-tree search switched on, NeighMoving::_moving takes its candidates from the tree (built on ALL samples) and skips the
// 'isActive' test that the exhaustive branch applies: a sample masked by the selection is returned in the neighbourhood.
#include "Db/Db.hpp"
#include "Neigh/NeighMoving.hpp"
#include "Space/ASpaceObject.hpp"
#include <iostream>
static VectorInt neighbours(bool ball)
{
  // five samples on a line; the closest one to the target (rank 2) is masked by the selection
  Db* data = Db::createFromSamples(5, ELoadBy::COLUMN, {0., 1., 2., 3., 4.,  0., 0., 0., 0., 0.,  1., 2., 3., 4., 5.,  1., 1., 0., 1., 1.},
                                   {"x", "y", "z", "sel"}, {"x1", "x2", "z1", "sel"});
  Db* target = Db::createFromSamples(1, ELoadBy::COLUMN, {2.1, 0.}, {"x", "y"}, {"x1", "x2"});
  NeighMoving* neigh = NeighMoving::create(false, 3, 100.);
  neigh->setBallSearch(ball, 2);
  neigh->attach(data, target);
  VectorInt ranks; neigh->select(0, ranks);
  return ranks;
}
int main()
{
  defineDefaultSpace(ESpaceType::RN, 2);
  VectorInt a = neighbours(false), b = neighbours(true);
  std::cout << "exhaustive search:"; for (int r : a) std::cout << " " << r; std::cout << "   ball-tree search:"; for (int r : b) std::cout << " " << r; std::cout << std::endl;
  bool masked_in = false; for (int r : b) if (r == 2) masked_in = true;
  std::cout << (masked_in ? "FAIL: the masked sample (rank 2) is in the neighbourhood found through the ball tree" : "PASS") << std::endl;
  return masked_in ? 1 : 0;
}
