// C08: an experimental covariance (and a variogram computed along grid increments) written to a neutral file must be read back as an equivalent object
#include "Db/Db.hpp"
#include "Db/DbGrid.hpp"
#include "Variogram/Vario.hpp"
#include "Variogram/VarioParam.hpp"
#include "Variogram/DirParam.hpp"
#include "Basic/Law.hpp"
#include "Space/ASpaceObject.hpp"
#include "Basic/ASerializable.hpp"
#include <iostream>
#include <cmath>
static bool same(double a, double b) { return std::abs(a - b) <= 1e-10 * (1. + std::abs(a)); }
static int compare(const char* what, const Vario* v, const Vario* w)
{
  if (w == nullptr) { std::cout << what << ": the file written by the library cannot be read back\n"; return 1; }
  int bad = 0;
  if (v->getCalcul() != w->getCalcul()) { std::cout << what << ": calculation type changed\n"; bad++; }
  if (v->getDirectionNumber() != w->getDirectionNumber()) { std::cout << what << ": number of directions differs\n"; return bad + 1; }
  for (int idir = 0; idir < v->getDirectionNumber(); idir++)
  {
    if (v->getDirSize(idir) != w->getDirSize(idir)) { std::cout << what << ": direction " << idir << " holds " << v->getDirSize(idir) << " lags, reloaded " << w->getDirSize(idir) << "\n"; bad++; continue; }
    for (int i = 0; i < v->getDirSize(idir); i++)
      if (!same(v->getGgByIndex(idir, i), w->getGgByIndex(idir, i)) || !same(v->getSwByIndex(idir, i), w->getSwByIndex(idir, i))) { bad++; }
  }
  std::cout << what << ": " << (bad ? "DIFFERENT" : "equivalent") << "\n";
  return bad;
}
int main()
{
  defineDefaultSpace(ESpaceType::RN, 2);
  ASerializable::setContainerName(true, "/tmp/demo/");
  law_set_random_seed(1234);
  int n = 60; VectorDouble tab;
  for (int i = 0; i < n; i++) { tab.push_back(law_uniform(0., 10.)); tab.push_back(law_uniform(0., 10.)); tab.push_back(law_gaussian()); }
  Db* db = Db::createFromSamples(n, ELoadBy::SAMPLE, tab, {"x","y","z"}, {"x1","x2","z1"});
  VarioParam* vp = VarioParam::createOmniDirection(5, 1.);
  int bad = 0;
  // 1. variogram
  Vario* vg = Vario::computeFromDb(*vp, db, ECalcVario::VARIOGRAM);
  vg->dumpToNF("c08_vg.ascii"); bad += compare("variogram", vg, Vario::createFromNF("c08_vg.ascii", false));
  // 2. covariance (asymmetric storage: 2*nlag+1 values per direction)
  Vario* cv = Vario::computeFromDb(*vp, db, ECalcVario::COVARIANCE);
  cv->dumpToNF("c08_cov.ascii"); bad += compare("covariance", cv, Vario::createFromNF("c08_cov.ascii", false));
  // 3. variogram along grid increments
  DbGrid* grid = DbGrid::create({8, 8}, {1., 1.});
  VectorDouble vals(64); for (int i = 0; i < 64; i++) vals[i] = law_gaussian();
  grid->addColumns(vals, "z", ELoc::Z);
  VarioParam* vpg = VarioParam::createMultipleFromGrid(grid, 3);
  Vario* vgg = Vario::computeFromDb(*vpg, grid, ECalcVario::VARIOGRAM);
  if (vgg != nullptr) { vgg->dumpToNF("c08_vgg.ascii"); bad += compare("grid variogram", vgg, Vario::createFromNF("c08_vgg.ascii", false)); }
  std::cout << (bad ? "FAIL" : "PASS") << "\n";
  return bad ? 1 : 0;
}
