// C04: KrigingCalcul::getLambda() started with 'if (_validForDual()) return nullptr;' - the test is inverted (every other getter reads
// 'if (! _validForDual())'): in the ordinary (primal) form the kriging weights could never be obtained, the getter always returned nullptr.
#include "Estimation/KrigingCalcul.hpp"
#include "Matrix/MatrixSquareSymmetric.hpp"
#include "Matrix/MatrixRectangular.hpp"
#include <iostream>
int main()
{
  int n = 3;
  MatrixSquareSymmetric Sigma(n);
  double c[3][3] = {{2., 0.8, 0.3}, {0.8, 2., 0.5}, {0.3, 0.5, 2.}};
  for (int i = 0; i < n; i++) for (int j = 0; j <= i; j++) Sigma.setValue(i, j, c[i][j]);
  MatrixRectangular Sigma0(n, 1); Sigma0.setValue(0, 0, 1.1); Sigma0.setValue(1, 0, 0.7); Sigma0.setValue(2, 0, 0.2);
  VectorDouble Z = {0.4, -1.2, 0.9}, means = {0.};
  KrigingCalcul K(false, &Z, &Sigma, nullptr, nullptr, &means);
  K.setRHS(&Sigma0, nullptr);
  const MatrixRectangular* lambda = K.getLambda();
  if (lambda == nullptr) { std::cout << "getLambda() returned nullptr in primal form" << std::endl << "FAIL" << std::endl; return 1; }
  std::cout << "weights: " << lambda->getValue(0, 0) << " " << lambda->getValue(1, 0) << " " << lambda->getValue(2, 0) << std::endl << "PASS" << std::endl;
  return 0;
}
