// C16: Grid::dilate computes the origin of the dilated grid with indicesToCoordinate(_iwork0, _work1): the second argument is the vector of
// cell fractions ('percent'), and _work1 is also the scratch vector the function writes to.  Inside, '_work1[i] = indice[i]; _work1[i] += percent[i]'
// therefore doubles the index: the new origin is shifted by 2 * nshift cells instead of nshift (the dilated grid does not contain the original
// one symmetrically, and eroding what was dilated does not give the grid back).
#include "Basic/Grid.hpp"
#include <iostream>
#include <cmath>
int main()
{
  Grid g(2, {10, 10}, {100., 200.}, {1., 1.});
  VectorInt nx(2); VectorDouble dx(2), x0(2);
  g.dilate(1, {2, 3}, nx, dx, x0);
  std::cout << "dilated by (2,3): nx = " << nx[0] << " " << nx[1] << "  x0 = " << x0[0] << " " << x0[1] << "   (expected nx = 14 16, x0 = 98 197)" << std::endl;
  bool ok = nx[0] == 14 && nx[1] == 16 && std::fabs(x0[0] - 98.) < 1e-9 && std::fabs(x0[1] - 197.) < 1e-9;
  std::cout << (ok ? "PASS" : "FAIL: origin of the dilated grid shifted by twice the requested number of cells") << std::endl;
  return ok ? 0 : 1;
}
