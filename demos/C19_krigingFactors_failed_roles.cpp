// C19: a failed kriging of factors must leave the roles of the input data base as they were
#include "Db/Db.hpp"
#include "Db/DbGrid.hpp"
#include "Model/Model.hpp"
#include "Neigh/NeighUnique.hpp"
#include "Estimation/CalcKrigingFactors.hpp"
#include <iostream>
int main()
{
  DbGrid* grid = DbGrid::create({10,10},{1.,1.});
  // two 'factors' carrying the roles z1, z2
  Db* data = Db::createFromSamples(5, ELoadBy::SAMPLE, {1.2,1.3,1.,0.3, 4.5,2.2,2.,0.1, 7.1,6.3,0.5,-0.4, 2.2,8.1,1.5,0.9, 8.3,8.8,3.,-1.1},
                                   {"x","y","f1","f2"}, {"x1","x2","z1","z2"});
  Model* model = Model::createFromParam(ECov::SPHERICAL, 5., 1.);      // no anamorphosis attached: the calculation is refused
  NeighUnique* neigh = NeighUnique::create();
  int nz0 = data->getLocatorNumber(ELoc::Z);
  int err = krigingFactors(data, grid, model, neigh);
  int nz1 = data->getLocatorNumber(ELoc::Z);
  std::cout << "krigingFactors returned " << err << "\n";
  std::cout << "variables with the role Z before: " << nz0 << "  after: " << nz1 << "\n";
  bool ok = err != 0 && nz1 == nz0 && data->getNameByLocator(ELoc::Z, 1) == "f2";
  std::cout << (ok ? "PASS" : "FAIL: the failed calculation changed the roles of the input data base") << "\n";
  return ok ? 0 : 1;
}
