// C10: KrigingSystem::estimate ignores the status returned by _rhsCalcul().  When a drift function is undefined at the target (external drift
// not informed there) _rhsCalcul stops and returns 1, but estimate() goes on and solves with the universality rows left by the PREVIOUS target:
// the value stored for that target depends on which target was processed before it (and is a number where the answer is undefined).
#include "Db/Db.hpp"
#include "Model/Model.hpp"
#include "Neigh/NeighUnique.hpp"
#include "Estimation/CalcKriging.hpp"
#include "Space/ASpaceObject.hpp"
#include "Basic/Law.hpp"
#include <iostream>
#include <cmath>
static double krige_last(const VectorDouble& fprev, bool& undefined)
{
  // data with an external drift f
  int n = 12; VectorDouble tab;
  for (int i = 0; i < n; i++) tab.push_back(10. * std::cos(1.3 * i));
  for (int i = 0; i < n; i++) tab.push_back(10. * std::sin(2.1 * i));
  for (int i = 0; i < n; i++) tab.push_back(1. + 0.3 * i);                 // f
  for (int i = 0; i < n; i++) tab.push_back(2. + std::sin(0.7 * i) + 0.5 * (1. + 0.3 * i));   // z
  Db* data = Db::createFromSamples(n, ELoadBy::COLUMN, tab, {"x", "y", "f", "z"}, {"x1", "x2", "f1", "z1"});
  // targets: the last one has NO external drift value
  int nt = (int) fprev.size() + 1; VectorDouble tt;
  for (int i = 0; i < nt; i++) tt.push_back(1. + i);
  for (int i = 0; i < nt; i++) tt.push_back(-2. + 0.5 * i);
  for (int i = 0; i < nt - 1; i++) tt.push_back(fprev[i]);
  tt.push_back(TEST);
  Db* targ = Db::createFromSamples(nt, ELoadBy::COLUMN, tt, {"x", "y", "f"}, {"x1", "x2", "f1"});
  Model* model = Model::createFromParam(ECov::SPHERICAL, 8., 2.);
  model->setDriftIRF(0, 1);                                                  // universality + one external drift
  NeighUnique* neigh = NeighUnique::create();
  (void) kriging(data, targ, model, neigh, EKrigOpt::POINT, true, false, false);
  double v = targ->getValue("Kriging.z.estim", nt - 1);
  undefined = FFFF(v);
  delete data; delete targ; delete model; delete neigh;
  return v;
}
int main()
{
  defineDefaultSpace(ESpaceType::RN, 2);
  bool u1, u2;
  double a = krige_last({3.}, u1);          // previous target had drift value 3
  double b = krige_last({30.}, u2);         // previous target had drift value 30
  std::cout << "estimate at the target without drift value: after f=3: " << a << "  after f=30: " << b << std::endl;
  bool ok = u1 && u2;
  std::cout << (ok ? "PASS" : "FAIL: the target whose drift is undefined received a number, and it depends on the previous target") << std::endl;
  return ok ? 0 : 1;
}
