// C08: NeighBench::_deserialize rebuilt the pair checker with the width read from the file but left the member _width (used by
// the bench search and returned by getWidth()) at the default 0: the reloaded neighbourhood answers queries differently.
#include "Neigh/NeighBench.hpp"
#include "Space/ASpaceObject.hpp"
#include "Basic/ASerializable.hpp"
#include <iostream>
int main()
{
  defineDefaultSpace(ESpaceType::RN, 3);
  ASerializable::setPrefixName("C08demo-");
  NeighBench* a = NeighBench::create(false, 7.5);
  if (!a->dumpToNF("neighB.ascii")) { std::cout << "dump failed" << std::endl; return 2; }
  NeighBench* b = NeighBench::createFromNF("neighB.ascii", false);
  if (b == nullptr) { std::cout << "FAIL: reload refused" << std::endl; return 1; }
  std::cout << "width: " << a->getWidth() << " -> " << b->getWidth() << std::endl;
  bool ok = b->getWidth() == a->getWidth();
  std::cout << (ok ? "PASS" : "FAIL: width used by the search not restored") << std::endl;
  return ok ? 0 : 1;
}
