// C13: conditional simulation on a POINT target data base: a target that coincides with no datum must not receive a datum's value;
// a target that coincides with a datum receives that datum's value
#include "Db/Db.hpp"
#include "Model/Model.hpp"
#include "Neigh/NeighUnique.hpp"
#include "Simulation/CalcSimuTurningBands.hpp"
#include "Space/ASpaceObject.hpp"
#include <iostream>
#include <cmath>
int main()
{
  defineDefaultSpace(ESpaceType::RN, 2);
  // 4 data
  Db* data = Db::createFromSamples(4, ELoadBy::SAMPLE, {0.,0.,10., 10.,0.,20., 0.,10.,30., 10.,10.,40.}, {"x","y","z"}, {"x1","x2","z1"});
  // 5 targets: none at a data location except the last one (= datum 1)
  Db* target = Db::createFromSamples(5, ELoadBy::SAMPLE, {5.,5., 3.,7., 8.,2., 1.,9., 10.,0.}, {"x","y"}, {"x1","x2"});
  Model* model = Model::createFromParam(ECov::SPHERICAL, 30., 100.);
  NeighUnique* neigh = NeighUnique::create();
  int err = simtub(data, target, model, neigh, 1, 13243, 200);
  std::cout << "simtub returned " << err << "\n";
  VectorDouble sim = target->getColumnByLocator(ELoc::Z, 0);
  if (sim.empty()) sim = target->getColumn(target->getLastName());
  int bad = 0;
  for (int i = 0; i < 5; i++)
  {
    std::cout << " target " << i << " : " << sim[i];
    if (i < 4) { double z = data->getZVariable(i, 0); if (std::abs(sim[i] - z) < 1e-9 && i != 4) { std::cout << "   <- exactly the value of datum " << i << " (which lies elsewhere)"; bad++; } }
    std::cout << "\n";
  }
  bool exact = std::abs(sim[4] - 20.) < 1e-6;
  std::cout << "target 4 coincides with datum 1 (value 20): " << (exact ? "reproduced" : "NOT reproduced") << "\n";
  bool ok = bad == 0 && exact;
  std::cout << (ok ? "PASS" : "FAIL") << "\n";
  return ok ? 0 : 1;
}
