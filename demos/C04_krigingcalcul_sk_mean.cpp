// C04: KrigingCalcul, simple kriging (no drift), means given.  The dual form adds the mean to the estimate ('if (!_Means->empty())'), the primal form
// adds it only 'if (_flagSK && _Means->empty())' - the test is inverted - so the two forms of the same calculator disagree by exactly the mean.
#include "Estimation/KrigingCalcul.hpp"
#include "Matrix/MatrixSquareSymmetric.hpp"
#include "Matrix/MatrixRectangular.hpp"
#include <iostream>
#include <cmath>
int main()
{
  int n = 3;
  MatrixSquareSymmetric Sigma(n);
  double c[3][3] = {{2., 0.8, 0.3}, {0.8, 2., 0.5}, {0.3, 0.5, 2.}};
  for (int i = 0; i < n; i++) for (int j = 0; j <= i; j++) Sigma.setValue(i, j, c[i][j]);
  MatrixRectangular Sigma0(n, 1); Sigma0.setValue(0, 0, 1.1); Sigma0.setValue(1, 0, 0.7); Sigma0.setValue(2, 0, 0.2);
  VectorDouble Z = {0.4, -1.2, 0.9};          // centred data
  VectorDouble means = {10.};
  double est[2];
  for (int dual = 0; dual < 2; dual++)
  {
    KrigingCalcul K(dual == 1, &Z, &Sigma, nullptr, nullptr, &means);
    K.setRHS(&Sigma0, nullptr);
    VectorDouble e = K.getEstimation();
    est[dual] = e.empty() ? NAN : e[0];
    std::cout << (dual ? "dual  " : "primal") << " simple kriging estimate: " << est[dual] << std::endl;
  }
  bool ok = std::fabs(est[0] - est[1]) < 1e-9;
  std::cout << (ok ? "PASS" : "FAIL: primal and dual forms of the same calculator disagree (by the mean)") << std::endl;
  return ok ? 0 : 1;
}
