// C11: MatrixSparse::_prodVecMatInPlacePtr, Eigen storage, transpose = true computes 'x^T * M^T * x' (a 1x1 quantity, and only
// conformable when the matrix is square) instead of 'x^T * M^T': prodVecMatInPlace(x, y, true) does not return y = x^T M^T.
// Compared with the textbook product on plain arrays and with the dense class.
#include "Matrix/MatrixSparse.hpp"
#include "Matrix/MatrixRectangular.hpp"
#include <iostream>
#include <cmath>
int main()
{
  int bad = 0;
  for (int sq = 0; sq < 2; sq++)
  {
    int nr = 3, nc = sq ? 3 : 2;
    MatrixRectangular D(nr, nc);
    for (int i = 0; i < nr; i++) for (int j = 0; j < nc; j++) D.setValue(i, j, 1. + i * 2.5 - j * 1.25 + i * j);
    MatrixSparse* S = createFromAnyMatrix(&D);
    VectorDouble x(nc); for (int j = 0; j < nc; j++) x[j] = 1. + j;
    VectorDouble ys(nr, 0.), yd(nr, 0.), ref(nr, 0.);
    for (int i = 0; i < nr; i++) for (int j = 0; j < nc; j++) ref[i] += x[j] * D.getValue(i, j);      // (x^T M^T)_i = sum_j x_j M_ij
    S->prodVecMatInPlace(x, ys, true);
    D.prodVecMatInPlace(x, yd, true);
    for (int i = 0; i < nr; i++)
    {
      std::cout << (sq ? "square" : "3x2   ") << " i=" << i << " reference " << ref[i] << " dense " << yd[i] << " sparse " << ys[i] << std::endl;
      if (std::fabs(ys[i] - ref[i]) > 1e-9 || std::fabs(yd[i] - ref[i]) > 1e-9) bad = 1;
    }
    delete S;
  }
  std::cout << (bad ? "FAIL" : "PASS") << std::endl;
  return bad;
}
