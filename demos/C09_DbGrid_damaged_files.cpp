// C09: DbGrid::createFromNF on damaged grid files.
//   1. truncated after the grid header (table part unreadable): the result of Db::_deserialize was discarded ('ret && Db::_deserialize(...)'),
//      so the file was accepted and the returned grid had 4 nodes but 0 samples;
//   2. a negative node count: gridDefine()'s refusal was ignored, the returned grid reported -4 samples;
//   3. a sample count in the table part smaller than the number of grid nodes: Db::_loadData read past the value buffer (heap over-read,
//      visible under valgrind/ASan; here detected through the acceptance of the file);
//   4. a negative space dimension: std::length_error escaped (process terminated) - run with argument "crash" to see it.
// Prints PASS when every damaged file is refused, FAIL otherwise.
#include "Db/DbGrid.hpp"
#include "Basic/ASerializable.hpp"
#include <iostream>
#include <fstream>
#include <cstring>
static void mk(const char* ndim, const char* grid, const char* rest)
{
  std::ofstream o("damaged.ascii");
  o << "DbGrid\n" << ndim << " # Space Dimension\n" << grid << rest;
}
static int probe(const char* what)
{
  DbGrid* g = DbGrid::createFromNF("damaged.ascii", false);
  if (g == nullptr) { std::cout << what << ": refused" << std::endl; return 0; }
  std::cout << what << ": ACCEPTED, grid nodes " << g->getNTotal() << ", samples " << g->getSampleNumber() << std::endl;
  delete g;
  return 1;
}
int main(int argc, char** argv)
{
  const char* tab4 = "2 # Number of variables\n4 # Number of samples\n# Locators\nx1 z1\n# Names\na b\n# Array of values\n1 2\n3 4\n5 6\n7 8\n";
  const char* tab1 = "2 # Number of variables\n1 # Number of samples\n# Locators\nx1 z1\n# Names\na b\n# Array of values\n1 2\n";
  int bad = 0;
  mk("2", "2 0 1 0\n2 0 1 0\n", tab4);
  { DbGrid* g = DbGrid::createFromNF("damaged.ascii", false); if (g == nullptr || g->getSampleNumber() != 4) { std::cout << "valid file not loaded" << std::endl; return 2; } delete g; }
  mk("2", "2 0 1 0\n2 0 1 0\n", "2 # Number of variables\n4 # Number of samples\n# Locators\nx1 z1\n# Names\na b\n# Array of values\n1 2\n3");
  bad += probe("truncated table part");
  mk("2", "-2 0 1 0\n2 0 1 0\n", tab4);
  bad += probe("negative node count");
  mk("2", "2 0 1 0\n2 0 1 0\n", tab1);
  bad += probe("fewer samples than nodes");
  if (argc > 1 && !strcmp(argv[1], "crash")) { mk("-1", "", tab4); bad += probe("negative dimension"); }
  std::cout << (bad ? "FAIL" : "PASS") << std::endl;
  return bad ? 1 : 0;
}
