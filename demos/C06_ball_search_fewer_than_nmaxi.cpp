// C06 (known finding): with the ball-tree search on, the candidates are the nmaxi nearest of ALL samples; those that are then rejected (masked, undefined,
// cross-validated target, pair checkers) are not replaced by the next nearest qualifying samples: the neighbourhood holds fewer than nmaxi samples.
#include "Db/Db.hpp"
#include "Neigh/NeighMoving.hpp"
#include "Space/ASpaceObject.hpp"
#include <iostream>
static VectorInt neighbours(bool ball)
{
  // five samples on a line; the closest one to the target (rank 2) is masked by the selection
  Db* data = Db::createFromSamples(5, ELoadBy::COLUMN, {0., 1., 2., 3., 4.,  0., 0., 0., 0., 0.,  1., 2., 3., 4., 5.,  1., 1., 0., 1., 1.},
                                   {"x", "y", "z", "sel"}, {"x1", "x2", "z1", "sel"});
  Db* target = Db::createFromSamples(1, ELoadBy::COLUMN, {2.1, 0.}, {"x", "y"}, {"x1", "x2"});
  NeighMoving* neigh = NeighMoving::create(false, 3, 100.);
  neigh->setBallSearch(ball, 2);
  neigh->attach(data, target);
  VectorInt ranks; neigh->select(0, ranks);
  return ranks;
}
int main()
{
  defineDefaultSpace(ESpaceType::RN, 2);
  VectorInt a = neighbours(false), b = neighbours(true);
  std::cout << "exhaustive search:"; for (int r : a) std::cout << " " << r; std::cout << "   ball-tree search:"; for (int r : b) std::cout << " " << r; std::cout << std::endl;
  bool same = (a == b);
  std::cout << (same ? "PASS" : "FAIL: the ball-tree search does not return the 3 closest active samples (nmaxi = 3, four active samples within the radius)") << std::endl;
  return same ? 0 : 1;
}
