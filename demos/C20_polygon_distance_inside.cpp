// C20: dbPolygonDistance (option polin != 0) tests whether each sample is inside the polygon with 'polygon->inside(x, y)' - two doubles - although the
// only overload is inside(const VectorDouble& coor, bool flag_nested).  The first double is converted to a VectorDouble of (size_t) x ZEROS and the
// second to the flag: the point tested is the origin, never the sample (and a negative x asks for an astronomically long vector: the process dies).
// Here polin = 1: samples outside the polygon must be set to undefined, samples inside keep their distance.
#include "Db/Db.hpp"
#include "Polygon/Polygons.hpp"
#include "Polygon/PolyElem.hpp"
#include "Space/ASpaceObject.hpp"
#include <iostream>
int main()
{
  defineDefaultSpace(ESpaceType::RN, 2);
  Polygons* poly = new Polygons();
  poly->addPolyElem(PolyElem({10., 20., 20., 10., 10.}, {10., 10., 20., 20., 10.}));
  // sample 0 inside (15,15), sample 1 outside (30,30), sample 2 inside (12,18)
  Db* db = Db::createFromSamples(3, ELoadBy::COLUMN, {15., 30., 12., 15., 30., 18.}, {"x", "y"}, {"x1", "x2"});
  (void) dbPolygonDistance(db, poly, TEST, 0, 1);
  int icol = db->getColumnNumber() - 1;
  double d0 = db->getValueByColIdx(0, icol), d1 = db->getValueByColIdx(1, icol), d2 = db->getValueByColIdx(2, icol);
  std::cout << "distance kept for: inside sample (15,15): " << d0 << "  outside sample (30,30): " << d1 << "  inside sample (12,18): " << d2 << std::endl;
  bool ok = !FFFF(d0) && FFFF(d1) && !FFFF(d2);
  std::cout << (ok ? "PASS" : "FAIL: the inside/outside decision was not taken at the sample location") << std::endl;
  return ok ? 0 : 1;
}
