// C08: AnamHermite::_serialize writes getPsiHns(), i.e. the Hermite coefficients ALREADY multiplied by r^n when a change of support
// coefficient r < 1 is defined, while _deserialize stores what it reads as the raw coefficients and restores r: after a reload the
// change of support is applied twice (psi_n r^2n), so the reloaded anamorphosis transforms differently and re-writing it gives another file.
#include "Anamorphosis/AnamHermite.hpp"
#include "Basic/ASerializable.hpp"
#include <iostream>
#include <cmath>
int main()
{
  ASerializable::setPrefixName("C08demo-");
  AnamHermite* a = AnamHermite::create(4);
  a->setPsiHns({10., -3., 1., 0.5});
  a->setRCoef(0.8);
  if (!a->dumpToNF("anamH.ascii")) { std::cout << "dump failed" << std::endl; return 2; }
  AnamHermite* b = AnamHermite::createFromNF("anamH.ascii", false);
  if (b == nullptr) { std::cout << "FAIL: reload refused" << std::endl; return 1; }
  VectorDouble pa = a->getPsiHns(), pb = b->getPsiHns();
  double dmax = 0.;
  for (int i = 0; i < 4; i++) { std::cout << "psi[" << i << "] " << pa[i] << " -> " << pb[i] << std::endl; dmax = std::max(dmax, std::fabs(pa[i] - pb[i])); }
  bool ok = dmax < 1e-12 && b->getRCoef() == a->getRCoef();
  std::cout << (ok ? "PASS" : "FAIL: change of support applied twice after reload") << std::endl;
  return ok ? 0 : 1;
}
