// Demonstration for C20: union rule with vertical limits — a polyelem whose vertical limits exclude the point vetoes the whole set.
#include "Polygon/Polygons.hpp"
#include "Polygon/PolyElem.hpp"
#include <cstdio>
int main()
{
  PolyElem A({0., 1., 1., 0., 0.}, {0., 0., 1., 1., 0.}, 0., 1.);        // unit square, z in [0,1]
  PolyElem B({5., 6., 6., 5., 5.}, {0., 0., 1., 1., 0.}, 10., 20.);      // another square, z in [10,20]
  Polygons P;
  P.addPolyElem(A);
  P.addPolyElem(B);
  bool in = P.inside({5.5, 0.5, 15.}, false);      // inside B, within B's vertical limits
  printf("%s\n", in ? "PASS" : "FAIL: point inside polyelem B (and its vertical limits) reported outside the set");
  return in ? 0 : 1;
}
