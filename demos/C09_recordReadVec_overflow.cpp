// Demonstration for C09: a neutral file whose data line holds one value too many makes the record reader write past its buffer.
// Run under valgrind: "Invalid write of size 8" inside ASerializable::_recordReadVec<double>.
#include "Basic/PolyLine2D.hpp"
#include <fstream>
#include <cstdio>
int main()
{
  PolyLine2D line({0., 1., 2.}, {0., 1., 0.});
  line.dumpToNF("/tmp/demo/c09_line.ascii");
  // corrupt: add a third token on the first data line
  std::ifstream in("/tmp/demo/c09_line.ascii"); std::string all, l; int k = 0;
  while (std::getline(in, l)) { if (k == 2) l += " 7.5"; all += l + "\n"; k++; }
  in.close();
  std::ofstream out("/tmp/demo/c09_line_bad.ascii"); out << all; out.close();
  PolyLine2D* back = PolyLine2D::createFromNF("/tmp/demo/c09_line_bad.ascii", false);
  printf("loader returned %s\n", back == nullptr ? "failure (nullptr)" : "an object");
  delete back;
  return 0;
}
