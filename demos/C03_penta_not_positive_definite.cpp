// C03: the structure ECov::PENTA ("Pentamodel", offered up to 3-D) evaluated the formula of CovReg1D (a copy: the 1-D regularised model, which takes
// negative values and has support 2) instead of the pentamodel 1 - 22/3 h^2 + 33 h^4 - 77/2 h^5 + 33/2 h^7 - 11/2 h^9 + 5/6 h^11 (the library's own
// taper _tape_penta).  Its covariance matrices on plain 2-D and 3-D lattices had large negative eigenvalues (-9.4 and -19.9 with sill 1).
#include "Model/Model.hpp"
#include "Space/ASpaceObject.hpp"
#include "Space/SpacePoint.hpp"
#include <Eigen/Dense>
#include <iostream>
int main()
{
  int bad = 0;
  for (int ndim = 1; ndim <= 3; ndim++) {
  defineDefaultSpace(ESpaceType::RN, ndim);
  Model* model = Model::createFromParam(ECov::PENTA, 1., 1.);
  double lminmin = 1e9;
  for (double step : {0.15, 0.25, 0.35, 0.5, 0.7}) {
    int n = (ndim == 1) ? 60 : (ndim == 2 ? 10 : 5); int N = 1; for (int d = 0; d < ndim; d++) N *= n;
    Eigen::MatrixXd C(N, N);
    for (int a = 0; a < N; a++) for (int b = 0; b < N; b++) {
      VectorDouble x(ndim), y(ndim); int ra = a, rb = b;
      for (int d = 0; d < ndim; d++) { x[d] = (ra % n) * step; ra /= n; y[d] = (rb % n) * step; rb /= n; }
      SpacePoint p1(x), p2(y); C(a, b) = model->eval(p1, p2); }
    Eigen::SelfAdjointEigenSolver<Eigen::MatrixXd> es(C); lminmin = std::min(lminmin, es.eigenvalues()(0)); }
  std::cout << "PENTA in " << ndim << "-D: smallest eigenvalue over the lattices " << lminmin << std::endl; if (lminmin < -1e-9) bad = 1; }
  std::cout << (bad ? "FAIL: the Pentamodel is not positive semi-definite" : "PASS") << std::endl;
  return bad;
}
