// C04 (known finding, not repaired): collocated cokriging through kriging(..., rank_colcok).  The neighbourhood receives the target itself as an extra
// sample of rank -1 (ANeigh::_updateColCok); KrigingSystem::_lhsCalcul hands that rank to the optimised covariance as an ordinary data point
// (_p1.setTarget(false); _p1.setIech(-1)), and ACov::load indexes the vector of pre-projected data points with -1: the process dies (SIGSEGV).
// The run is made in a child process; PASS when kriging returns, FAIL when it crashes.
#include <unistd.h>
#include <sys/wait.h>
#include "Db/Db.hpp"
#include "Model/Model.hpp"
#include "Neigh/NeighUnique.hpp"
#include "Estimation/CalcKriging.hpp"
#include "Matrix/MatrixSquareSymmetric.hpp"
#include "Space/ASpaceObject.hpp"
#include <iostream>
#include <cmath>
static VectorDouble run(const VectorDouble& tx, const VectorDouble& ty, const VectorDouble& tz2)
{
  int n = 5; VectorDouble tab;
  double xs[5] = {0., 3., 1., 5., 2.5}, ys[5] = {0., 1., 4., 5., 2.};
  for (int i = 0; i < n; i++) tab.push_back(xs[i]);
  for (int i = 0; i < n; i++) tab.push_back(ys[i]);
  for (int i = 0; i < n; i++) tab.push_back(1. + 0.5 * i);
  for (int i = 0; i < n; i++) tab.push_back(2. - 0.3 * i * i);
  Db* data = Db::createFromSamples(n, ELoadBy::COLUMN, tab, {"x", "y", "z1", "z2"}, {"x1", "x2", "z1", "z2"});
  int nt = (int) tx.size(); VectorDouble tt;
  for (double v : tx) tt.push_back(v); for (double v : ty) tt.push_back(v); for (double v : tz2) tt.push_back(v);
  Db* targ = Db::createFromSamples(nt, ELoadBy::COLUMN, tt, {"x", "y", "c2"}, {"x1", "x2", "f1"});
  targ->clearLocators(ELoc::F);
  MatrixSquareSymmetric sills(2); sills.setValue(0,0,2.); sills.setValue(1,1,3.); sills.setValue(1,0,1.2);
  Model* model = Model::createFromParam(ECov::SPHERICAL, 6., 0., 1., VectorDouble(), sills.getValues());
  NeighUnique* neigh = NeighUnique::create();
  int icol = targ->getColIdx("c2");
  VectorInt rank_colcok = {ITEST, icol};
  (void) kriging(data, targ, model, neigh, EKrigOpt::POINT, true, false, false, VectorInt(), rank_colcok);
  VectorDouble out; for (int i = 0; i < nt; i++) out.push_back(targ->getValue("Kriging.z1.estim", i));
  return out;
}
int main()
{
  pid_t p = fork();
  if (p != 0) { int st = 0; waitpid(p, &st, 0); bool ok = WIFEXITED(st); std::cout << (ok ? "PASS" : "FAIL: collocated cokriging crashed (signal)") << std::endl; return ok ? 0 : 1; }
  defineDefaultSpace(ESpaceType::RN, 2);
  // target A: general location; target B: coincides with the datum (3,1)
  VectorDouble seq = run({1.7, 3.}, {2.2, 1.}, {0.5, 0.9});
  VectorDouble alone = run({3.}, {1.}, {0.9});
  std::cout << "target on a datum: after another target " << seq[1] << "   alone " << alone[0] << std::endl;
  _exit(0);
}
