// C04: equivalences between two ways of computing the same kriging
#include "Db/Db.hpp"
#include "Db/DbGrid.hpp"
#include "Model/Model.hpp"
#include "Neigh/NeighUnique.hpp"
#include "Neigh/NeighMoving.hpp"
#include "Estimation/CalcKriging.hpp"
#include "Basic/Law.hpp"
#include "Space/ASpaceObject.hpp"
#include "Enum/EKrigOpt.hpp"
#include <iostream>
#include <cmath>
static int bad = 0;
static void cmp(const char* what, const VectorDouble& a, const VectorDouble& b, double tol = 1e-7)
{
  if (a.size() != b.size() || a.empty()) { std::cout << what << ": sizes " << a.size() << " / " << b.size() << "\n"; bad++; return; }
  double worst = 0; int iw = -1;
  for (size_t i = 0; i < a.size(); i++) { bool ua = FFFF(a[i]), ub = FFFF(b[i]); double d = (ua || ub) ? ((ua && ub) ? 0. : 1e30) : std::abs(a[i] - b[i]) / (1. + std::abs(a[i])); if (d > worst) { worst = d; iw = (int) i; } }
  if (worst > tol) { bad++; std::cout << what << ": DIFFER at " << iw << ": " << a[iw] << " vs " << b[iw] << "\n"; } else std::cout << what << ": equal\n";
}
static Db* mkdata(int n, bool selection, bool hetero)
{
  VectorDouble tab;
  for (int i = 0; i < n; i++)
  {
    double x = law_uniform(0., 10.), y = law_uniform(0., 10.), z = law_gaussian(), s = (selection && i % 6 == 2) ? 0. : 1.;
    if (hetero && i % 5 == 1) z = TEST;
    for (double v : {x, y, z, s}) tab.push_back(v);
  }
  return Db::createFromSamples(n, ELoadBy::SAMPLE, tab, {"x","y","z","sel"}, {"x1","x2","z1","sel"});
}
int main()
{
  defineDefaultSpace(ESpaceType::RN, 2);
  law_set_random_seed(5);
  Model* model = Model::createFromParam(ECov::SPHERICAL, 6., 1.5);
  model->addCovFromParam(ECov::NUGGET, 0., 0.2);
  model->setDriftIRF(1);
  NeighUnique* nu = NeighUnique::create();
  NeighMoving* nm = NeighMoving::create(false, 1000, 1.e6);
  for (int cas = 0; cas < 3; cas++)
  {
    Db* data = mkdata(25, cas >= 1, cas >= 2);
    DbGrid* g1 = DbGrid::create({4, 4}, {2.5, 2.5}, {0.7, 0.9});
    DbGrid* g2 = DbGrid::create({4, 4}, {2.5, 2.5}, {0.7, 0.9});
    // 1. unique vs wide moving neighbourhood
    kriging(data, g1, model, nu); kriging(data, g2, model, nm);
    cmp("unique vs wide moving (estimate)", g1->getColumn("Kriging.z.estim"), g2->getColumn("Kriging.z.estim"));
    cmp("unique vs wide moving (st. dev.)", g1->getColumn("Kriging.z.stdev"), g2->getColumn("Kriging.z.stdev"));
    // 2. block kriging with one discretisation point vs point kriging
    DbGrid* g3 = DbGrid::create({4, 4}, {2.5, 2.5}, {0.7, 0.9});
    kriging(data, g3, model, nu, EKrigOpt::BLOCK, true, true, false, {1, 1});
    cmp("block(1x1) vs point (estimate)", g1->getColumn("Kriging.z.estim"), g3->getColumn("Kriging.z.estim"));
    cmp("block(1x1) vs point (st. dev.)", g1->getColumn("Kriging.z.stdev"), g3->getColumn("Kriging.z.stdev"));
    // 3. cross-validation in unique neighbourhood vs explicit leave-one-out
    Db* dx = data->clone();
    xvalid(dx, model, nu, false, 1, 1);
    VectorDouble err = dx->getColumn("Xvalid.z.esterr"), sde = dx->getColumn("Xvalid.z.stderr");
    VectorDouble err2(data->getSampleNumber(), TEST), sde2(data->getSampleNumber(), TEST);
    for (int i = 0; i < data->getSampleNumber(); i++)
    {
      if (!data->isActive(i) || FFFF(data->getZVariable(i, 0))) continue;
      Db* d2 = data->clone();
      double zi = d2->getZVariable(i, 0);
      d2->setZVariable(i, 0, TEST);
      Db* t = Db::createFromSamples(1, ELoadBy::SAMPLE, {data->getCoordinate(i, 0), data->getCoordinate(i, 1)}, {"x","y"}, {"x1","x2"});
      kriging(d2, t, model, nu);
      double est = t->getColumn("Kriging.z.estim")[0], sd = t->getColumn("Kriging.z.stdev")[0];
      err2[i] = est - zi; sde2[i] = (est - zi) / sd;
      delete d2; delete t;
    }
    cmp("xvalid unique vs leave-one-out (error)", err, err2, 1e-6);
    cmp("xvalid unique vs leave-one-out (standardised error)", sde, sde2, 1e-6);
    // 4. xvalid moving wide vs unique
    Db* dm = data->clone();
    xvalid(dm, model, nm, false, 1, 1);
    cmp("xvalid unique vs wide moving (error)", err, dm->getColumn("Xvalid.z.esterr"), 1e-6);
  }
  std::cout << (bad ? "FAIL" : "PASS") << "\n";
  return bad ? 1 : 0;
}
