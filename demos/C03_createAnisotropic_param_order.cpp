// C03: CovAniso::createAnisotropic (and the *Multi variants) convert the ranges into scales BEFORE installing the third parameter.  For structures whose
// range/scale factor depends on that parameter (Matern, Stable, Cauchy, Gamma) the conversion uses the factor of the default parameter (1): the
// structure returned does not have the ranges it was asked for, so C(h) is not the published function of h / range.
// Reference: the same structure built in the other order (parameter first), and CovAniso::createIsotropic which is right.
#include "Covariances/CovAniso.hpp"
#include "Covariances/CovContext.hpp"
#include "Space/ASpaceObject.hpp"
#include <iostream>
#include <cmath>
int main()
{
  defineDefaultSpace(ESpaceType::RN, 2);
  CovContext ctxt(1, 2);
  int bad = 0;
  ECov types[2] = { ECov::MATERN, ECov::CAUCHY };
  for (int k = 0; k < 2; k++)
  {
    CovAniso* a = CovAniso::createAnisotropic(ctxt, types[k], {6., 2.}, 1., 2.5, VectorDouble());
    CovAniso b(types[k], ctxt); b.setParam(2.5); b.setRanges({6., 2.});              // parameter first, then ranges
    std::cout << (k == 0 ? "Matern" : "Cauchy") << " param 2.5, requested ranges 6 2 : createAnisotropic gives " << a->getRanges()[0] << " " << a->getRanges()[1]
              << "   (parameter-first construction: " << b.getRanges()[0] << " " << b.getRanges()[1] << ")" << std::endl;
    if (std::fabs(a->getRanges()[0] - 6.) > 1e-9 || std::fabs(a->getRanges()[1] - 2.) > 1e-9) bad = 1;
    delete a;
  }
  std::cout << (bad ? "FAIL: the structure does not have the requested ranges" : "PASS") << std::endl;
  return bad;
}
