// Demonstration for C10: KrigingCalcul — the same request repeated after a failure gives a different answer.
// The right-hand side (Sigma0) has not been provided: the standard deviation cannot be computed.
#include "Estimation/KrigingCalcul.hpp"
#include "Matrix/MatrixSquareSymmetric.hpp"
#include "Matrix/MatrixRectangular.hpp"
#include <cstdio>
int main()
{
  MatrixSquareSymmetric Sigma(2);
  Sigma.setValue(0, 0, 1.); Sigma.setValue(0, 1, 0.3); Sigma.setValue(1, 1, 1.);
  MatrixSquareSymmetric Sigma00(1);
  Sigma00.setValue(0, 0, 1.);
  KrigingCalcul kc;
  kc.setLHS(&Sigma, nullptr);
  kc.setVar(&Sigma00);
  const MatrixSquareSymmetric* s1 = kc.getStdvMat();   // fails: Sigma0 missing
  const MatrixSquareSymmetric* s2 = kc.getStdvMat();   // identical request
  printf("first request : %s\nsecond request: %s\n", s1 == nullptr ? "failed (nullptr)" : "a matrix is returned",
         s2 == nullptr ? "failed (nullptr)" : "a matrix is returned");
  return (s1 == nullptr) != (s2 == nullptr);
}
