// C07: isUIDDefined(iuid) tells whether a persistent identifier designates a column, whatever columns were deleted before
#include "Db/Db.hpp"
#include <iostream>
int main()
{
  Db* db = Db::createFromSamples(3, ELoadBy::SAMPLE, {1.,2.,3., 4.,5.,6., 7.,8.,9.}, {"a","b","c"}, {"x1","x2","z1"}, false);
  int ua = db->getUID("a"), ub = db->getUID("b"), uc = db->getUID("c");
  db->deleteColumn("a");
  bool ok = true;
  std::cout << "after deleting 'a' (identifier " << ua << "):\n";
  bool da = db->isUIDDefined(ua), dbb = db->isUIDDefined(ub), dc = db->isUIDDefined(uc);
  std::cout << " isUIDDefined(" << ua << ")=" << da << " (column " << db->getColIdxByUID(ua) << ")\n";
  std::cout << " isUIDDefined(" << ub << ")=" << dbb << " (column " << db->getColIdxByUID(ub) << ", name " << db->getNameByUID(ub) << ")\n";
  std::cout << " isUIDDefined(" << uc << ")=" << dc << " (column " << db->getColIdxByUID(uc) << ", name " << db->getNameByUID(uc) << ")\n";
  ok = !da && dbb && dc;
  std::cout << (ok ? "PASS" : "FAIL: an identifier that designates a column is reported as undefined") << "\n";
  return ok ? 0 : 1;
}
