// C05: results computed with masked / undefined samples present equal those computed after physically removing them
#include "Db/Db.hpp"
#include "Db/DbGrid.hpp"
#include "Model/Model.hpp"
#include "Neigh/NeighUnique.hpp"
#include "Neigh/NeighMoving.hpp"
#include "Estimation/CalcKriging.hpp"
#include "Simulation/CalcSimuTurningBands.hpp"
#include "Variogram/Vario.hpp"
#include "Variogram/VarioParam.hpp"
#include "Basic/Law.hpp"
#include "Space/ASpaceObject.hpp"
#include <iostream>
#include <cmath>
static int bad = 0;
static void cmp(const char* what, const VectorDouble& a, const VectorDouble& b, double tol = 1e-8)
{
  if (a.size() != b.size() || a.empty()) { std::cout << what << ": sizes " << a.size() << " / " << b.size() << "\n"; bad++; return; }
  double worst = 0; int iw = -1;
  for (size_t i = 0; i < a.size(); i++) { bool ua = FFFF(a[i]), ub = FFFF(b[i]); double d = (ua || ub) ? ((ua && ub) ? 0. : 1e30) : std::abs(a[i] - b[i]) / (1. + std::abs(a[i])); if (d > worst) { worst = d; iw = (int) i; } }
  if (worst > tol) { bad++; std::cout << what << ": DIFFER at " << iw << ": " << a[iw] << " vs " << b[iw] << "\n"; } else std::cout << what << ": equal\n";
}
int main()
{
  defineDefaultSpace(ESpaceType::RN, 2);
  law_set_random_seed(23);
  int n = 40; VectorDouble full, red; int nred = 0; VectorInt keep;
  for (int i = 0; i < n; i++)
  {
    double x = law_uniform(0., 10.), y = law_uniform(0., 10.), z = law_gaussian();
    bool masked = (i % 6 == 2), undef = (i % 7 == 4), nocoord = (i == 11);
    double zz = undef ? TEST : z, xx = nocoord ? TEST : x;
    for (double v : {xx, y, zz, masked ? 0. : 1.}) full.push_back(v);
    if (!masked && !undef && !nocoord) { for (double v : {x, y, z}) red.push_back(v); nred++; keep.push_back(i); }
  }
  Model* model = Model::createFromParam(ECov::SPHERICAL, 5., 1.2); model->addCovFromParam(ECov::NUGGET, 0., 0.1); model->setDriftIRF(0);
  for (int mv = 0; mv < 2; mv++)
  {
    Db* A = Db::createFromSamples(n, ELoadBy::SAMPLE, full, {"x","y","z","sel"}, {"x1","x2","z1","sel"});
    Db* B = Db::createFromSamples(nred, ELoadBy::SAMPLE, red, {"x","y","z"}, {"x1","x2","z1"});
    ANeigh* neigh = mv ? (ANeigh*) NeighMoving::create(false, 8, 4., 2, 4, 3) : (ANeigh*) NeighUnique::create();
    const char* tag = mv ? "moving" : "unique";
    DbGrid* ga = DbGrid::create({5, 5}, {2., 2.}, {1., 1.}); DbGrid* gb = DbGrid::create({5, 5}, {2., 2.}, {1., 1.});
    kriging(A, ga, model, neigh); kriging(B, gb, model, neigh);
    cmp((std::string(tag) + " kriging estimate").c_str(), ga->getColumn("Kriging.z.estim"), gb->getColumn("Kriging.z.estim"));
    cmp((std::string(tag) + " kriging st.dev.").c_str(), ga->getColumn("Kriging.z.stdev"), gb->getColumn("Kriging.z.stdev"));
    xvalid(A, model, neigh, false, 1, 1); xvalid(B, model, neigh, false, 1, 1);
    VectorDouble ea = A->getColumn("Xvalid.z.esterr"), eb = B->getColumn("Xvalid.z.esterr"), ea2;
    for (int k : keep) ea2.push_back(ea[k]);
    cmp((std::string(tag) + " cross-validation error").c_str(), ea2, eb, 1e-7);
    DbGrid* sa = DbGrid::create({5, 5}, {2., 2.}, {1., 1.}); DbGrid* sb = DbGrid::create({5, 5}, {2., 2.}, {1., 1.});
    Db* A2 = Db::createFromSamples(n, ELoadBy::SAMPLE, full, {"x","y","z","sel"}, {"x1","x2","z1","sel"});
    Db* B2 = Db::createFromSamples(nred, ELoadBy::SAMPLE, red, {"x","y","z"}, {"x1","x2","z1"});
    simtub(A2, sa, model, neigh, 2, 4321, 100); simtub(B2, sb, model, neigh, 2, 4321, 100);
    cmp((std::string(tag) + " conditional simulation 1").c_str(), sa->getColumn("Simu.z.1"), sb->getColumn("Simu.z.1"), 1e-7);
    cmp((std::string(tag) + " conditional simulation 2").c_str(), sa->getColumn("Simu.z.2"), sb->getColumn("Simu.z.2"), 1e-7);
  }
  {
    Db* A = Db::createFromSamples(n, ELoadBy::SAMPLE, full, {"x","y","z","sel"}, {"x1","x2","z1","sel"});
    Db* B = Db::createFromSamples(nred, ELoadBy::SAMPLE, red, {"x","y","z"}, {"x1","x2","z1"});
    VarioParam* vp = VarioParam::createMultiple(2, 6, 1.);
    Vario* va = Vario::computeFromDb(*vp, A, ECalcVario::VARIOGRAM); Vario* vb = Vario::computeFromDb(*vp, B, ECalcVario::VARIOGRAM);
    for (int idir = 0; idir < 2; idir++) { cmp("variogram values", va->getGgVec(idir, 0, 0), vb->getGgVec(idir, 0, 0)); cmp("variogram pairs ", va->getSwVec(idir, 0, 0), vb->getSwVec(idir, 0, 0)); }
    Vario* ca = Vario::computeFromDb(*vp, A, ECalcVario::COVARIANCE); Vario* cb = Vario::computeFromDb(*vp, B, ECalcVario::COVARIANCE);
    cmp("covariance values", ca->getGgVec(0, 0, 0), cb->getGgVec(0, 0, 0));
  }
  std::cout << (bad ? "FAIL" : "PASS") << "\n";
  return bad ? 1 : 0;
}
