// C07: Db::deleteColumnByColIdx(icol) goes through the NAME of the column (_ids(_colNames[icol], true)), and names are matched as regular
// expressions.  The library itself produces names containing '.', e.g. "v.1" when "v" is added twice: "v.1" also matches "v-1", so the
// deletion by column index of the column named "v.1" finds several candidates and deletes nothing (every designation of a column must
// refer to the same data: the column index does not).
#include "Db/Db.hpp"
#include "Space/ASpaceObject.hpp"
#include <iostream>
int main()
{
  defineDefaultSpace(ESpaceType::RN, 2);
  Db* db = Db::createFromSamples(3, ELoadBy::COLUMN, {1., 2., 3.}, {"x"}, {"x1"});
  db->addColumnsByConstant(3, 0., "v");     // v-1 v-2 v-3
  db->addColumnsByConstant(1, 7., "v");     // v
  db->addColumnsByConstant(1, 9., "v");     // v.1  (version suffix produced by the library)
  int ncol = db->getColumnNumber();
  int icol = ncol - 1;
  std::cout << "columns:"; for (int i = 0; i < ncol; i++) std::cout << " " << db->getNameByColIdx(i); std::cout << std::endl;
  db->deleteColumnByColIdx(icol);
  std::cout << "after deleteColumnByColIdx(" << icol << "):"; for (int i = 0; i < db->getColumnNumber(); i++) std::cout << " " << db->getNameByColIdx(i); std::cout << std::endl;
  bool gone = true; for (int i = 0; i < db->getColumnNumber(); i++) if (db->getNameByColIdx(i) == "v.1") gone = false;
  bool ok = db->getColumnNumber() == ncol - 1 && gone && db->getNameByColIdx(db->getColumnNumber() - 1) == "v";
  std::cout << (ok ? "PASS" : "FAIL: the column designated by its index was not the one deleted (or nothing was deleted)") << std::endl;
  return ok ? 0 : 1;
}
