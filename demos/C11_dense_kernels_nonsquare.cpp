// Demonstration for C11: Eigen-backed dense kernels on NON-SQUARE matrices.
#include "Matrix/MatrixRectangular.hpp"
#include "Basic/VectorHelper.hpp"
#include <cstdio>
#include <cmath>
static int bad = 0;
static void chk(const char* what, double got, double want) { if (std::fabs(got - want) > 1e-12) { printf("  %s: got %g, expected %g\n", what, got, want); bad++; } }
int main()
{
  // M = [1 2 3; 4 5 6]
  MatrixRectangular M(2, 3);
  for (int i = 0; i < 2; i++) for (int j = 0; j < 3; j++) M.setValue(i, j, 1. + 3 * i + j);
  { // y = t(M) x
    VectorDouble x = {1., 10.}; VectorDouble y(3, 0.);
    M.prodMatVecInPlace(x, y, true);
    printf("prodMatVecInPlace(transpose=true) on a 2x3 matrix:\n");
    chk("y[0]", y[0], 41.); chk("y[1]", y[1], 52.); chk("y[2]", y[2], 63.);
  }
  { // rows scaled
    MatrixRectangular A = M; A.multiplyRow({10., 100.});
    printf("multiplyRow on a 2x3 matrix:\n");
    for (int i = 0; i < 2; i++) for (int j = 0; j < 3; j++) chk("cell", A.getValue(i, j), (1. + 3 * i + j) * (i == 0 ? 10. : 100.));
  }
  printf("%s\n", bad ? "FAIL" : "PASS");
  return bad ? 1 : 0;
}
