// C04: nearest-point migration through the ball tree equals the exhaustive search
#include "Db/Db.hpp"
#include "Calculators/CalcMigrate.hpp"
#include "Basic/Law.hpp"
#include "Space/ASpaceObject.hpp"
#include <iostream>
#include <cmath>
int main()
{
  defineDefaultSpace(ESpaceType::RN, 2);
  law_set_random_seed(31);
  int bad = 0;
  for (int cas = 0; cas < 6; cas++)
  {
    bool sel_in = cas & 1, undef_in = cas & 2, use_dmax = cas >= 4;
    int n = 40, m = 30; VectorDouble a, b;
    for (int i = 0; i < n; i++) { double z = law_gaussian(); if (undef_in && i % 4 == 1) z = TEST; for (double v : {law_uniform(0., 10.), law_uniform(0., 10.), z, (sel_in && i % 3 == 0) ? 0. : 1.}) a.push_back(v); }
    for (int i = 0; i < m; i++) for (double v : {law_uniform(0., 10.), law_uniform(0., 10.), (i % 5 == 2) ? 0. : 1.}) b.push_back(v);
    Db* din = Db::createFromSamples(n, ELoadBy::SAMPLE, a, {"x","y","z","sel"}, {"x1","x2","z1","sel"});
    for (int dt = 1; dt <= 2; dt++)
    {
      Db* o1 = Db::createFromSamples(m, ELoadBy::SAMPLE, b, {"x","y","sel"}, {"x1","x2","sel"});
      Db* o2 = o1->clone();
      VectorDouble dmax = use_dmax ? VectorDouble{1.5, 1.0} : VectorDouble();
      int e1 = migrate(din, o1, "z", dt, dmax, false, false, false);
      int e2 = migrate(din, o2, "z", dt, dmax, false, false, true);
      VectorDouble v1 = o1->getColumn(o1->getLastName()), v2 = o2->getColumn(o2->getLastName()); if (cas == 0 && dt == 1) std::cout << "created variable: " << o1->getLastName() << "\n";
      int nd = 0;
      for (int i = 0; i < m && i < (int) v1.size() && i < (int) v2.size(); i++) { bool u1 = FFFF(v1[i]), u2 = FFFF(v2[i]); if (u1 != u2 || (!u1 && std::abs(v1[i] - v2[i]) > 1e-12)) { if (nd == 0) std::cout << "case " << cas << " dist_type " << dt << " target " << i << ": exhaustive " << v1[i] << "  ball tree " << v2[i] << "\n"; nd++; } }
      if (e1 || e2 || v1.size() != v2.size()) { nd++; std::cout << "case " << cas << ": error codes " << e1 << " " << e2 << "\n"; }
      if (nd) { bad++; std::cout << "case " << cas << " (selection on data " << sel_in << ", undefined values " << undef_in << ", dmax " << use_dmax << ") dist_type " << dt << ": " << nd << " targets differ\n"; }
    }
  }
  std::cout << (bad ? "FAIL" : "PASS") << "\n";
  return bad ? 1 : 0;
}
