// C16: DbGrid::createSubGrid computes the origin of the sub-grid as X0 + limits_min * DX per axis, without the rotation of the grid: on a rotated grid the
// sub-grid is translated, its nodes do not coincide with the nodes of the original grid they are copied from.
#include "Db/DbGrid.hpp"
#include "Space/ASpaceObject.hpp"
#include <iostream>
#include <cmath>
int main()
{
  defineDefaultSpace(ESpaceType::RN, 2);
  int bad = 0;
  for (int rot = 0; rot < 2; rot++)
  {
    DbGrid* g = DbGrid::create({8, 6}, {2., 3.}, {100., 50.}, {rot ? 30. : 0., 0.});
    DbGrid* s = DbGrid::createSubGrid(g, {{2, 5}, {1, 4}}, true);
    // node (0,0) of the sub-grid is node (2,1) of the grid
    VectorDouble a = g->getGrid().indicesToCoordinate({2, 1});
    VectorDouble b = s->getGrid().indicesToCoordinate({0, 0});
    double d = std::hypot(a[0] - b[0], a[1] - b[1]);
    std::cout << (rot ? "rotated 30 deg" : "not rotated  ") << ": grid node (2,1) = (" << a[0] << ", " << a[1] << ")   sub-grid node (0,0) = (" << b[0] << ", " << b[1] << ")   distance " << d << std::endl;
    if (d > 1e-9) bad = 1;
  }
  std::cout << (bad ? "FAIL: on a rotated grid the sub-grid is translated away from the nodes it copies" : "PASS") << std::endl;
  return bad;
}
