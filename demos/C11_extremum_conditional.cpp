// C11: VH::maximum / VH::minimum (vec, flagAbs, aux, mode != 0): extremum of the elements of 'vec' retained by the comparison with 'aux'.
// Before the fix a rejected element executed 'continue' without advancing the two read pointers: every later element was never examined.
#include "Basic/VectorHelper.hpp"
#include <iostream>
int main()
{
  VectorDouble vec = {1., 5., 3.}, aux = {2., 0., 0.};
  double mx = VH::maximum(vec, false, aux, 1);   // retained: 5 (>= 0) and 3 (>= 0) -> 5
  VectorDouble vec2 = {9., 2., 4.}, aux2 = {1., 7., 8.};
  double mn = VH::minimum(vec2, false, aux2, -1); // retained: 2 (<= 7) and 4 (<= 8) -> 2
  std::cout << "maximum = " << mx << " (expected 5)\nminimum = " << mn << " (expected 2)\n";
  bool ok = mx == 5. && mn == 2.;
  std::cout << (ok ? "PASS" : "FAIL: elements after the first rejected one are ignored") << "\n";
  return ok ? 0 : 1;
}
