// C01: krigtest() exports the kriging system through KrigingSystem::getLHSC() / getRHSC(), which returned the COMPRESSED work matrices _lhsc / _rhsc.
// Those are filled only for heterotopic data; with isotopic data the system solved lives in _lhsf / _rhsf (_lhs / _rhs point to them) and the matrices
// exported were all zeros.
#include "Db/Db.hpp"
#include "Model/Model.hpp"
#include "Neigh/NeighUnique.hpp"
#include "Estimation/CalcKriging.hpp"
#include "Space/ASpaceObject.hpp"
#include <iostream>
#include <cmath>
int main()
{
  defineDefaultSpace(ESpaceType::RN, 2);
  Db* data = Db::createFromSamples(4, ELoadBy::COLUMN, {0., 3., 1., 5.,  0., 1., 4., 5.,  1., 2., 3., 4.}, {"x", "y", "z"}, {"x1", "x2", "z1"});
  Db* one  = Db::createFromSamples(1, ELoadBy::COLUMN, {1., 1.}, {"x", "y"}, {"x1", "x2"});
  Model* model = Model::createFromParam(ECov::SPHERICAL, 6., 2.);
  NeighUnique* neigh = NeighUnique::create();
  Krigtest_Res a = krigtest(data, one, model, neigh, 0);
  // spherical covariance, range 6, sill 2: C(0) = 2 on the diagonal; C(|(0,0)-(1,1)|) = 2 (1 - 1.5 h/6 + 0.5 (h/6)^3), h = sqrt(2)
  double h = std::sqrt(2.) / 6., c01 = 2. * (1. - 1.5 * h + 0.5 * h * h * h);
  std::cout << "exported lhs(0,0) = " << a.lhs.getValue(0, 0) << " (expected 2)   rhs(0) = " << a.rhs.getValue(0, 0) << " (expected " << c01 << ")" << std::endl;
  bool ok = std::fabs(a.lhs.getValue(0, 0) - 2.) < 1e-9 && std::fabs(a.rhs.getValue(0, 0) - c01) < 1e-9;
  std::cout << (ok ? "PASS" : "FAIL: the exported system is not the system that was solved") << std::endl;
  return ok ? 0 : 1;
}
