// C19: kriging with an external drift known on the target grid only: the input data base must come out unchanged
#include "Db/Db.hpp"
#include "Db/DbGrid.hpp"
#include "Model/Model.hpp"
#include "Covariances/CovAniso.hpp"
#include "Neigh/NeighUnique.hpp"
#include "Estimation/CalcKriging.hpp"
#include "Basic/VectorHelper.hpp"
#include "Basic/OptCustom.hpp"
#include "Drifts/DriftFactory.hpp"
#include "Drifts/DriftList.hpp"
#include "Drifts/DriftF.hpp"
#include "Drifts/DriftM.hpp"
#include <iostream>
int main()
{
  DbGrid* grid = DbGrid::create({10,10},{1.,1.});
  VectorDouble f(100); for (int i = 0; i < 100; i++) f[i] = 0.1 * (i % 10) + 0.01 * (i / 10);
  grid->addColumns(f, "ext", ELoc::F);
  Db* data = Db::createFromSamples(5, ELoadBy::SAMPLE, {1.2,1.3,1., 4.5,2.2,2., 7.1,6.3,0.5, 2.2,8.1,1.5, 8.3,8.8,3.}, {"x","y","z"}, {"x1","x2","z1"});
  int ncol0 = data->getColumnNumber();
  VectorString names0 = data->getAllNames();
  Model* model = Model::createFromParam(ECov::SPHERICAL, 5., 1.);
  DriftList* drifts = new DriftList();
  DriftM d0; drifts->addDrift(&d0);
  DriftF d1(0); drifts->addDrift(&d1);
  model->setDriftList(drifts);
  NeighUnique* neigh = NeighUnique::create();
  int err = kriging(data, grid, model, neigh);
  std::cout << "kriging returned " << err << "\n";
  std::cout << "columns of the input data base before: " << ncol0 << "  after: " << data->getColumnNumber() << "\n";
  VectorString names1 = data->getAllNames();
  for (auto& n : names1) std::cout << " " << n; std::cout << "\n";
  bool ok = (data->getColumnNumber() == ncol0);
  std::cout << (ok ? "PASS" : "FAIL: the calculation left variables in the input data base") << "\n";
  return ok ? 0 : 1;
}
