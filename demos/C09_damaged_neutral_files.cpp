// C09: loading a damaged neutral file must end with a clean refusal (or a consistent object), never with a crash or a hang
#include "Db/Db.hpp"
#include "Db/DbGrid.hpp"
#include "Model/Model.hpp"
#include "Variogram/Vario.hpp"
#include "Polygon/Polygons.hpp"
#include "Matrix/Table.hpp"
#include "LithoRule/Rule.hpp"
#include "Basic/PolyLine2D.hpp"
#include "Anamorphosis/AnamHermite.hpp"
#include "Anamorphosis/AnamEmpirical.hpp"
#include "Neigh/NeighMoving.hpp"
#include "Neigh/NeighUnique.hpp"
#include "Mesh/MeshETurbo.hpp"
#include "Faults/Faults.hpp"
#include "Basic/ASerializable.hpp"
#include "Space/ASpaceObject.hpp"
#include <iostream>
#include <fstream>
#include <sstream>
#include <vector>
#include <unistd.h>
#include <fcntl.h>
#include <sys/wait.h>
#include <signal.h>
#include <sys/resource.h>
static std::string slurp(const std::string& f) { std::ifstream is(f); std::stringstream ss; ss << is.rdbuf(); return ss.str(); }
template <class T> static int load(const std::string& f) { T* o = T::createFromNF(f, false); if (o != nullptr) { (void) o->toString(); delete o; } return 0; }
static int dispatch(const std::string& cls, const std::string& f)
{
  if (cls == "Db") return load<Db>(f); if (cls == "DbGrid") return load<DbGrid>(f); if (cls == "Model") return load<Model>(f);
  if (cls == "Vario" || cls == "VarioCov") return load<Vario>(f); if (cls == "Polygons") return load<Polygons>(f); if (cls == "Table") return load<Table>(f);
  if (cls == "Rule") return load<Rule>(f); if (cls == "PolyLine2D") return load<PolyLine2D>(f); if (cls == "AnamHermite") return load<AnamHermite>(f);
  if (cls == "AnamEmpirical") return load<AnamEmpirical>(f); if (cls == "NeighMoving") return load<NeighMoving>(f); if (cls == "NeighUnique") return load<NeighUnique>(f);
  if (cls == "MeshETurbo") return load<MeshETurbo>(f); if (cls == "Faults") return load<Faults>(f);
  return 0;
}
int main(int argc, char** argv)
{
  defineDefaultSpace(ESpaceType::RN, 2);
  ASerializable::setContainerName(false, "/tmp/demo/rt/", false);
  ASerializable::setPrefixName("");
  if (argc == 3) { dispatch(argv[1], argv[2]); std::cout << "loaded without crash\n"; return 0; }
  std::vector<std::string> classes = {"Db","DbGrid","Model","Vario","VarioCov","Polygons","Table","Rule","PolyLine2D","AnamHermite","AnamEmpirical","NeighMoving","NeighUnique","MeshETurbo","Faults"};
  std::vector<std::string> subst = {"-1", "0", "-7", "1000000000", "2147483647", "NA", "1e300", "-1e300", "x", "3.5"};
  int crashes = 0, trials = 0;
  for (auto& cls : classes)
  {
    std::string src = slurp("/tmp/demo/rt/rt_" + cls + "_1.ascii");
    if (src.empty()) { std::cout << cls << ": no reference file\n"; continue; }
    // tokenise (keep positions)
    std::vector<std::pair<size_t,size_t>> toks; size_t i = 0;
    while (i < src.size()) { while (i < src.size() && isspace((unsigned char) src[i])) i++; size_t j = i; while (j < src.size() && !isspace((unsigned char) src[j])) j++; if (j > i) toks.push_back({i, j - i}); i = j; }
    int ntok = (int) toks.size(); int cls_crash = 0;
    for (int t = 1; t < ntok && t < 400; t++)                       // token 0 is the class keyword
      for (size_t s = 0; s <= subst.size(); s++)
      {
        std::string mut = (s < subst.size()) ? src.substr(0, toks[t].first) + subst[s] + src.substr(toks[t].first + toks[t].second) : src.substr(0, toks[t].first);   // last: truncation
        std::string fn = "/tmp/demo/rt/fuzz.ascii"; { std::ofstream os(fn); os << mut; }
        trials++;
        pid_t pid = fork();
        if (pid == 0) { struct rlimit rl = {1500000000, 1500000000}; setrlimit(RLIMIT_AS, &rl); alarm(10); int fd = open("/dev/null", 1); dup2(fd, 1); dup2(fd, 2); dispatch(cls, "fuzz.ascii"); _exit(0); }
        int st = 0; waitpid(pid, &st, 0);
        if (WIFSIGNALED(st)) { crashes++; cls_crash++; if (cls_crash <= 3) std::cout << cls << ": token " << t << " ('" << src.substr(toks[t].first, toks[t].second) << "') -> '" << (s < subst.size() ? subst[s] : std::string("<truncated here>")) << "': killed by signal " << WTERMSIG(st) << "\n"; }
      }
    std::cout << cls << ": " << cls_crash << " crash(es)\n";
  }
  std::cout << trials << " damaged files, " << crashes << " crash(es) or hang(s)\n" << (crashes ? "FAIL" : "PASS") << "\n";
  return crashes ? 1 : 0;
}
