// C19: a Gaussian transform whose computing stage fails (failure injected in _run, everything else is the library's code)
// must leave the data base without the variables created for the results
#include "Db/Db.hpp"
#include "Anamorphosis/AnamHermite.hpp"
#include "Anamorphosis/CalcAnamTransform.hpp"
#include <iostream>
class FailingTransform : public CalcAnamTransform
{
public:
  FailingTransform(AAnam* anam) : CalcAnamTransform(anam) {}
private:
  bool _run() override { return false; }     // the failure of the computing stage
};
int main()
{
  Db* data = Db::createFromSamples(5, ELoadBy::SAMPLE, {1.2,1.3,1., 4.5,2.2,2., 7.1,6.3,0.5, 2.2,8.1,1.5, 8.3,8.8,3.}, {"x","y","z"}, {"x1","x2","z1"});
  AnamHermite* anam = AnamHermite::create(10);
  anam->fitFromLocator(data);
  int ncol0 = data->getColumnNumber();
  FailingTransform t(anam);
  t.setDb(data);
  t.setFlagVars(true);
  t.setFlagZToY(true);
  bool ok = t.run();
  std::cout << "run() returned " << ok << "\n";
  std::cout << "columns before: " << ncol0 << "  after the failed calculation: " << data->getColumnNumber() << "\n";
  for (auto& n : data->getAllNames()) std::cout << " " << n; std::cout << "\n";
  bool pass = !ok && data->getColumnNumber() == ncol0;
  std::cout << (pass ? "PASS" : "FAIL: the failed calculation left its result variables in the data base") << "\n";
  return pass ? 0 : 1;
}
