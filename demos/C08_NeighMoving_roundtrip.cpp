// Demonstration for C08: save / reload of an anisotropic, rotated moving neighbourhood.
#include "Neigh/NeighMoving.hpp"
#include "Geometry/BiTargetCheckDistance.hpp"
#include "Space/ASpaceObject.hpp"
#include <cstdio>
#include <cmath>
int main()
{
  defineDefaultSpace(ESpaceType::RN, 2);
  NeighMoving* a = NeighMoving::create(false, 10, 20., 2, 4, 3, {1., 0.5}, {30., 0.});
  a->dumpToNF("/tmp/demo/c08_neigh.ascii");
  NeighMoving* b = NeighMoving::createFromNF("/tmp/demo/c08_neigh.ascii", false);
  if (b == nullptr) { printf("reload failed\nFAIL\n"); return 1; }
  const BiTargetCheckDistance* da = a->getBiPtDist(); const BiTargetCheckDistance* db = b->getBiPtDist();
  int bad = 0;
  printf("radius      : %g -> %g\n", da->getRadius(), db->getRadius());                 if (std::fabs(da->getRadius() - db->getRadius()) > 1e-9) bad++;
  for (int i = 0; i < 2; i++) { printf("coeff[%d]    : %g -> %g\n", i, da->getAnisoCoeff(i), db->getAnisoCoeff(i)); if (std::fabs(da->getAnisoCoeff(i) - db->getAnisoCoeff(i)) > 1e-9) bad++; }
  printf("flag rotation: %d -> %d\n", da->getFlagRotation(), db->getFlagRotation());     if (da->getFlagRotation() != db->getFlagRotation()) bad++;
  for (int i = 0; i < 4; i++) if (std::fabs(da->getAnisoRotMat(i) - db->getAnisoRotMat(i)) > 1e-9) { printf("rotmat[%d]   : %g -> %g\n", i, da->getAnisoRotMat(i), db->getAnisoRotMat(i)); bad++; }
  b->dumpToNF("/tmp/demo/c08_neigh2.ascii");
  printf("%s\n", bad ? "FAIL" : "PASS");
  return bad ? 1 : 0;
}
