// C03: the space-dimension gate of the basic structures never fires.  ACovFunc's constructor calls the virtual isConsistent(), which during construction
// resolves to the BASE getMaxNDim() (no limit): a Triangle structure (valid in 1-D only) is accepted in a 2-D model, and the covariance matrix it gives
// on a plain 2-D lattice has a negative eigenvalue (negative kriging variances).  The finished object itself reports that it is not consistent.
#include "Model/Model.hpp"
#include "Covariances/CovAniso.hpp"
#include "Space/ASpaceObject.hpp"
#include "Space/SpacePoint.hpp"
#include <Eigen/Dense>
#include <iostream>
int main()
{
  defineDefaultSpace(ESpaceType::RN, 2);
  Model* model = nullptr;
  bool accepted = true;
  try { model = Model::createFromParam(ECov::TRIANGLE, 1., 1.); } catch (...) { accepted = false; }
  if (!accepted || model == nullptr) { std::cout << "Triangle refused in 2-D" << std::endl << "PASS" << std::endl; return 0; }
  int n = 8; double step = 0.7;
  Eigen::MatrixXd C(n * n, n * n);
  for (int a = 0; a < n * n; a++) for (int b = 0; b < n * n; b++)
  {
    SpacePoint p1(VectorDouble{(a % n) * step, (a / n) * step}), p2(VectorDouble{(b % n) * step, (b / n) * step});
    C(a, b) = model->eval(p1, p2);
  }
  Eigen::SelfAdjointEigenSolver<Eigen::MatrixXd> es(C);
  double lmin = es.eigenvalues()(0);
  std::cout << "Triangle structure ACCEPTED in a 2-D model; smallest eigenvalue of its covariance matrix on an 8x8 lattice: " << lmin << std::endl;
  std::cout << "FAIL: a structure valid in 1-D only is offered in 2-D (its covariance matrix is not positive semi-definite)" << std::endl;
  return 1;
}
