// Demonstration for C05: a sample whose selection value is undefined (NA) is masked for Db::isActive but was treated as active by
// Db::getRanksActive, i.e. by the covariance-matrix evaluation.
#include "Db/Db.hpp"
#include "Model/Model.hpp"
#include "Space/ASpaceObject.hpp"
#include <cstdio>
int main()
{
  defineDefaultSpace(ESpaceType::RN, 2);
  //                         x   y   z   sel
  VectorDouble tab = {0., 0., 1., 1.,    1., 0., 2., TEST,    0., 1., 3., 1.};
  Db* db = Db::createFromSamples(3, ELoadBy::SAMPLE, tab, {"x", "y", "z", "sel"}, {"x1", "x2", "z1", "sel"});
  int nactive = 0; for (int i = 0; i < 3; i++) if (db->isActive(i)) nactive++;
  VectorInt ranks = db->getRanksActive(VectorInt(), 0, true);
  Model* model = Model::createFromParam(ECov::SPHERICAL, 2., 1.);
  MatrixRectangular cov = model->evalCovMatrix(db, db);
  printf("active samples according to isActive: %d ; getRanksActive returns %d ranks ; covariance matrix is %d x %d\n",
         nactive, (int) ranks.size(), cov.getNRows(), cov.getNCols());
  bool ok = ((int) ranks.size() == nactive && cov.getNRows() == nactive);
  printf("%s\n", ok ? "PASS" : "FAIL");
  return ok ? 0 : 1;
}
