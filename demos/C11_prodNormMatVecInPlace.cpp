#include "Matrix/MatrixRectangular.hpp"
#include "Matrix/MatrixSquareGeneral.hpp"
#include <cstdio>
#include <cmath>
int main()
{
  MatrixRectangular A(2, 3);
  for (int i = 0; i < 2; i++) for (int j = 0; j < 3; j++) A.setValue(i, j, 1. + 3 * i + j);
  VectorDouble v = {1., 2.};
  MatrixSquareGeneral R(3);
  ((AMatrixDense&) R).prodNormMatVecInPlace((const AMatrixDense&) A, v, true);     // R = t(A) diag(v) A
  int bad = 0;
  for (int i = 0; i < 3; i++) for (int j = 0; j < 3; j++) {
    double want = 0.; for (int k = 0; k < 2; k++) want += A.getValue(k, i) * v[k] * A.getValue(k, j);
    if (std::fabs(R.getValue(i, j) - want) > 1e-9) { if (!bad) printf("prodNormMatVecInPlace: R(%d,%d) = %g, expected %g\n", i, j, R.getValue(i, j), want); bad++; }
  }
  printf("%s\n", bad ? "FAIL" : "PASS"); return bad ? 1 : 0;
}
