// C09: CSV files and the grid exchange formats that can be read (Zycor, IFPEN, BMP): damaged content must be refused cleanly or give a consistent object
#include "Db/Db.hpp"
#include "Db/DbGrid.hpp"
#include "Basic/CSVformat.hpp"
#include "Core/CSV.hpp"
#include "OutputFormat/AOF.hpp"
#include "Basic/Law.hpp"
#include "Basic/VectorHelper.hpp"
#include "Space/ASpaceObject.hpp"
#include <iostream>
#include <fstream>
#include <sstream>
#include <vector>
#include <unistd.h>
#include <fcntl.h>
#include <sys/wait.h>
#include <signal.h>
#include <sys/resource.h>
static std::string slurp(const std::string& f) { std::ifstream is(f, std::ios::binary); std::stringstream ss; ss << is.rdbuf(); return ss.str(); }
static void load(const std::string& kind, const char* f)
{
  Db* o = nullptr;
  if (kind == "csv") o = Db::createFromCSV(f, CSVformat(), false);
  if (kind == "zycor") o = db_grid_read_zycor(f);
  if (kind == "ifpen") o = db_grid_read_ifpen(f);
  if (kind == "bmp") o = db_grid_read_bmp(f);
  if (kind == "f2g") o = db_grid_read_f2g(f);
  if (o != nullptr) { (void) o->toString(); (void) o->getSampleNumber(true); delete o; }
}
int main(int argc, char** argv)
{
  defineDefaultSpace(ESpaceType::RN, 2);
  if (argc == 3) { load(argv[1], argv[2]); std::cout << "loaded without crash\n"; return 0; }
  law_set_random_seed(5);
  DbGrid* grid = DbGrid::create({5, 4}, {1., 2.}, {3., 4.});
  VectorDouble g = VH::simulateGaussian(20); g[3] = TEST; grid->addColumns(g, "v", ELoc::Z);
  int icol = grid->getColIdx("v");
  db_grid_write_zycor("/tmp/demo/rt/ref.zycor", grid, icol);
  int cols[1] = {icol}; db_grid_write_ifpen("/tmp/demo/rt/ref.ifpen", grid, 1, cols);
  db_grid_write_bmp("/tmp/demo/rt/ref.bmp", grid, icol);
  Db* db = Db::createFromSamples(4, ELoadBy::SAMPLE, {1.,2.,3., 4.,5.,6., 7.,8.,TEST, 1.5,2.5,3.5}, {"x","y","z"}, {"x1","x2","z1"});
  db_write_csv(db, "/tmp/demo/rt/ref.csv", CSVformat());
  std::vector<std::string> kinds = {"csv", "zycor", "ifpen", "bmp"};
  std::vector<std::string> subst = {"-1", "0", "1000000000", "2147483647", "NA", "1e300", "x", ",", ";", ""};
  int crashes = 0, trials = 0;
  for (auto& kind : kinds)
  {
    std::string src = slurp("/tmp/demo/rt/ref." + kind);
    if (src.empty()) { std::cout << kind << ": no reference file\n"; continue; }
    int kc = 0;
    std::vector<std::string> muts;
    if (kind != "bmp")
    {
      std::vector<std::pair<size_t,size_t>> toks; size_t i = 0;
      while (i < src.size()) { while (i < src.size() && (isspace((unsigned char) src[i]) || src[i] == ',')) i++; size_t j = i; while (j < src.size() && !isspace((unsigned char) src[j]) && src[j] != ',') j++; if (j > i) toks.push_back({i, j - i}); i = j; }
      for (size_t t = 0; t < toks.size() && t < 80; t++) { for (auto& s : subst) muts.push_back(src.substr(0, toks[t].first) + s + src.substr(toks[t].first + toks[t].second)); muts.push_back(src.substr(0, toks[t].first)); }
    }
    else
    {
      for (size_t b = 0; b < src.size() && b < 70; b++) for (int v : {0, 1, 127, 128, 255}) { std::string m = src; m[b] = (char) v; muts.push_back(m); }
      for (size_t cut = 0; cut < src.size(); cut += 7) muts.push_back(src.substr(0, cut));
    }
    for (auto& m : muts)
    {
      { std::ofstream os("/tmp/demo/rt/fuzz2.dat", std::ios::binary); os << m; }
      trials++;
      pid_t pid = fork();
      if (pid == 0) { struct rlimit rl = {1500000000, 1500000000}; setrlimit(RLIMIT_AS, &rl); alarm(10); int fd = open("/dev/null", 1); dup2(fd, 1); dup2(fd, 2); load(kind, "/tmp/demo/rt/fuzz2.dat"); _exit(0); }
      int st = 0; waitpid(pid, &st, 0);
      if (WIFSIGNALED(st)) { crashes++; kc++; if (kc <= 4) { std::cout << kind << ": damaged file #" << trials << " killed by signal " << WTERMSIG(st) << "\n"; std::ofstream os("/tmp/demo/rt/crash_" + kind + "_" + std::to_string(kc) + ".dat", std::ios::binary); os << m; } }
    }
    std::cout << kind << ": " << muts.size() << " damaged files, " << kc << " crash(es) or hang(s)\n";
  }
  std::cout << trials << " damaged files, " << crashes << " crash(es) or hang(s)\n" << (crashes ? "FAIL" : "PASS") << "\n";
  return crashes ? 1 : 0;
}
