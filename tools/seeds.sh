#!/bin/bash
# Regression of the machinery against the seeded changes: for every /verif/seeded/<id>/patch.diff apply it to /repo, run the quick check of its
# property, undo it.  Expected: exit code 1 and a VIOLATION line for every seed.  Requires a clean /repo (tracked files).
cd /verif
if [ -n "$(git -C /repo status --porcelain --untracked-files=no)" ]; then echo "/repo has uncommitted tracked changes: refusing"; exit 2; fi
bad=0
for d in ${@:-seeded/*/}; do
  d=${d%/}; id=$(basename $d); prop=${id%%_*}
  if ! git -C /repo apply --check /verif/$d/patch.diff 2>/dev/null; then echo "$id: patch does not apply"; bad=1; continue; fi
  git -C /repo apply /verif/$d/patch.diff
  out=$(VERIF_NO_EVIDENCE=1 timeout 3000 ./check $prop quick 2>&1); rc=$?
  git -C /repo checkout -- .
  n=$(echo "$out" | grep -c '^VIOLATION')
  echo "$id: rc=$rc violations=$n $(echo "$out" | grep '^VIOLATION' | head -1 | sed 's/.*obligation=//' | cut -c1-110)"
  [ $rc -eq 1 ] && [ $n -gt 0 ] || bad=1
done
exit $bad
