#!/usr/bin/env python3
"""./check replay <replay.json> — re-run a recorded counterexample against the real function text
(re-extracted from /repo now) compiled natively with ASan/UBSan and the run-time form of the contract."""
import importlib, json, shutil, sys, tempfile
from tools import vf


def main(argv):
    if not argv:
        print(__doc__)
        return 2
    rp = json.load(open(argv[0]))
    prop, uname, tier = rp["property"], rp["unit"], rp.get("tier", "quick")
    mod = importlib.import_module("specs." + prop)
    units = [u for u in mod.units(tier) if u.name == uname]
    if not units:
        print("unit %s not found" % uname)
        return 2
    wd = tempfile.mkdtemp(prefix="vf_replay_")
    try:
        verdict, out = vf.native_replay(units[0], tier, rp.get("witness", {}), wd)
    except vf.Undecided as e:
        verdict, out = "unavailable", str(e)
    finally:
        shutil.rmtree(wd, ignore_errors=True)
    print("obligation:", rp["obligation"], "-", rp.get("description"))
    print("witness:", json.dumps(rp.get("witness", {})))
    print(out)
    print("replay verdict:", verdict)
    return 1 if verdict == "reproduced" else 0
