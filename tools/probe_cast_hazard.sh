#!/bin/bash
# Probe of the CBMC 6.11 C++ front-end hazard that vf.py guards against: '6 * (i) + 3' is compiled as 6 * 3.
# Expected output: first assertion FAILURE (the mis-parse), second SUCCESS (the doubled form vf.py emits).
d=$(mktemp -d); cat > $d/p.cpp <<'EOT'
void vf_harness() { int i = 0; __CPROVER_assert(6 * (i) + 3 == 3, "single parentheses"); __CPROVER_assert(6 * ((i)) + 3 == 3, "doubled parentheses"); }
EOT
goto-cc --function vf_harness $d/p.cpp -o $d/p.gb && cbmc $d/p.gb --no-standard-checks 2>&1 | grep -E "parentheses"; rm -rf $d
