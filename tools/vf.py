#!/usr/bin/env python3
"""
vf — contract-verification driver for gstlearn (/repo) with CBMC.

A *unit* is one verification task: a set of real functions extracted verbatim
from /repo's working tree, a C (or C++) translation unit generated around them
(binding prelude, contracts, harness), the goto-instrument DFCC invocation, and
the CBMC back ends to try.  See DESIGN.md section 2.

Exit-code policy (enforced by `check`):
  0  every obligation discharged (known findings aside)
  1  VIOLATION (an obligation failed that is not a listed known finding)
  2  undecided (extraction drift, tool error, timeout, vacuity guard tripped)
"""
import hashlib
import json
import os
import re
import resource
import shutil
import signal
import subprocess
import sys
import tempfile
import time
from concurrent.futures import ThreadPoolExecutor

REPO = os.environ.get("VF_REPO", "/repo")
VERIF = os.path.dirname(os.path.dirname(os.path.abspath(__file__)))
MEM_LIMIT = int(os.environ.get("VF_MEM_GB", "10")) << 30


import threading
PROC_SEM = threading.BoundedSemaphore(int(os.environ.get("VF_PROCS", "16")))
ACQ_LOCK = threading.Lock()


class Undecided(Exception):
    pass


# --------------------------------------------------------------------------
# Extraction of real function text
# --------------------------------------------------------------------------

def _skip_noncode(s, i):
    """If s[i:] starts a comment/string/char literal return index after it, else i."""
    if s.startswith("//", i):
        j = s.find("\n", i)
        return len(s) if j < 0 else j
    if s.startswith("/*", i):
        j = s.find("*/", i + 2)
        return len(s) if j < 0 else j + 2
    if s[i] == '"' or s[i] == "'":
        q = s[i]
        j = i + 1
        while j < len(s):
            if s[j] == "\\":
                j += 2
                continue
            if s[j] == q:
                return j + 1
            j += 1
        return len(s)
    return i


def match_close(s, i, open_ch="{", close_ch="}"):
    """s[i] == open_ch; return index of the matching close_ch (comment/string aware)."""
    assert s[i] == open_ch, (s[i:i + 20], open_ch)
    depth = 0
    j = i
    while j < len(s):
        k = _skip_noncode(s, j)
        if k != j:
            j = k
            continue
        c = s[j]
        if c == open_ch:
            depth += 1
        elif c == close_ch:
            depth -= 1
            if depth == 0:
                return j
        j += 1
    raise Undecided("unbalanced %s in extracted text" % open_ch)


class Fn:
    """One real function to extract.

    file     path relative to /repo
    sig      regex matching the definition head, up to (not including) the '{'.
             Must match exactly once in the file.
    csig     replacement head for the generated TU (None: keep the real one)
    contract contract clauses text placed between head and body (DFCC syntax)
    rewrites list of (regex, replacement, expected_count|None) applied to body;
             None means 'at least once'.  A rule that does not fire as declared
             aborts the run (exit 2).
    loops    {ordinal(1-based, source order): clauses text} loop contracts
             inserted after the loop head
    name     label
    """

    def __init__(self, name, file, sig, csig=None, contract="", rewrites=(),
                 loops=None, body_only=False, take="function", nloops=None):
        self.name, self.file, self.sig, self.csig = name, file, sig, csig
        self.contract, self.rewrites, self.loops = contract, list(rewrites), dict(loops or {})
        self.take = take
        # number of loops the loop contracts were written for; if the body has a different number (refactoring) the
        # loop contracts are dropped and the unit falls back to bounded unwinding instead of giving up
        self.nloops = nloops

    def extract(self):
        path = os.path.join(REPO, self.file)
        try:
            src = open(path, encoding="utf-8", errors="replace").read()
        except OSError as e:
            raise Undecided("cannot read %s: %s" % (path, e))
        ms = list(re.finditer(self.sig, src, re.M))
        if len(ms) != 1:
            raise Undecided("extraction: signature of %s matched %d times in %s (need 1)"
                            % (self.name, len(ms), self.file))
        m = ms[0]
        i = m.end()
        while i < len(src) and src[i] != "{":
            k = _skip_noncode(src, i)
            if k != i:
                i = k
                continue
            if src[i] == ";":
                raise Undecided("extraction: %s matched a declaration, not a definition" % self.name)
            i += 1
        j = match_close(src, i)
        head = src[m.start():i]
        body = src[i:j + 1]
        l0 = src.count("\n", 0, m.start()) + 1
        l1 = src.count("\n", 0, j) + 1
        return head, body, (l0, l1)

    def emit(self, mutate=None):
        """Return (text, info).  mutate: optional (regex, repl, count) canary on the body."""
        head, body, span = self.extract()
        sha = hashlib.sha256(body.encode()).hexdigest()
        fired = []
        if mutate is not None:
            rx, rp, cnt = mutate
            body, n = re.subn(rx, rp, body, count=cnt or 0)
            if n == 0:
                raise Undecided("canary mutation %r did not apply to %s" % (rx, self.name))
        for rx, rp, cnt in self.rewrites:
            body, n = re.subn(rx, rp, body)
            if cnt == "opt":
                if n:
                    fired.append({"rule": rx, "replacement": rp, "fired": n, "optional": True})
                continue
            if (cnt is None and n == 0) or (cnt is not None and n != cnt):
                raise Undecided("extraction: rewrite %r fired %d times in %s (declared %s)"
                                % (rx, n, self.name, "≥1" if cnt is None else cnt))
            fired.append({"rule": rx, "replacement": rp, "fired": n})
        degraded = False
        if self.loops:
            if self.nloops is not None and len(find_loops(body)) != self.nloops:
                degraded = True
            else:
                body = insert_loop_contracts(body, self.loops, self.name)
        if self.take == "struct":
            h = self.csig if self.csig is not None else head
            text = "/* ---- %s (%s:%d-%d) ---- */\n%s%s;\n" % (self.name, self.file, span[0], span[1], h, body)
            return text, {"name": self.name, "file": self.file, "lines": "%d-%d" % span, "sha256": sha,
                          "signature_replaced": self.csig is not None, "rewrites": fired, "loop_contracts": [],
                          "kind": "type definition"}
        h = self.csig if self.csig is not None else head
        text = "/* ---- %s  (%s:%d-%d) ---- */\n%s\n%s\n%s\n" % (
            self.name, self.file, span[0], span[1], h.rstrip(), self.contract, body)
        info = {"name": self.name, "file": self.file, "lines": "%d-%d" % span, "sha256": sha,
                "signature_replaced": self.csig is not None, "rewrites": fired,
                "loop_contracts": [] if degraded else sorted(self.loops)}
        if degraded:
            info["loop_structure_changed"] = ("body has %d loops, loop contracts were written for %d: contracts dropped, unit falls back to "
                                              "bounded unwinding" % (len(find_loops(body)), self.nloops))
        return text, info


def find_loops(body):
    """Return list of (kind, index_after_head) for loops in source order.
    For for/while: index right after the closing ')' of the head.
    do-while: kind 'do', index right after the 'do' keyword."""
    out = []
    i = 0
    n = len(body)
    pending_do = []  # brace depths where a 'do' is open
    depth = 0
    while i < n:
        k = _skip_noncode(body, i)
        if k != i:
            i = k
            continue
        c = body[i]
        if c == "{":
            depth += 1
        elif c == "}":
            depth -= 1
        if (c.isalpha() or c == "_") and (i == 0 or not (body[i - 1].isalnum() or body[i - 1] == "_")):
            m = re.match(r"[A-Za-z_]\w*", body[i:])
            w = m.group(0)
            if w in ("for", "while"):
                j = i + len(w)
                while j < n and body[j].isspace():
                    j += 1
                if j < n and body[j] == "(":
                    e = match_close(body, j, "(", ")")
                    if w == "while":
                        # tail of a do-while?
                        t = e + 1
                        while t < n and body[t].isspace():
                            t += 1
                        if pending_do and pending_do[-1] == depth and t < n and body[t] == ";":
                            pending_do.pop()
                            i = e + 1
                            continue
                    out.append((w, e + 1))
                    i = j  # continue scanning inside the head? heads contain no loops
                    i = e + 1
                    continue
            elif w == "do":
                out.append(("do", i + 2))
                pending_do.append(depth)
            i += len(w)
            continue
        i += 1
    return out


def insert_loop_contracts(body, loops, fname):
    found = find_loops(body)
    for k in loops:
        if k < 1 or k > len(found):
            raise Undecided("loop contract for loop #%d of %s but the body has %d loops"
                            % (k, fname, len(found)))
    # insert from the back so indices stay valid
    for k in sorted(loops, reverse=True):
        kind, pos = found[k - 1]
        if kind == "do":
            raise Undecided("do-while loop contracts unsupported (%s loop #%d)" % (fname, k))
        body = body[:pos] + "\n" + loops[k] + "\n" + body[pos:]
    return body


# --------------------------------------------------------------------------
# Units
# --------------------------------------------------------------------------

class Unit:
    """
    name      unique label  (e.g. C06.nheap_push)
    fns       [Fn] extracted in this order
    prelude   C text before the functions (types, macros binding members, stubs' contracts)
    harness   C text after the functions; must define `void vf_harness(void)`
    inputs    [(ctype, name) | (ctype, name, len)] witness globals W-style: the harness uses
              them directly; under CBMC they are havocked at harness entry, in native replay
              they are initialised from the counterexample
    enforce   function name whose contract is enforced (None: plain assertion harness)
    replace   [function names replaced by their contracts]
    rec       True -> --enforce-contract-rec
    flags     extra cbmc flags
    backends  subset of ['minisat','cadical','kissat','cvc5','z3']
    canaries  [{'fn':name,'rx':..,'rp':..,'count':1,'expect':regex-on-obligation-name}]
    bounded   None (unbounded proof) or string describing the bound
    unwind    int or None
    timeout   seconds per back end
    native    optional C text defining `int vf_native_check(void)` support: code for native
              replay (see replay())
    mode      'c' | 'cpp'
    tiers     ('quick','thorough') in which the unit runs
    defines   {tier: {macro: value}}
    """

    def __init__(self, name, fns, prelude="", harness="", inputs=(), enforce=None, replace=(),
                 rec=False, flags=(), backends=("minisat",), canaries=(), bounded=None,
                 unwind=None, timeout=600, native=None, mode="c", tiers=("quick", "thorough"),
                 defines=None, trusted=(), assumptions=(), claim="", havoc_loops=False,
                 expect_fail=(), object_bits=None, split=False, pre_inputs="", checks=None, ignore=None, unwinding_assertions=True, native_ubsan=True, fallback_unwind=None, allow_nobody=r"^(nondet_|__CPROVER|floor$|sqrt$|fmax$|fmin$|fabs$)", nondet_static=False, extra_files=(), native_only=False):
        self.__dict__.update(locals())
        del self.__dict__["self"]

    # ---- TU generation -------------------------------------------------
    def gen_tu(self, tier, mutate=None):
        """mutate = (fn_name, rx, rp, count) or None"""
        parts = []
        infos = []
        parts.append("/* generated by vf.py from %s working tree — do not edit */\n" % REPO)
        defs = dict(self.defines or {})
        for k, v in defs.items():
            parts.append("#define %s %s\n" % (k, v))
        parts.append(COMMON_PRELUDE_C if self.mode == "c" else COMMON_PRELUDE_CPP)
        parts.append(self.pre_inputs)
        # witness globals
        for inp in self.inputs:
            if len(inp) == 2:
                parts.append("%s %s;\n" % inp)
            else:
                parts.append("%s %s[%s];\n" % (inp[0], inp[1], inp[2]))
        parts.append("#ifdef VF_NATIVE\nstatic void vf_havoc_inputs(void) {}\n#else\nint vf_inputs_done;\n"
                     "static void vf_havoc_inputs(void) {\n")
        for inp in self.inputs:
            parts.append("  __CPROVER_havoc_object(%s%s);\n" % ("" if len(inp) == 3 else "&", inp[1]))
        parts.append("  vf_inputs_done = 1;\n}\n#endif\n")
        parts.append(self.prelude)
        for f in self.fns:
            mu = None
            if mutate is not None and mutate[0] == f.name:
                mu = mutate[1:]
            t, info = f.emit(mu)
            parts.append(t)
            infos.append(info)
        if mutate is not None and mutate[0] not in [f.name for f in self.fns]:
            raise Undecided("canary names unknown function %s" % mutate[0])
        parts.append(self.harness)
        return "".join(parts), infos


COMMON_PRELUDE_C = r"""
#ifdef VF_NATIVE
  #include <stdio.h>
  #include <stdlib.h>
  #include <math.h>
  #include <string.h>
  #define __CPROVER_requires(...)
  #define __CPROVER_ensures(...)
  #define __CPROVER_assigns(...)
  #define __CPROVER_frees(...)
  #define __CPROVER_loop_invariant(...)
  #define __CPROVER_decreases(...)
  #define __CPROVER_assume(c) do { if (!(c)) { printf("REPLAY-ASSUME-FALSE %s\n", #c); exit(77);} } while (0)
  #define __CPROVER_assert(c, m) do { if (!(c)) { printf("REPLAY-FAIL %s\n", m); vf_fail = 1; } } while (0)
  static int vf_fail = 0;
  #define VF_REACH()
#else
  #define VF_REACH() __CPROVER_assert(0, "VF_REACH")
#endif
#ifndef NULL
#define NULL ((void*)0)
#endif
#define nullptr NULL
#define TRUE 1
#define FALSE 0
"""

COMMON_PRELUDE_CPP = r"""
#define VF_REACH() __CPROVER_assert(0, "VF_REACH")
"""


# --------------------------------------------------------------------------
# Running tools
# --------------------------------------------------------------------------

def _limits():
    resource.setrlimit(resource.RLIMIT_AS, (MEM_LIMIT, MEM_LIMIT))
    os.setsid()


def run(cmd, timeout, cwd=None, stdout_file=None, limit=True):
    t0 = time.time()
    out_f = open(stdout_file, "w") if stdout_file else subprocess.PIPE
    p = subprocess.Popen(cmd, stdout=out_f, stderr=subprocess.STDOUT if not stdout_file else subprocess.PIPE,
                         cwd=cwd, preexec_fn=_limits if limit else os.setsid, text=True)
    try:
        out, err = p.communicate(timeout=timeout)
        rc = p.returncode
    except subprocess.TimeoutExpired:
        try:
            os.killpg(p.pid, signal.SIGKILL)
        except ProcessLookupError:
            pass
        p.wait()
        out, err, rc = "", "", "timeout"
    if stdout_file:
        out_f.close()
        out = err or ""
    return rc, out, time.time() - t0


BACKEND_FLAGS = {
    "minisat": [],
    "cadical": ["--sat-solver", "cadical"],
    "kissat": ["--external-sat-solver", "kissat"],
    "cvc5": ["--cvc5"],
    "z3": ["--z3"],
}

DEFAULT_CHECKS = ["--bounds-check", "--pointer-check", "--div-by-zero-check",
                  "--signed-overflow-check",
                  "--conversion-check", "--undefined-shift-check"]


def parse_cbmc_json(path):
    """Return (results, messages, status) from a cbmc --json-ui output file."""
    try:
        data = json.load(open(path))
    except Exception as e:
        return None, ["unparsable json: %s" % e], None
    results, msgs, status = None, [], None
    for it in data:
        if "result" in it:
            results = it["result"]
        if "messageText" in it:
            msgs.append(it["messageText"])
        if "cProverStatus" in it:
            status = it["cProverStatus"]
    return results, msgs, status


class UnitResult:
    def __init__(self, unit):
        self.unit = unit
        self.status = None          # 'ok' | 'fail' | 'undecided'
        self.reason = ""
        self.obligations = 0
        self.discharged = 0
        self.failed = []            # [{'name','description','location','trace'}]
        self.backend = None
        self.seconds = {}
        self.fn_infos = []
        self.canaries = []
        self.classes = {}
        self.cmds = []
        self.samples = []
        self.log = ""
        self.degraded = []


# CBMC 6.11's C++ front end silently mis-parses '(identifier) + e' / '(identifier) - e' as a CAST of the unary expression '+e' / '-e' to the
# "type" identifier when the parenthesised identifier stands where the grammar expects a cast-expression (after * / % ! unary/binary -):
# '6 * (i) + 3' is compiled as 6 * 3.  Probe: /verif/tools/probe_cast_hazard.sh.  '((i))' is parsed correctly, so every '(identifier)' that is
# followed by + - & * and is not an argument list (not preceded by an identifier, ')' or ']') is rewritten to '((identifier))' — a
# semantics-preserving change also inside macro bodies — and the PREPROCESSED text is scanned afterwards: any remaining occurrence makes the
# unit undecided instead of trusting the parse.
_CAST_TYPES = {"int", "double", "float", "long", "short", "char", "unsigned", "signed", "bool", "void", "size_t", "Id"}
_CAST_HAZ = re.compile(r"(\w+|[\)\]])?(\s*)\(\s*([A-Za-z_]\w*)\s*\)(?=\s*[-+&*])")
_CAST_KEEP = ("return", "else", "case", "throw", "if", "while", "for", "switch")


def cast_hazard_normalise(text):
    n = [0]

    def rep(m):
        prev, sp, ident = m.group(1), m.group(2), m.group(3)
        if ident in _CAST_TYPES:
            return m.group(0)
        if prev is not None and prev not in _CAST_KEEP and prev not in (")", "]"):
            return m.group(0)          # argument list of a call or of a function-like macro: not an operand position
        n[0] += 1
        return "%s%s((%s))" % (prev or "", sp, ident)
    return _CAST_HAZ.sub(rep, text), n[0]


def cast_hazard_scan(src, unit):
    rc, out, dt = run(["g++", "-E", "-P", "-x", "c++", "-nostdinc", "-DVF_CBMC", "-I", os.path.join(VERIF, "stubs"), src], 120)
    if rc != 0:
        raise Undecided("preprocessing %s for the cast-hazard scan failed: %s" % (unit.name, out[-1500:]))
    flat = re.sub(r"\(\s*\(\s*([A-Za-z_]\w*)\s*\)\s*\)", r" \1 ", out)        # '((x))' is parsed correctly
    for m in _CAST_HAZ.finditer(flat):
        prev, ident = m.group(1), m.group(3)
        if ident in _CAST_TYPES:
            continue
        if prev is not None and prev not in _CAST_KEEP and prev not in (")", "]"):
            continue
        ctx = flat[max(0, m.start() - 50):m.end() + 25].replace("\n", " ")
        raise Undecided("C++ front-end cast hazard '(%s) <op>' left after normalisation in %s near: %s" % (ident, unit.name, ctx))


def build_and_check(unit, tier, workdir, mutate=None, want_trace=True, tag="main"):
    """Generate TU, compile, instrument, run back-end portfolio.  Returns dict."""
    d = os.path.join(workdir, re.sub(r"\W", "_", unit.name) + "_" + tag)
    os.makedirs(d, exist_ok=True)
    tu, infos = unit.gen_tu(tier, mutate)
    ext = ".c" if unit.mode == "c" else ".cpp"
    src = os.path.join(d, "tu" + ext)
    ncast = 0
    if unit.mode == "cpp":
        tu, ncast = cast_hazard_normalise(tu)
    open(src, "w").write(tu)
    if unit.mode == "cpp":
        cast_hazard_scan(src, unit)
    for fn, content in unit.extra_files:
        open(os.path.join(d, fn), "w").write(content)
    res = {"infos": infos, "dir": d, "src": src, "cmds": []}
    gb = os.path.join(d, "a.gb")
    cmd = ["goto-cc", "--function", "vf_harness", src, "-o", gb, "-DVF_CBMC", "-I", os.path.join(VERIF, "stubs")]
    if unit.mode == "cpp":
        cmd += ["-nostdinc"]
    rc, out, dt = run(cmd, 300)
    res["cmds"].append(" ".join(cmd))
    if rc != 0:
        raise Undecided("goto-cc failed for %s (%s): %s" % (unit.name, tag, out[-3000:]))
    cur = gb
    if unit.havoc_loops:
        nxt = os.path.join(d, "h.gb")
        cmd = ["goto-instrument", "--havoc-loops", cur, nxt]
        rc, out, dt = run(cmd, 300, limit=False)      # (goto-instrument segfaults under RLIMIT_AS on some programs; it is a short run)
        res["cmds"].append(" ".join(cmd))
        if rc != 0:
            raise Undecided("goto-instrument --havoc-loops failed for %s: %s" % (unit.name, out[-2000:]))
        cur = nxt
    degraded = [i for i in infos if i.get("loop_structure_changed")]
    res["degraded"] = degraded
    has_loops = any(i.get("loop_contracts") for i in infos)
    if unit.enforce or unit.replace or has_loops:
        nxt = os.path.join(d, "b.gb")
        cmd = ["goto-instrument", "--dfcc", "vf_harness"]
        if unit.enforce:
            cmd += ["--enforce-contract-rec" if unit.rec else "--enforce-contract", unit.enforce]
        for g in unit.replace:
            cmd += ["--replace-call-with-contract", g]
        if has_loops:
            cmd += ["--apply-loop-contracts"]
        cmd += [cur, nxt]
        rc, out, dt = run(cmd, 600)
        res["cmds"].append(" ".join(cmd))
        if rc != 0:
            raise Undecided("goto-instrument --dfcc failed for %s (%s): %s" % (unit.name, tag, out[-3000:]))
        cur = nxt
    base = ["cbmc", cur, "--json-ui", "--no-standard-checks"] + (DEFAULT_CHECKS if unit.checks is None else list(unit.checks)) + list(unit.flags)
    unwind = unit.unwind
    if degraded and not unwind:
        if not unit.fallback_unwind:
            raise Undecided("loop structure of %s changed and the unit has no bounded fallback" % degraded[0]["name"])
        unwind = unit.fallback_unwind
    if unwind:
        base += ["--unwind", str(unwind)] + (["--unwinding-assertions"] if unit.unwinding_assertions else [])
    if unit.object_bits:
        base += ["--object-bits", str(unit.object_bits)]
    if unit.nondet_static:
        base += ["--nondet-static"]
    if want_trace:
        base += ["--trace"]
    res["cmds"].append(" ".join(base) + "  [back ends: %s]" % ",".join(unit.backends))
    if unit.split:
        groups = property_groups(cur, base, unit, d)
        res["cmds"].append("split into %d obligation groups, each solved by its own cbmc process (--property ...)" % len(groups))

        def solve(k_g):
            k, g = k_g
            extra = []
            for nm in g:
                extra += ["--property", nm]
            return cbmc_portfolio(base + extra, unit, d, "%s_g%d" % (tag, k), only=set(g))
        with ThreadPoolExecutor(max_workers=len(groups)) as ex:
            outs = list(ex.map(solve, enumerate(groups)))
        results, secs, bes = [], 0.0, set()
        for g, (be, rs, msgs, dt, outp) in zip(groups, outs):
            gs = set(g)
            results += [r for r in rs if r.get("property") in gs]
            secs = max(secs, dt)
            bes.add(be)
        res.update(backend="+".join(sorted(bes)), results=results, seconds=secs, out=outs[0][4], notes=[])
        return res
    be, results, msgs, dt, outp = cbmc_portfolio(base, unit, d, tag)
    res.update(backend=be, results=results, seconds=dt, out=outp, notes=[])
    return res


HEAVY = ("postcondition", "loop_invariant_base", "loop_invariant_step", "loop_decreases", "precondition")


def property_groups(gb, base, unit, d):
    cmd = [c for c in base if c not in ("--trace",)] + ["--show-properties"]
    rc, out, _ = run(cmd, 300)
    try:
        data = json.loads(out)
    except Exception:
        raise Undecided("cannot list properties of %s: %s" % (unit.name, out[-500:]))
    names = []
    for it in data:
        if "properties" in it:
            names = [pp["name"] for pp in it["properties"]]
    if not names:
        raise Undecided("vacuity: no properties listed for %s" % unit.name)
    heavy = [n for n in names if classify(n) in HEAVY and not n.startswith("__CPROVER")]
    if unit.split == "assert":
        heavy += [n for n in names if n.startswith("vf_harness.assertion") and n not in heavy]
    light = [n for n in names if n not in set(heavy)]
    groups = [[n] for n in heavy]
    # light obligations (pointer/overflow/assigns checks) in a few buckets
    nb = max(1, min(4, len(light) // 200 + 1))
    for k in range(nb):
        b = light[k::nb]
        if b:
            groups.append(b)
    return groups


def cbmc_portfolio(base, unit, d, tag, only=None):
    procs = {}
    with ACQ_LOCK:
        for be in unit.backends:
            PROC_SEM.acquire()
    t0 = time.time()
    for be in unit.backends:
        outp = os.path.join(d, "out_%s_%s.json" % (tag, be))
        cmdb = base + BACKEND_FLAGS[be]
        f = open(outp, "w")
        p = subprocess.Popen(cmdb, stdout=f, stderr=subprocess.DEVNULL, preexec_fn=_limits)
        procs[be] = [p, f, outp, cmdb, True]
    winner = None
    notes = []
    deadline = time.time() + unit.timeout
    pending = dict(procs)
    while pending and winner is None:
        for be in list(pending):
            p, f, outp, cmdb, held = pending[be]
            rc = p.poll()
            if rc is None:
                continue
            f.close()
            PROC_SEM.release()
            del pending[be]
            dt = time.time() - t0
            results, msgs, status = parse_cbmc_json(outp)
            nobody = [m for m in (msgs or []) if "no body for function" in m]
            nb = [re.sub(r".*no body for function\s*", "", m).strip().strip("'`") for m in nobody]
            nb = [x for x in nb if not re.search(unit.allow_nobody, x)]
            if nb:
                notes.append("%s: call to a function without body or contract in the generated TU: %s" % (be, ", ".join(sorted(set(nb))[:5])))
                continue
            if only is not None and results is not None:
                results = [r for r in results if r.get("property") in only]
                if len(results) != len(only):
                    notes.append("%s: %d of %d selected obligations reported" % (be, len(results), len(only)))
                    results = None
            if rc in (0, 10):
                if results is not None and any(r.get("status") == "FAILURE" and r.get("description") != "VF_REACH" for r in results):
                    # failures are definitive; obligations cbmc left UNKNOWN next to them are dropped from this report
                    results = [r for r in results if r.get("status") in ("SUCCESS", "FAILURE")]
                if results is not None and not any(r.get("status") not in ("SUCCESS", "FAILURE") for r in results):
                    ign = [m for m in msgs if "ignoring" in m]
                    if ign:
                        notes.append("%s: %s" % (be, ign[0]))
                        continue
                    winner = (be, results, msgs, dt, outp)
                    break
                notes.append("%s: rc=%s but undecided statuses" % (be, rc))
            else:
                notes.append("%s: rc=%s %s" % (be, rc, " | ".join((msgs or [])[-3:])[-600:]))
        if time.time() > deadline:
            break
        if winner is None and pending:
            time.sleep(0.1)
    for be, (p, f, outp, cmdb, held) in pending.items():
        try:
            os.killpg(p.pid, signal.SIGKILL)
        except ProcessLookupError:
            pass
        p.wait()
        f.close()
        PROC_SEM.release()
        if winner is None:
            notes.append("%s: timeout after %ds" % (be, unit.timeout))
    if winner is None:
        raise Undecided("no back end decided %s (%s): %s" % (unit.name, tag, "; ".join(notes)))
    return winner


def classify(name):
    for c in ("postcondition", "precondition", "loop_invariant_base", "loop_invariant_step",
              "loop_decreases", "loop_assigns", "loop_step_unwinding", "assigns", "overflow", "bounds",
              "pointer_dereference", "division-by-zero", "unwind", "assertion", "pointer_arithmetic",
              "pointer_primitives", "conversion", "NaN", "undefined-shift", "no-body", "recursion"):
        if "." + c + "." in name or name.endswith("." + c) or ("." + c) in name:
            return c
    return "other"


def run_native_only(unit, tier, workdir):
    """BOUNDED stand-in outside the verifier's reach (stated per unit): the extracted real text is compiled natively and compared with an independent
    reference on a stated sample of inputs by the unit's driver vf_native().  Never counted as proved."""
    R = UnitResult(unit)
    t0 = time.time()
    try:
        tu, infos = unit.gen_tu(tier)
    except Undecided as e:
        R.status, R.reason = "undecided", str(e)
        return R
    R.fn_infos = infos
    R.backend = "native (gcc, sampled)"
    R.cmds = ["gcc -DVF_NATIVE -O0 -g -fsanitize=address,undefined <generated TU + driver> -lm ; run"]
    verdict, out = native_replay(unit, tier, {}, workdir)
    R.seconds["native"] = round(time.time() - t0, 2)
    R.obligations = 1
    R.classes["sampled"] = 1
    R.samples.append({"obligation": "vf_native.sampled", "description": (unit.bounded or "")[:160], "status": "SUCCESS" if verdict == "not-reproduced" else "FAILURE", "unit": unit.name})
    if verdict == "unavailable":
        R.status, R.reason = "undecided", "native sampled check could not be built: " + out[-800:]
        return R
    if verdict == "reproduced":
        R.status = "fail"
        R.failed.append({"name": "vf_native.sampled", "description": "sampled comparison with the reference: " + " | ".join(l for l in out.splitlines() if "REPLAY-FAIL" in l or "SAMPLE" in l)[:600],
                         "location": {}, "trace": None, "backend": "native"})
        R.tu_path = None
        R.out_path = None
        R.log = out[-3000:]
        return R
    m = re.search(r"SAMPLED-COUNT (\d+)", out)
    if not m or int(m.group(1)) <= 0:
        R.status, R.reason = "undecided", "vacuity: the sampled driver compared no input"
        return R
    R.discharged = 1
    # canaries: a mutated body must be caught by the sample
    for k, cn in enumerate(unit.canaries):
        try:
            v, o = native_replay(unit, tier, {}, workdir, mutate=(cn["fn"], cn["rx"], cn["rp"], cn.get("count", 1)), tag="canary%d" % k)
        except Undecided as e:
            R.status, R.reason = "undecided", "canary run undecided: %s" % e
            return R
        R.canaries.append({"mutation": cn["rx"], "caught": v == "reproduced"})
        if v != "reproduced":
            R.status, R.reason = "undecided", "canary not caught by the sample: mutation %r of %s" % (cn["rx"], cn["fn"])
            return R
    R.status = "ok"
    return R


def run_unit(unit, tier, workdir):
    """Full treatment of one unit: main proof + vacuity guards + canaries."""
    if unit.native_only:
        return run_native_only(unit, tier, workdir)
    R = UnitResult(unit)
    t_start = time.time()
    try:
        res = build_and_check(unit, tier, workdir)
    except Undecided as e:
        R.status, R.reason = "undecided", str(e)
        return R
    R.fn_infos = res["infos"]
    R.backend = res["backend"]
    R.cmds = res["cmds"]
    R.seconds[res["backend"]] = round(res["seconds"], 2)
    results = res["results"]
    reach = [r for r in results if r.get("description") == "VF_REACH"]
    expect_fail = [re.compile(x) for x in unit.expect_fail]
    others = [r for r in results if r.get("description") != "VF_REACH"]
    if unit.ignore:
        others = [r for r in others if not re.search(unit.ignore, r.get("description") or "")]
    R.obligations = len(others)
    fails = []
    for r in others:
        nm = r.get("property", "?")
        cl = classify(nm)
        R.classes[cl] = R.classes.get(cl, 0) + 1
        if r["status"] == "SUCCESS":
            R.discharged += 1
        else:
            fails.append(r)
    # sample obligations
    seen = set()
    for r in others:
        cl = classify(r.get("property", ""))
        if cl not in seen and len(R.samples) < 8:
            seen.add(cl)
            R.samples.append({"obligation": r.get("property"), "description": r.get("description", "")[:160],
                              "status": r["status"], "unit": unit.name})
    # vacuity guards
    if R.obligations == 0:
        R.status, R.reason = "undecided", "vacuity: zero obligations generated"
        return R
    if not reach:
        R.status, R.reason = "undecided", "vacuity: harness has no VF_REACH marker"
        return R
    if any(r["status"] != "FAILURE" for r in reach):
        R.status, R.reason = "undecided", ("vacuity: VF_REACH not reachable (contradictory precondition, "
                                           "invariant or non-terminating path)")
        return R
    if unit.enforce and not R.classes.get("postcondition") and not R.classes.get("assertion"):
        R.status, R.reason = "undecided", "vacuity: no postcondition obligation present"
        return R
    nloops = sum(len(i.get("loop_contracts") or []) for i in res["infos"])
    R.degraded = res.get("degraded") or []
    if nloops:
        if R.classes.get("loop_invariant_step", 0) < 1 or R.classes.get("loop_invariant_base", 0) < 1:
            R.status, R.reason = "undecided", "vacuity: loop contracts silently dropped (no loop_invariant_* obligations)"
            return R
    if fails:
        R.status = "fail"
        for r in fails:
            R.failed.append({"name": r.get("property"), "description": r.get("description"),
                             "location": r.get("sourceLocation", {}), "trace": r.get("trace"),
                             "backend": res["backend"]})
        R.tu_path = res["src"]
        R.out_path = res["out"]
        return R
    # canaries (run concurrently)
    cans = [cn for cn in unit.canaries if not (tier == "quick" and cn.get("thorough_only"))]

    def one(args):
        k, cn = args
        try:
            return cn, build_and_check(unit, tier, workdir, mutate=(cn["fn"], cn["rx"], cn["rp"], cn.get("count", 1)),
                                       want_trace=False, tag="canary%d" % k), None
        except Undecided as e:
            return cn, None, e
    if cans:
        with ThreadPoolExecutor(max_workers=len(cans)) as ex:
            outs = list(ex.map(one, enumerate(cans)))
        for cn, cres, err in outs:
            if err is not None:
                R.status, R.reason = "undecided", "canary run undecided: %s" % err
                return R
            cf = [r.get("property") for r in cres["results"]
                  if r["status"] == "FAILURE" and r.get("description") != "VF_REACH"]
            hit = [n for n in cf if re.search(cn["expect"], n or "")]
            R.canaries.append({"unit": unit.name, "function": cn["fn"], "mutation": "%s -> %s" % (cn["rx"], cn["rp"]),
                               "obligations_that_failed": cf[:6], "expected": cn["expect"], "caught": bool(hit)})
            key = "canary:" + cres["backend"]
            R.seconds[key] = round(R.seconds.get(key, 0) + cres["seconds"], 2)
            if not hit:
                R.status = "undecided"
                R.reason = ("canary not caught: mutation %r of %s leaves obligation /%s/ provable - contract too weak"
                            % (cn["rx"], cn["fn"], cn["expect"]))
                return R
    R.status = "ok"
    R.wall = time.time() - t_start
    return R


# --------------------------------------------------------------------------
# Witness extraction and native replay
# --------------------------------------------------------------------------

def witness_from_trace(unit, trace):
    """First assignment of every witness global in the trace -> {lhs: ctext}."""
    names = {i[1] for i in unit.inputs}
    w = {}
    for st in trace or []:
        if st.get("stepType") != "assignment":
            continue
        lhs = st.get("lhs", "")
        if lhs == "vf_inputs_done" and str(st.get("value", {}).get("data")) == "1":
            break
        base = re.match(r"[A-Za-z_]\w*", lhs)
        if not base or base.group(0) not in names:
            continue
        val = st.get("value", {})
        _collect(lhs, val, w)
    return w


def _collect(lhs, val, w):
    if "elements" in val:          # array
        for el in val["elements"]:
            _collect("%s[%s]" % (lhs, el.get("index")), el.get("value", {}), w)
        return
    if "members" in val:
        for mb in val["members"]:
            _collect("%s.%s" % (lhs, mb.get("name")), mb.get("value", {}), w)
        return
    lhs = re.sub(r"\[(\d+)[a-zA-Z]*\]", r"[\1]", lhs)
    if "$" in lhs:
        return
    t = val.get("name")
    data = val.get("data")
    if t == "float" and val.get("binary"):
        b = val["binary"]
        if len(b) == 64:
            import struct
            x = struct.unpack(">d", int(b, 2).to_bytes(8, "big"))[0]
            if x != x:
                w[lhs] = "NAN"
            elif x in (float("inf"), float("-inf")):
                w[lhs] = "INFINITY" if x > 0 else "-INFINITY"
            else:
                w[lhs] = x.hex()
            return
    if data is not None:
        d = str(data)
        d = re.sub(r"[uUlL]+$", "", d) if re.match(r"^-?\d+[uUlL]*$", d) else d
        w[lhs] = d


def native_replay(unit, tier, witness, workdir, mutate=None, tag="native"):
    """Compile the same extracted text natively and run vf_native(); returns (verdict, output).
    verdict: 'reproduced' | 'not-reproduced' | 'unavailable'"""
    if not unit.native:
        return "unavailable", "unit has no native replay driver"
    tu, _ = unit.gen_tu(tier, mutate)
    d = os.path.join(workdir, re.sub(r"\W", "_", unit.name) + "_" + tag)
    os.makedirs(d, exist_ok=True)
    init = ["static void vf_load_witness(void) {"]
    for lhs, v in sorted(witness.items()):
        init.append("  %s = %s;" % (lhs, v))
    init.append("}")
    src = os.path.join(d, "native.c")
    open(src, "w").write(tu + "\n" + "\n".join(init) + "\n" + unit.native + r"""
int main(void) { vf_load_witness(); vf_native(); if (vf_fail) { printf("REPLAY-RESULT reproduced\n"); return 1; }
  printf("REPLAY-RESULT not-reproduced\n"); return 0; }
""")
    exe = os.path.join(d, "native")
    cc = "gcc" if unit.mode == "c" else "g++"
    san = ["-fsanitize=address,undefined", "-fno-sanitize-recover=undefined"] if unit.native_ubsan else ["-fsanitize=address"]
    rc, out, _ = run([cc, "-DVF_NATIVE", "-O0", "-g"] + san + ["-w", src, "-o", exe, "-lm"], 300)
    if rc != 0:
        return "unavailable", "native build failed: " + out[-1500:]
    rc, out, _ = run([exe], 600 if unit.native_only else 60, limit=False)
    if rc == 1 and "REPLAY-FAIL" in out:
        return "reproduced", out[-3000:]
    if rc not in (0, 77) and ("ERROR: AddressSanitizer:" in out or "runtime error" in out):
        return "reproduced", out[-3000:]
    return "not-reproduced", out[-3000:]


# --------------------------------------------------------------------------
# Known findings
# --------------------------------------------------------------------------

def load_findings():
    path = os.path.join(VERIF, "known_findings.txt")
    out = []
    if not os.path.exists(path):
        return out
    for line in open(path):
        line = line.strip()
        if not line.startswith("finding:"):
            continue
        kv = dict(re.findall(r"(\w+)=(\S+)", line))
        text = line.split("--", 1)[1].strip() if "--" in line else line
        out.append({"property": kv.get("property"), "unit": kv.get("unit"),
                    "obligation": kv.get("obligation", ".*"), "text": text})
    return out


# --------------------------------------------------------------------------
# Property-level driver
# --------------------------------------------------------------------------

def trim_trace(trace, limit=400):
    out = []
    for st in trace or []:
        if st.get("hidden"):
            continue
        if st.get("stepType") in ("assignment", "failure", "function-call", "function-return"):
            e = {"step": st.get("stepType")}
            if "lhs" in st:
                e["lhs"] = st["lhs"]
                v = st.get("value", {})
                e["value"] = v.get("data", v.get("name"))
            if "function" in st:
                e["function"] = st["function"].get("displayName") if isinstance(st["function"], dict) else st["function"]
            if "reason" in st:
                e["reason"] = st["reason"]
            sl = st.get("sourceLocation") or {}
            if sl.get("line"):
                e["line"] = sl.get("line")
            out.append(e)
    return out[-limit:]


def check_property(prop_id, units, tier, meta):
    """meta: dict(level_if_all_proved, explanation, trusted_base, assumptions, not_covered)"""
    t0 = time.time()
    seed = int(os.environ.get("VERIF_SEED", "0") or 0)
    units = [u for u in units if tier in u.tiers]
    if seed:
        import random
        random.Random(seed).shuffle(units)
    workdir = tempfile.mkdtemp(prefix="vf_%s_" % prop_id)
    findings = [f for f in load_findings() if f["property"] == prop_id]
    jobs = int(os.environ.get("VF_JOBS", "8"))
    try:
        with ThreadPoolExecutor(max_workers=jobs) as ex:
            results = list(ex.map(lambda u: run_unit(u, tier, workdir), units))
        violations, undecided, known = [], [], []
        replay_dir = os.path.join(VERIF, "replays", prop_id)
        if not os.environ.get("VF_ONLY"):
            shutil.rmtree(replay_dir, ignore_errors=True)
        for R in results:
            if R.status == "undecided":
                undecided.append(R)
            elif R.status == "fail":
                for f in R.failed:
                    kf = [k for k in findings if (k["unit"] in (None, R.unit.name)) and re.search(k["obligation"], f["name"] or "")]
                    if kf:
                        known.append((R, f, kf[0]))
                        continue
                    os.makedirs(replay_dir, exist_ok=True)
                    wit = witness_from_trace(R.unit, f.get("trace"))
                    verdict, nout = ("unavailable", "")
                    try:
                        verdict, nout = native_replay(R.unit, tier, wit, workdir)
                    except Undecided as e:
                        verdict, nout = "unavailable", str(e)
                    rp = os.path.join(replay_dir, re.sub(r"[^\w.]", "_", "%s__%s" % (R.unit.name, f["name"])) + ".json")
                    fninfo = R.fn_infos
                    json.dump({"property": prop_id, "unit": R.unit.name, "tier": tier, "obligation": f["name"],
                               "description": f["description"], "location_in_generated_tu": f["location"],
                               "functions": fninfo, "backend": f["backend"], "commands": R.cmds,
                               "witness": wit, "native_replay": {"verdict": verdict, "output": nout},
                               "counterexample_trace": trim_trace(f.get("trace")),
                               "claim": R.unit.claim}, open(rp, "w"), indent=1)
                    violations.append((R, f, rp, verdict))
        # report
        for R, f, k in known:
            print("KNOWN-FINDING: property=%s unit=%s obligation=%s %s" % (prop_id, R.unit.name, f["name"], k["text"]))
        for R, f, rp, verdict in violations:
            tail = "" if verdict == "reproduced" else " no-failing-input-found"
            print("VIOLATION property=%s replay=%s obligation=%s unit=%s%s" % (prop_id, rp, f["name"], R.unit.name, tail))
        for R in undecided:
            print("UNDECIDED property=%s unit=%s: %s" % (prop_id, R.unit.name, R.reason), file=sys.stderr)
        write_evidence(prop_id, tier, seed, results, meta, time.time() - t0, len(violations), known)
        ok_units = [R for R in results if R.status == "ok"]
        print("%s %s: %d units, %d obligations, %d discharged, %d violations, %d known findings, %d undecided, %.1fs"
              % (prop_id, tier, len(results), sum(R.obligations for R in results),
                 sum(R.discharged for R in results), len(violations), len(known), len(undecided), time.time() - t0))
        if violations:
            return 1
        if undecided:
            return 2
        return 0
    finally:
        if not os.environ.get("VF_KEEP"):
            shutil.rmtree(workdir, ignore_errors=True)
        else:
            print("scratch kept at", workdir, file=sys.stderr)


def write_evidence(prop_id, tier, seed, results, meta, wall, nviol, known):
    # obligations that fail and are listed in known_findings.txt are reported separately, not counted as proof obligations
    known_keys = {(R.unit.name, f["name"]) for R, f, k in known}
    nknown = len(known_keys)
    obligations = sum(R.obligations for R in results) - nknown
    discharged = sum(R.discharged for R in results)

    def unit_ok(R):
        if R.status == "ok":
            return True
        return R.status == "fail" and all((R.unit.name, f["name"]) in known_keys for f in R.failed)
    all_ok = all(unit_ok(R) for R in results)
    any_bounded = [R.unit for R in results if R.unit.bounded]
    level = meta.get("level", "proof")
    degraded_any = any(getattr(R, "degraded", None) for R in results)
    if level == "proof" and (not all_ok or discharged != obligations or any_bounded or degraded_any):
        level = "other"      # bounded stand-ins are never counted as proved
    per_backend = {}
    for R in results:
        for be, s in R.seconds.items():
            e = per_backend.setdefault(be, {"units": 0, "seconds": 0.0})
            e["units"] += 1
            e["seconds"] = round(e["seconds"] + s, 2)
    fns = []
    for R in results:
        for i in R.fn_infos:
            j = dict(i)
            j["unit"] = R.unit.name
            fns.append(j)
    samples = []
    for R in results:
        samples.extend(R.samples[:3])
    trusted = list(meta.get("trusted_base", []))
    for R in results:
        for t in R.unit.trusted:
            if t not in trusted:
                trusted.append(t)
    assumptions = list(meta.get("assumptions", []))
    for R in results:
        for t in R.unit.assumptions:
            if t not in assumptions:
                assumptions.append(t)
    cmds = []
    for R in results[:1]:
        cmds = R.cmds
    cov = {
        "obligations": obligations,
        "discharged": discharged,
        "checker_cmd": " ; ".join(cmds) if cmds else "goto-cc; goto-instrument --dfcc; cbmc",
        "trusted_base": trusted,
        "explanation": (meta.get("explanation") or "") + (" " if meta.get("explanation") else "") +
        "This run: %d unit(s); %d proved without bound, %d bounded stand-in(s), %d failed, %d undecided; %d/%d obligations discharged."
        % (len(results), len([R for R in results if R.status == "ok" and not R.unit.bounded]),
           len([R for R in results if R.status == "ok" and R.unit.bounded]),
           len([R for R in results if R.status == "fail"]), len([R for R in results if R.status == "undecided"]),
           discharged, obligations),
        "units": [{"unit": R.unit.name, "claim": R.unit.claim, "status": R.status, "reason": R.reason,
                   "kind": ("bounded: " + R.unit.bounded) if R.unit.bounded else (
                       "bounded fallback (loop structure of %s changed): unwind %s" % (R.degraded[0]["name"], R.unit.fallback_unwind)
                       if R.degraded else "proved (unbounded)"),
                   "obligations": R.obligations, "discharged": R.discharged, "backend": R.backend,
                   "seconds": R.seconds, "obligation_classes": R.classes,
                   "enforced_contract": R.unit.enforce, "replaced_by_contract": list(R.unit.replace)}
                  for R in results],
        "functions_under_contract": fns,
        "functions_under_contract_count": len({(f["name"], f["file"]) for f in fns}),
        "proved_units": len([R for R in results if R.status == "ok" and not R.unit.bounded]),
        "bounded_units": [{"unit": u.name, "bound": u.bounded} for u in any_bounded],
        "per_backend": per_backend,
        "canaries": [c for R in results for c in R.canaries],
        "samples": samples or [{"note": "no obligations"}],
        "known_findings_reported": [{"unit": R.unit.name, "obligation": f["name"], "text": k["text"]} for R, f, k in known],
        "not_covered": meta.get("not_covered", []),
        "extraction": "functions re-extracted from %s working tree on this run; see functions_under_contract[].rewrites for every lexical rule that fired" % REPO,
    }
    ev = {"property_id": prop_id, "tier": tier, "seed": seed, "level": level, "coverage": cov,
          "assumptions": assumptions, "wall_s": round(wall, 2), "violations": nviol}
    # partial runs (VF_ONLY) and regression runs against seeded changes must not replace the evidence of the last full run on /repo
    evdir = os.environ.get("VERIF_EVIDENCE_DIR") or (os.path.join("/tmp", "vf_partial_evidence") if (os.environ.get("VF_ONLY") or os.environ.get("VERIF_NO_EVIDENCE"))
                                                     else os.path.join(VERIF, "evidence"))
    os.makedirs(evdir, exist_ok=True)
    json.dump(ev, open(os.path.join(evdir, prop_id + ".json"), "w"), indent=1)
