#!/usr/bin/env python3
"""Compare a ctest junit file against the pinned stable_pass list in /root/.vp/BASELINE.json."""
import json, sys, xml.etree.ElementTree as ET
base = json.load(open("/root/.vp/BASELINE.json"))
stable = set(x.split("::")[0] for x in base["stable_pass"])
t = ET.parse(sys.argv[1]).getroot()
res = {}
for tc in t.iter("testcase"):
    ok = tc.get("status") == "run" and tc.find("failure") is None
    res[tc.get("name")] = ok
bad = sorted(n for n in stable if not res.get(n, False))
print("stable tests: %d, passing now: %d" % (len(stable), len(stable) - len(bad)))
for n in bad:
    print("  NOT PASSING:", n, "(missing)" if n not in res else "")
sys.exit(1 if bad else 0)
