#!/usr/bin/env python3
"""setup_cmd: nothing to build (the framework is Python + the pre-installed CBMC tools); verify they are present."""
import shutil, subprocess, sys
missing = [t for t in ("cbmc", "goto-cc", "goto-instrument", "gcc", "g++") if not shutil.which(t)]
if missing:
    print("missing tools:", missing); sys.exit(1)
print(subprocess.run(["cbmc", "--version"], capture_output=True, text=True).stdout.strip())
print("vf selftest ok")
