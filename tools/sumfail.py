#!/usr/bin/env python3
"""concise summary of /verif/replays/<prop>: per unit, distinct (description,line) with counts"""
import json, glob, sys, collections
prop = sys.argv[1]
lim = int(sys.argv[2]) if len(sys.argv) > 2 else 25
c = collections.OrderedDict()
for f in sorted(glob.glob('/verif/replays/%s/*' % prop)):
    e = json.load(open(f))
    k = (e['unit'], e['description'][:110], e['location_in_generated_tu'].get('line'))
    c.setdefault(k, []).append((e['obligation'], e['native_replay']['verdict']))
for i, (k, v) in enumerate(c.items()):
    if i >= lim: print("... %d more" % (len(c) - lim)); break
    print("%s | %s | line %s | x%d e.g. %s [%s]" % (k[0], k[1], k[2], len(v), v[0][0], v[0][1]))
