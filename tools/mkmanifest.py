#!/usr/bin/env python3
"""Regenerates /verif/MANIFEST.json from the table below (kept in one place so it is always valid)."""
def _category(pid, declared):
    """the claimed category is 'proof' only if every unit of the property is unbounded: bounded stand-ins are never counted as proved"""
    import importlib
    try:
        mod = importlib.import_module("specs." + pid)
        units = mod.units("quick")
        if declared == "proof" and any(u.bounded or getattr(u, "native_only", False) for u in units):
            print("note: %s has bounded units: category 'other'" % pid)
            return "other"
    except Exception as e:
        print("warning: cannot inspect units of %s: %s" % (pid, e))
    return declared


import json, os, sys
HERE = os.path.dirname(os.path.dirname(os.path.abspath(__file__)))
sys.path.insert(0, HERE)
import importlib

NA = {
    "C14": "statement about the probability law of outputs over all seeds (moments within sampling error): contracts speak about one call, CBMC has no distribution semantics and the kernels are transcendental floating-point code (DESIGN 5)",
    "C15": "every clause is a numerical-linear-algebra identity inside Eigen/csparse/Chebyshev floating-point code (matrix-free vs assembled Q, SPD-ness, barycentric weights, CG residuals); no bookkeeping kernel a contract could carry (DESIGN 5)",
    "C17": "outcome of iterative numerical optimisation (Goulard with eigenvalue truncation, bounded Gauss-Newton): PSD-ness of fitted sills and constraint satisfaction are properties of floating-point fixed points (DESIGN 5)",
    "C18": "identities 'to the accuracy of the method' of Hermite expansions, bisection inverses, PCA/MAF eigen-factorisations in floating point; the one structural piece (rotation direct/inverse pairing) is handled under C16 (DESIGN 5)",
}
PENDING = "check not built yet in this session (see DESIGN 3 for the planned contracts); not claimed until it exists"

def main():
    checks, na = [], []
    props = [json.loads(l) for l in open(os.path.join(HERE, "properties.jsonl"))]
    for p in props:
        pid = p["id"]
        spec = os.path.join(HERE, "specs", pid + ".py")
        if pid in NA:
            na.append({"property_id": pid, "reason": NA[pid]}); continue
        if not os.path.exists(spec):
            na.append({"property_id": pid, "reason": PENDING}); continue
        mod = importlib.import_module("specs." + pid)
        M = mod.MANIFEST
        checks.append({
            "property_id": pid,
            "quick_cmd": "./check %s quick" % pid,
            "thorough_cmd": "./check %s thorough" % pid,
            "evidence_file": "/verif/evidence/%s.json" % pid,
            "replay_cmd_template": "./check replay {path}",
            "engine": "vf-cbmc-contracts",
            "level_claimed": {"category": _category(pid, M["category"]), "text": M["text"], "design_ref": M.get("design_ref", "DESIGN.md 3")},
            "level_note": M["note"],
            "technique": M.get("technique", "CBMC code contracts (goto-instrument --dfcc enforce/replace + loop contracts) on function bodies re-extracted from /repo each run"),
        })
    man = {
        "version": 1,
        "setup_cmd": "python3 tools/selftest.py",
        "hooks": {"guard": "GSTLEARN_VERIF", "enable": "none needed: contracts live in /verif and are attached to function text extracted from /repo's working tree on every run; no source hook is compiled into gstlearn",
                  "baseline_off_cmd": "cmake --build /repo/_build -j16 && ctest --test-dir /repo/_build -j8 --timeout 900",
                  "source_commits": [], "add_only": True},
        "engines": [{"name": "vf-cbmc-contracts", "path": "/verif/tools/vf.py",
                     "serves_properties": [c["property_id"] for c in checks],
                     "kind_free_text": "contract-based deductive verification: real function bodies extracted from /repo, DFCC function and loop contracts, CBMC SAT/SMT back-end portfolio, vacuity guards, canary mutants, native replay of counterexamples"}],
        "checks": checks,
        "notes": "Exit codes of every check: 0 all obligations discharged; 1 VIOLATION (failed obligation not listed in known_findings.txt); 2 undecided (extraction drift, tool error, timeout, vacuity guard). See DESIGN.md.",
        "not_applicable": na,
    }
    json.dump(man, open(os.path.join(HERE, "MANIFEST.json"), "w"), indent=1)
    print("MANIFEST.json: %d checks, %d not_applicable" % (len(checks), len(na)))

main()
