// Route X environment for KrigingCalcul (_need*/_delete* cache graph).  Matrices/vectors are ghosts: only presence matters.
#define nullptr 0
#define GSTLEARN_EXPORT
#define messerr(...) ((void)0)
#define message(...) ((void)0)
#define private public
int nondet_int();
bool nondet_bool();
double nondet_double();
double sqrt(double);
struct String { String() {} String(const char*) {} const char* c_str() const { return ""; } };
struct VectorInt {
  int n; VectorInt() : n(0) {}
  bool empty() const { return n <= 0; } int size() const { return n; } void clear() { n = 0; }
  int operator[](int) const { return nondet_int(); }
};
struct VectorDouble {
  int n; VectorDouble() : n(0) {} VectorDouble(int k) : n(k) {} VectorDouble(int k, double) : n(k) {}
  bool empty() const { return n <= 0; } int size() const { return n; } void clear() { n = 0; }
  void resize(int k) { n = k; } void resize(int k, double) { n = k; } void push_back(double) { n = n + 1; }
  double operator[](int) const { return nondet_double(); }
  double& operator[](int) { static double cell; return cell; }
};
struct AMatrix {
  int nr, nc;
  AMatrix() : nr(0), nc(0) {}
  int getNRows() const { return nr; } int getNCols() const { return nc; }
  bool empty() const { return nr <= 0 || nc <= 0; }
  double getValue(int, int, bool = true) const { return nondet_double(); }
  void setValue(int, int, double, bool = true) {}
  int invert() { return nondet_bool() ? 1 : 0; }                 // may fail (singular matrix)
  void prodMatMatInPlace(const AMatrix*, const AMatrix*, bool = false, bool = false) {}
  void prodNormMatMatInPlace(const AMatrix*, const AMatrix*, bool = false) {}
  void prodNormMatVecInPlace(const AMatrix*, const VectorDouble&, bool = false) {}
  void linearCombination(double, const AMatrix*, double = 1., const AMatrix* = 0, double = 1., const AMatrix* = 0) {}
  VectorDouble prodMatVec(const VectorDouble&, bool = false) const { VectorDouble v; v.n = nondet_int(); __CPROVER_assume(v.n > 0); return v; }
  VectorDouble prodVecMat(const VectorDouble&, bool = false) const { VectorDouble v; v.n = nondet_int(); __CPROVER_assume(v.n > 0); return v; }
  void display() const {}
  void addMatInPlace(const AMatrix&, double = 1., double = 1.) {}
  VectorDouble getColumn(int) const { VectorDouble v; v.n = nr; return v; }
  VectorDouble getRow(int) const { VectorDouble v; v.n = nc; return v; }
  void setColumn(int, const VectorDouble&) {}
  void setRow(int, const VectorDouble&) {}
  void fill(double) {}
  void unsample(const AMatrix*, const VectorInt&, const VectorInt&, bool = false, bool = false) {}
};
struct MatrixRectangular : public AMatrix {
  MatrixRectangular(int r = 0, int c = 0) { nr = r; nc = c; }
  MatrixRectangular* clone() const { return new MatrixRectangular(nr, nc); }
  static MatrixRectangular* sample(const AMatrix*, const VectorInt&, const VectorInt&, bool = false, bool = false) { return new MatrixRectangular(1, 1); }
};
struct MatrixSquareSymmetric : public AMatrix {
  MatrixSquareSymmetric(int n = 0) { nr = n; nc = n; }
  MatrixSquareSymmetric* clone() const { return new MatrixSquareSymmetric(nr); }
  static MatrixSquareSymmetric* sample(const MatrixSquareSymmetric*, const VectorInt&, bool = false) { return new MatrixSquareSymmetric(1); }
  void prodNormMatMatInPlace(const AMatrix*, const AMatrix* = 0, bool = false) {}
};
struct MatrixFactory { static AMatrix* prodMatMat(const AMatrix*, const AMatrix*, bool = false, bool = false) { return new AMatrix(); } };
struct VH {
  static void linearCombinationInPlace(double, const VectorDouble&, double, const VectorDouble&, VectorDouble&) {}
  static VectorDouble sample(const VectorDouble&, const VectorInt&, bool = false) { VectorDouble v; v.n = nondet_int(); return v; }
  static VectorInt sequence(int n, int = 0, int = 1) { VectorInt v; v.n = n; return v; }
  static VectorInt complement(const VectorInt&, const VectorInt&) { VectorInt v; v.n = nondet_int(); return v; }
  static bool isInList(const VectorInt&, int) { return nondet_bool(); }
  static void display(const String&, const VectorDouble&, bool = true) {}
  static VectorDouble add(const VectorDouble&, const VectorDouble&) { VectorDouble v; return v; }
};
