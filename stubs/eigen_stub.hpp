// Route X environment for the Eigen-backed kernels of AMatrixDense: "dimension typing".  Every Eigen object is a ghost
// carrying (rows, cols); the stub operators carry Eigen's documented preconditions as assertions.  Values are not modelled.
#define nullptr 0
#define messerr(...) ((void)0)
int nondet_int();
bool nondet_bool();
typedef unsigned long size_t;
struct DPtr { int avail; };                                   // pointer into a buffer with 'avail' readable/writable doubles
struct VectorDouble {
  int n;
  VectorDouble() : n(0) {} VectorDouble(int k) : n(k) {}
  bool empty() const { return n <= 0; } int size() const { return n; }
  DPtr data() const { DPtr p; p.avail = n; return p; }
  void resize(int k) { n = k; }
  double& operator[](int i) { __CPROVER_assert(0 <= i && i < n, "VectorDouble index inside the vector"); static double c; return c; }
};
struct VH { static VectorDouble inverse(const VectorDouble& v) { return VectorDouble(v.n); } };
extern int g_eigen_violation;      // ghost: set when a documented Eigen precondition is violated (checked per method by the harness)
#define EIGEN_REQUIRE(c, msg) do { if (!(c)) g_eigen_violation = 1; } while (0)
namespace Eigen {
  struct Expr {
    int r, c; bool diag;
    Expr() : r(0), c(0), diag(false) {}
    Expr(int rr, int cc) : r(rr), c(cc), diag(false) {}
    Expr transpose() const { return Expr(c, r); }
    Expr inverse() const { EIGEN_REQUIRE(r == c, "Eigen inverse(): square matrix"); return *this; }
    Expr asDiagonal() const { EIGEN_REQUIRE(c == 1 || r == 1, "asDiagonal(): applied to a vector"); int n = (c == 1) ? r : c; Expr e(n, n); e.diag = true; return e; }
    Expr operator*(const Expr& o) const { EIGEN_REQUIRE(c == o.r, "Eigen product: inner dimensions agree"); return Expr(r, o.c); }
    Expr operator+(const Expr& o) const { EIGEN_REQUIRE(r == o.r && c == o.c, "Eigen sum: same shape"); return Expr(r, c); }
    double operator[](int i) const { EIGEN_REQUIRE(0 <= i && i < (c == 1 ? r : c), "Eigen vector coefficient inside the vector"); return 0.; }
    DPtr data() const { DPtr p; p.avail = r * c; return p; }
  };
  inline Expr operator*(double, const Expr& e) { return e; }
  // a view with fixed shape (a Map, a column, a row, the diagonal): assignment must match the shape
  struct Fixed : Expr {
    Fixed(int rr, int cc) : Expr(rr, cc) {}
    Fixed& noalias() { return *this; }
    void operator=(const Expr& e)
    { bool vec = (r == 1 || c == 1) && (e.r == 1 || e.c == 1);
      EIGEN_REQUIRE(vec ? (r * c == e.r * e.c) : (r == e.r && c == e.c), "assignment to a fixed-shape Eigen view: same shape"); }
    void operator+=(const Expr& e) { *this = e; }
  };
  struct VectorXd {};
  template <typename T> struct Map : Expr {                   // a Map is a fixed-shape view as well (derives from Expr only: CBMC's overload
    Map(const DPtr& p, int n) : Expr(n, 1)                    // resolution cannot rank two base-class conversions)
    { EIGEN_REQUIRE(0 <= n && n <= p.avail, "Eigen::Map(ptr, n): n does not exceed the buffer behind ptr"); }
    void operator=(const Expr& e)
    { bool vec = (e.r == 1 || e.c == 1);
      EIGEN_REQUIRE(vec && r * c == e.r * e.c, "assignment to an Eigen::Map vector: same length"); }
    void operator+=(const Expr& e) { *this = e; }
    Map& noalias() { return *this; }
  };
  struct MatrixXd : Expr {                                    // dynamic matrix: assignment resizes it
    MatrixXd() {}
    MatrixXd& noalias() { return *this; }
    void operator=(const Expr& e) { r = e.r; c = e.c; }
    Fixed col(int i) const { EIGEN_REQUIRE(0 <= i && i < c, "col(i): valid column"); return Fixed(r, 1); }
    Fixed row(int i) const { EIGEN_REQUIRE(0 <= i && i < r, "row(i): valid row"); return Fixed(1, c); }
    Fixed diagonal() const { return Fixed(r < c ? r : c, 1); }
    void setZero() {}
    int rows() const { return r; } int cols() const { return c; }
  };
  inline Expr operator*(double, const MatrixXd& e) { return Expr(e.r, e.c); }
}
class AMatrix {
public:
  int _nRows, _nCols; bool _flagCheckAddress;
  int getNRows() const { return _nRows; } int getNCols() const { return _nCols; }
  bool _isRowValid(int irow) const { return 0 <= irow && irow < _nRows; }
  bool _isColumnValid(int icol) const { return 0 <= icol && icol < _nCols; }
  bool _isColumnSizeConsistent(const VectorDouble& tab) const { return tab.size() == _nRows; }
  bool _isRowSizeConsistent(const VectorDouble& tab) const { return tab.size() == _nCols; }
  void prodMatMatInPlace(const AMatrix*, const AMatrix*, bool, bool);
};
class AMatrixDense : public AMatrix {
public:
  Eigen::MatrixXd _eigenMatrix;
  void _addProdMatVecInPlaceToDestPtr(const DPtr& x, const DPtr& y, bool transpose) const;
  void _prodMatVecInPlacePtr(const DPtr& x, const DPtr& y, bool transpose) const;
  void _prodVecMatInPlacePtr(const DPtr& x, const DPtr& y, bool transpose) const;
  int _invert();
  int _solve(const VectorDouble& b, VectorDouble& x) const;
  void setColumn(int icol, const VectorDouble& tab, bool flagCheck);
  void setRow(int irow, const VectorDouble& tab, bool flagCheck);
  void setDiagonal(const VectorDouble& tab, bool flagCheck);
  void addMatInPlace(const AMatrixDense& y, double cx, double cy);
  void prodMatMatInPlace(const AMatrix* x, const AMatrix* y, bool transposeX, bool transposeY);
  void prodNormMatMatInPlace(const AMatrixDense* a, const AMatrixDense* m, bool transpose);
  void prodNormMatVecInPlace(const AMatrixDense& a, const VectorDouble& vec, bool transpose);
  void multiplyRow(const VectorDouble& vec);
  void multiplyColumn(const VectorDouble& vec);
  void divideRow(const VectorDouble& vec);
  void divideColumn(const VectorDouble& vec);
  VectorDouble prodVecMat(const VectorDouble& x, bool transpose) const;
  VectorDouble prodMatVec(const VectorDouble& x, bool transpose) const;
  VectorDouble getRow(int irow) const;
  VectorDouble getColumn(int icol) const;
};
inline const AMatrixDense* VF_as_dense(const AMatrix* m) { return (const AMatrixDense*) m; }   // all operands are dense in this unit
inline void AMatrix::prodMatMatInPlace(const AMatrix*, const AMatrix*, bool, bool) {}
// ---- sparse storage (MatrixSparse, Eigen::SparseMatrix<double>): same dimension typing ---------------------------------------
namespace Eigen {
  template <typename T> struct SparseMatrix : Expr {         // dynamic sparse matrix: assignment resizes it
    SparseMatrix() {}
    void operator=(const Expr& e) { r = e.r; c = e.c; }
    int rows() const { return r; } int cols() const { return c; }
  };
}
struct cs { int m, n; };                                      // csparse branch: declared only (isFlagEigen() is true in this unit)
cs* cs_transpose(cs*, int); cs* cs_multiply(cs*, cs*); cs* cs_spfree2(cs*); cs* cs_add(cs*, cs*, double, double);
cs* cs_prod_norm(int, cs*, cs*); cs* cs_prod_norm_single(int, cs*); cs* cs_prod_norm_diagonal(int, cs*, const VectorDouble&);
void cs_vector_xtM(cs*, int, const DPtr&, const DPtr&); void cs_vector_xM(cs*, int, const DPtr&, const DPtr&);
void cs_vector_tMx(cs*, int, const DPtr&, const DPtr&); void cs_vector_Mx(cs*, int, const DPtr&, const DPtr&);
void cs_vector_addToDest_tMx(cs*, int, const DPtr&, const DPtr&); void cs_vector_addToDest_Mx(cs*, int, const DPtr&, const DPtr&);
class MatrixSparse : public AMatrix {
public:
  Eigen::SparseMatrix<double> _eigenMatrix; cs* _csMatrix;
  bool isFlagEigen() const { return true; }                   // Eigen storage (the library default)
  bool _getFlagCheckAddress() const { return _flagCheckAddress; }
  bool _checkLink(int nrow1, int ncol1, bool transpose1, int nrow2 = 0, int ncol2 = 0, bool transpose2 = false, int nrow3 = 0, int ncol3 = 0, bool transpose3 = false) const;
  void _addProdMatVecInPlaceToDestPtr(const DPtr& x, const DPtr& y, bool transpose) const;
  void _prodMatVecInPlacePtr(const DPtr& x, const DPtr& y, bool transpose) const;
  void _prodVecMatInPlacePtr(const DPtr& x, const DPtr& y, bool transpose) const;
  void addMatInPlace(const MatrixSparse& y, double cx, double cy);
  void prodMatMatInPlace(const AMatrix* x, const AMatrix* y, bool transposeX, bool transposeY);
  void prodNormMatMatInPlace(const MatrixSparse* a, const MatrixSparse* m, bool transpose);
  void prodNormMatVecInPlace(const MatrixSparse* a, const VectorDouble& vec, bool transpose);
  VectorDouble prodVecMat(const VectorDouble& x, bool transpose) const;
  VectorDouble prodMatVec(const VectorDouble& x, bool transpose) const;
};
inline const MatrixSparse* VF_as_sparse(const AMatrix* m) { return (const MatrixSparse*) m; }   // all operands are sparse in the sparse unit
