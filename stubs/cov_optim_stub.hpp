// minimal environment for ACovAnisoList::evalCovMatrixOptim / evalCovMatrixSymmetricOptim (Route X)
#define nullptr 0
#define messerr(...) ((void)0)
int nondet_int();
bool nondet_bool();
struct VectorInt {
  int n;
  VectorInt() : n(0) {}
  bool empty() const { return n <= 0; }
  int size() const { return n; }
  int operator[](int i) const { return nondet_int(); }
};
struct VectorVectorInt {
  int n;
  VectorVectorInt() : n(0) {}
  int size() const { return n; }
  VectorInt operator[](int i) const { VectorInt v; v.n = nondet_int(); __CPROVER_assume(v.n >= 0); return v; }
};
struct VH { static int count(const VectorVectorInt& v) { return nondet_int(); } };
// calculation mode: either all basic structures are active, or the listed ones (at most 2 structures are modelled: ranks 0 and 1)
struct ActiveList { int n; int size() const { return n; } };
struct CovCalcMode { bool all; int act[2]; int nact;
  bool isAllActiveCov() const { return all; }
  ActiveList getActiveCovList() const { ActiveList l; l.n = nact; return l; }
  /* loop counters start at 0 and increase: under --havoc-loops only 'i < n' is known, so 0 <= i is assumed here */
  int getActiveCovList(int i) const { __CPROVER_assume(0 <= i); __CPROVER_assert(i < nact, "rank inside the list of active structures"); return act[i]; } };
static bool VF_structure_active(int id, const CovCalcMode* mode) { if (mode == nullptr || mode->all) return true; return (mode->nact >= 1 && mode->act[0] == id) || (mode->nact >= 2 && mode->act[1] == id); }
struct SpacePoint { int iech; void setIech(int i) { iech = i; } };
struct MatrixRectangular { int nr, nc; MatrixRectangular() : nr(0), nc(0) {} void resize(int r, int c) { nr = r; nc = c; } };
struct MatrixSquareSymmetric { int nr, nc; MatrixSquareSymmetric() : nr(0), nc(0) {} void resize(int r, int c) { nr = r; nc = c; } };
struct Db {
  VectorVectorInt getMultipleRanksActive(const VectorInt& ivars, const VectorInt& nbgh, bool useSel = true, bool useVerr = false) const
  { VectorVectorInt v; v.n = ivars.n; return v; }
  void getSampleAsSPInPlace(SpacePoint& p) const {}
};
// ghost typestate of the optimisation cache
extern int g_cache_live;
struct CovAniso { int id;
  void evalOptimInPlace(MatrixRectangular& mat, const VectorInt& ivars, const VectorVectorInt& index1, int ivar2, int icol, const CovCalcMode* mode, bool flagSym) const
  { __CPROVER_assert(g_cache_live, "evalOptimInPlace only between pre- and post-process");
    __CPROVER_assert(VF_structure_active(id, mode), "only the basic structures that are ACTIVE in the calculation mode are evaluated (as the plain pairwise evaluation does)"); }
  void evalOptimInPlace(MatrixSquareSymmetric& mat, const VectorInt& ivars, const VectorVectorInt& index1, int ivar2, int icol, const CovCalcMode* mode, bool flagSym) const
  { __CPROVER_assert(g_cache_live, "evalOptimInPlace only between pre- and post-process");
    __CPROVER_assert(VF_structure_active(id, mode), "only the basic structures that are ACTIVE in the calculation mode are evaluated (as the plain pairwise evaluation does)"); }
};
struct CovPtrs { CovAniso c[2]; CovPtrs() { c[0].id = 0; c[1].id = 1; } CovAniso* operator[](int i) const { return (CovAniso*)(c + (i & 1)); } };
class ACovAnisoList {
public:
  MatrixRectangular evalCovMatrixOptim(const Db *db1, const Db *db2, int ivar0, int jvar0, const VectorInt& nbgh1, const VectorInt& nbgh2, const CovCalcMode *mode) const;
  MatrixSquareSymmetric evalCovMatrixSymmetricOptim(const Db *db1, int ivar0, const VectorInt &nbgh1, const CovCalcMode *mode) const;
  VectorInt _getActiveVariables(int ivar0) const { VectorInt v; v.n = nondet_int(); return v; }
  static bool _considerAllCovariances(const CovCalcMode* mode) { if (mode == nullptr) return true; if (mode->isAllActiveCov()) return true; return false; }   /* ACovAnisoList.cpp:130 */
  void optimizationPreProcess(const Db* db) const { g_cache_live = 1; }
  void optimizationPostProcess() const { g_cache_live = 0; }
  void optimizationSetTarget(const SpacePoint& p) const {}
  void optimizationSetTargetByIndex(int iech) const { __CPROVER_assert(g_cache_live, "target by index needs the cache"); }
  void _updateCovMatrixSymmetricVerr(const Db* db1, MatrixSquareSymmetric* mat, const VectorInt& ivars, const VectorVectorInt& index1) const {}
  int getCovaNumber() const { int n = nondet_int(); __CPROVER_assume(n >= 0); return n; }
  CovPtrs _covs;
};
