#ifndef messerr
#define messerr(...) ((void)0)
#endif
// Route X environment for the _serialize/_deserialize pair of NeighMoving (+ ANeigh): the neutral file is a GHOST TAPE of typed records.
#define nullptr 0
#define MAX(a,b) (((a) > (b)) ? (a) : (b))
int nondet_int(); bool nondet_bool(); double nondet_double();
#define TAPE_MAX 24
struct Tape { double v[TAPE_MAX]; int is_int[TAPE_MAX]; int n; int rd; };
extern Tape g_tape; extern int g_type_mismatch;
struct String { String() {} String(const char*) {} };
namespace std { struct ostream {}; struct istream {}; }
static bool FFFF(double v) { return v > 1.0e30 || v != v; }
struct VectorDouble {
  double a[4]; int n;
  VectorDouble() : n(0) {} VectorDouble(int k) : n(k) {}
  VectorDouble(const VectorDouble& o) : n(o.n) { a[0] = o.a[0]; a[1] = o.a[1]; a[2] = o.a[2]; a[3] = o.a[3]; }
  VectorDouble& operator=(const VectorDouble& o) { n = o.n; a[0] = o.a[0]; a[1] = o.a[1]; a[2] = o.a[2]; a[3] = o.a[3]; return *this; }
  bool empty() const { return n <= 0; } int size() const { return n; }
  void resize(int k) { __CPROVER_assert(0 <= k && k <= 4, "modelled vector capacity"); n = k; }
  double& operator[](int i) { __CPROVER_assert(0 <= i && i < n, "vector index inside the vector"); return a[i]; }
  double operator[](int i) const { __CPROVER_assert(0 <= i && i < n, "vector index inside the vector"); return a[i]; }
};
// contract of BiTargetCheckDistance as used here (constructor and accessors: BiTargetCheckDistance.cpp/.hpp)
struct BiTargetCheckDistance {
  int _ndim; bool _flagAniso, _flagRotation; double _radius; VectorDouble _anisoCoeffs; VectorDouble _anisoRotMat;
  static BiTargetCheckDistance* create(double radius, const VectorDouble& coeffs)
  { BiTargetCheckDistance* b = new BiTargetCheckDistance(); b->_radius = radius; b->_flagRotation = false;
    if (!coeffs.empty()) { b->_ndim = coeffs.n; b->_flagAniso = true; b->_anisoCoeffs = coeffs; }
    else { b->_ndim = 2; b->_flagAniso = false; b->_anisoCoeffs.n = 2; b->_anisoCoeffs.a[0] = 1.; b->_anisoCoeffs.a[1] = 1.; }
    b->_anisoRotMat.n = b->_ndim * b->_ndim;                       /* identity */
    for (int i = 0; i < 4; i++) b->_anisoRotMat.a[i] = (i == 0 || i == b->_ndim + 1) ? 1. : 0.;
    return b; }
  double getRadius() const { return _radius; } int getFlagAniso() const { return _flagAniso; } int getFlagRotation() const { return _flagRotation; }
  int getNDim() const { return _ndim; }
  double getAnisoCoeff(int i) const { return _anisoCoeffs[i]; } double getAnisoRotMat(int i) const { return _anisoRotMat[i]; }
  void setAnisoRotMat(const VectorDouble& m) { _anisoRotMat = m; }
  void setFlagRotation(int f) { _flagRotation = f; }
};
// readers as plain functions (CBMC's front end cannot instantiate the member templates by explicit <T>)
static bool VF_read_int(int& val) { if (g_tape.rd >= g_tape.n) return false; if (!g_tape.is_int[g_tape.rd]) g_type_mismatch = 1; val = (int) g_tape.v[g_tape.rd]; g_tape.rd = g_tape.rd + 1; return true; }
static bool VF_read_double(double& val) { if (g_tape.rd >= g_tape.n) return false; if (g_tape.is_int[g_tape.rd]) g_type_mismatch = 1; val = g_tape.v[g_tape.rd]; g_tape.rd = g_tape.rd + 1; return true; }
static bool VF_write(double val, int is_int) { __CPROVER_assert(g_tape.n < TAPE_MAX, "ghost tape capacity"); g_tape.v[g_tape.n] = val; g_tape.is_int[g_tape.n] = is_int; g_tape.n = g_tape.n + 1; return true; }
static bool VF_write_int(int val) { return VF_write((double) val, 1); }
static bool VF_write_double(double val) { return VF_write(val, 0); }
static bool _commentWrite(std::ostream&, const String&) { return true; }
class ANeigh {
public:
  int _ndimA;
  int getNDim() const { return _ndimA; } void setNDim(int n) { _ndimA = n; }
  bool _deserialize(std::istream& is, bool verbose);
  bool _serialize(std::ostream& os, bool verbose) const;
};
class NeighMoving : public ANeigh {
public:
  int _nMini, _nMaxi, _nSect, _nSMax; BiTargetCheckDistance* _biPtDist;
  int getNMini() const { return _nMini; } int getNMaxi() const { return _nMaxi; } int getNSect() const { return _nSect; } int getNSMax() const { return _nSMax; }
  void setNSect(int n) { _nSect = n; }
  bool getFlagSector() const;
  bool _deserialize(std::istream& is, bool verbose);
  bool _serialize(std::ostream& os, bool verbose) const;
};

// ---- the other neighbourhood classes of the family (members as in include/Neigh/*.hpp) ----
struct VectorInt {
  int a[4]; int n;
  VectorInt() : n(0) {}
  bool empty() const { return n <= 0; } int size() const { return n; }
  void clear() { n = 0; }
  void resize(int k) { __CPROVER_assert(0 <= k && k <= 4, "modelled vector capacity"); for (int i = n; i < k && i < 4; i++) a[i] = 0; n = k; }
  void resize(int k, int v) { __CPROVER_assert(0 <= k && k <= 4, "modelled vector capacity"); for (int i = n; i < k && i < 4; i++) a[i] = v; n = k; }
  void push_back(int v) { __CPROVER_assert(n < 4, "modelled vector capacity"); a[n] = v; n = n + 1; }
  int& operator[](int i) { __CPROVER_assert(0 <= i && i < n, "vector index inside the vector"); return a[i]; }
  int operator[](int i) const { __CPROVER_assert(0 <= i && i < n, "vector index inside the vector"); return a[i]; }
};
struct BiTargetCheckBench {
  int _idimBench; double _width;
  static BiTargetCheckBench* create(int idim_bench, double width) { BiTargetCheckBench* b = new BiTargetCheckBench(); b->_idimBench = idim_bench; b->_width = width; return b; }
  double getWidth() const { return _width; }
};
class NeighBench : public ANeigh {
public:
  double _width; BiTargetCheckBench* _biPtBench;
  double getWidth() const { return _width; }
  bool _deserialize(std::istream& is, bool verbose);
  bool _serialize(std::ostream& os, bool verbose) const;
};
class NeighImage : public ANeigh {
public:
  int _skip; VectorInt _imageRadius;
  int getSkip() const { return _skip; }
  int getImageRadius(int idim) const { return _imageRadius[idim]; }
  bool _deserialize(std::istream& is, bool verbose);
  bool _serialize(std::ostream& os, bool verbose) const;
};
class NeighCell : public ANeigh {
public:
  int _nMini;
  int getNMini() const { return _nMini; }
  bool _deserialize(std::istream& is, bool verbose);
  bool _serialize(std::ostream& os, bool verbose) const;
};
