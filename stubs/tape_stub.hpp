// Route X environment shared by the C08 _serialize/_deserialize pairing units: the neutral file is a GHOST TAPE of typed records.
// A scalar record is (kind, value); a vector record (one text line written by _recordWriteVec / read by _recordReadVec) is a header
// (kind VEC, count) followed by its values.  Text formatting (15 digits, NA token, comments) is not modelled.
#define nullptr 0
#define MAX(a,b) (((a) > (b)) ? (a) : (b))
#define MIN(a,b) (((a) < (b)) ? (a) : (b))
#define TEST 1.234e30
#define ITEST (-1234567)
#define DECLARE_UNUSED(...)
#define messerr(...) ((void)0)
#define message(...) ((void)0)
int nondet_int(); bool nondet_bool(); double nondet_double();
#ifndef TAPE_MAX
#define TAPE_MAX 40
#endif
#ifndef VCAP
#define VCAP 4
#endif
struct Tape { double v[TAPE_MAX]; int kind[TAPE_MAX]; int n; int rd; };     /* kind: 0 double, 1 int, 2 vector header (v = count) */
extern Tape g_tape; extern int g_type_mismatch;
struct String { String() {} String(const char*) {} bool empty() const { return true; } };
namespace std { struct ostream {}; struct istream {}; }
static bool FFFF(double v) { return v > 1.0e30 || v != v; }
static bool IFFFF(int v) { return v == ITEST; }
template <typename T> struct VectorT {
  T a[VCAP]; int n;
  VectorT() : n(0) {}
  VectorT(int k) : n(k) { __CPROVER_assert(0 <= k && k <= VCAP, "modelled vector capacity"); for (int i = 0; i < VCAP; i++) a[i] = 0; }
  VectorT(int k, T v) : n(k) { __CPROVER_assert(0 <= k && k <= VCAP, "modelled vector capacity"); for (int i = 0; i < VCAP; i++) a[i] = v; }
  VectorT(const VectorT& o) : n(o.n) { for (int i = 0; i < VCAP; i++) a[i] = o.a[i]; }
  VectorT& operator=(const VectorT& o) { n = o.n; for (int i = 0; i < VCAP; i++) a[i] = o.a[i]; return *this; }
  bool empty() const { return n <= 0; } int size() const { return n; }
  void clear() { n = 0; }
  void resize(int k) { __CPROVER_assert(0 <= k && k <= VCAP, "modelled vector capacity"); for (int i = n; i < k && i < VCAP; i++) a[i] = 0; n = k; }
  void resize(int k, T v) { __CPROVER_assert(0 <= k && k <= VCAP, "modelled vector capacity"); for (int i = n; i < k && i < VCAP; i++) a[i] = v; n = k; }
  void push_back(T v) { __CPROVER_assert(n < VCAP, "modelled vector capacity"); a[n] = v; n = n + 1; }
  T* data() { return a; } const T* data() const { return a; }
  T& operator[](int i) { __CPROVER_assert(0 <= i && i < n, "vector index inside the vector"); return a[i]; }
  const T& operator[](int i) const { __CPROVER_assert(0 <= i && i < n, "vector index inside the vector"); return a[i]; }
};
typedef VectorT<double> VectorDouble;
typedef VectorT<int> VectorInt;
struct VectorString { int n; VectorString() : n(0) {} };          /* unused locals of some readers */
// readers / writers as plain functions (CBMC's front end cannot instantiate the member templates by explicit <T>)
static bool VF_get(double& val, int kind) { if (g_tape.rd >= g_tape.n) return false; if (g_tape.kind[g_tape.rd] != kind) g_type_mismatch = 1; val = g_tape.v[g_tape.rd]; g_tape.rd = g_tape.rd + 1; return true; }
static bool VF_read_int(int& val) { double d; if (!VF_get(d, 1)) return false; val = (int) d; return true; }
static bool VF_read_double(double& val) { return VF_get(val, 0); }
static bool VF_put(double val, int kind) { __CPROVER_assert(g_tape.n < TAPE_MAX, "ghost tape capacity"); g_tape.v[g_tape.n] = val; g_tape.kind[g_tape.n] = kind; g_tape.n = g_tape.n + 1; return true; }
static bool VF_write_int(int val) { return VF_put((double) val, 1); }
static bool VF_write_double(double val) { return VF_put(val, 0); }
static bool VF_writeVec_double(const VectorDouble& vec) { VF_put((double) vec.n, 2); for (int i = 0; i < VCAP; i++) if (i < vec.n) VF_put(vec.a[i], 0); return true; }
static bool VF_writeVec_int(const VectorInt& vec) { VF_put((double) vec.n, 2); for (int i = 0; i < VCAP; i++) if (i < vec.n) VF_put((double) vec.a[i], 1); return true; }
// _recordReadVec(is, title, vec, nvalues): one line; fails unless it holds exactly nvalues values (unit C09.recordReadVec)
static bool VF_readVec_double(VectorDouble& vec, int nvalues)
{ double c; if (!VF_get(c, 2)) return false; if ((int) c != nvalues) return false; __CPROVER_assert(0 <= nvalues && nvalues <= VCAP, "modelled vector capacity");
  vec.n = nvalues; for (int i = 0; i < VCAP; i++) if (i < nvalues) { if (!VF_get(vec.a[i], 0)) return false; } return true; }
static bool VF_readVec_int(VectorInt& vec, int nvalues)
{ double c; if (!VF_get(c, 2)) return false; if ((int) c != nvalues) return false; __CPROVER_assert(0 <= nvalues && nvalues <= VCAP, "modelled vector capacity");
  vec.n = nvalues; for (int i = 0; i < VCAP; i++) if (i < nvalues) { double d; if (!VF_get(d, 1)) return false; vec.a[i] = (int) d; } return true; }
// _tableWrite(os, title, ntab, tab) / _tableRead(is, title, ntab, tab): ntab values, one per line
static bool VF_tableWrite(int ntab, const VectorDouble& tab) { __CPROVER_assert(ntab <= tab.n, "table writer reads inside the vector"); for (int i = 0; i < VCAP; i++) if (i < ntab) VF_put(tab.a[i], 0); return true; }
static bool VF_tableRead(int ntab, double* tab) { for (int i = 0; i < VCAP; i++) if (i < ntab) { if (!VF_get(tab[i], 0)) return false; } return true; }
static bool _commentWrite(std::ostream&, const String&) { return true; }
#define SAME(x, y) ((x) == (y) || ((x) != (x) && (y) != (y)))
#define TAPE_RESET() do { g_tape.n = 0; g_tape.rd = 0; g_type_mismatch = 0; } while (0)
#define TAPE_CONSUMED() (g_tape.rd == g_tape.n && !g_type_mismatch)
// list of objects (std::vector<T> of small capacity); the C cast works around CBMC's C++ front end refusing 'return a[i]' as const T&
#define VF_LIST(Name, T, CAP) struct Name { T a[CAP]; int n; Name() : n(0) {} void clear() { n = 0; } int size() const { return n; } \
  void push_back(const T& p) { __CPROVER_assert(n < CAP, "modelled list capacity"); a[n] = p; n = n + 1; } \
  const T& operator[](int i) const { __CPROVER_assert(0 <= i && i < n, "list index inside the list"); T* q = (T*) (a + i); return *q; } \
  T& operator[](int i) { __CPROVER_assert(0 <= i && i < n, "list index inside the list"); return a[i]; } }
// public wrappers of ASerializable (ASerializable.cpp: serialize() returns _serialize(); deserialize() returns _deserialize())
#define VF_SERIAL_WRAPPERS bool serialize(std::ostream& os, bool verbose) const { return _serialize(os, verbose); } \
  bool deserialize(std::istream& is, bool verbose) { return _deserialize(is, verbose); } \
  bool _serialize(std::ostream& os, bool verbose) const; bool _deserialize(std::istream& is, bool verbose)
