// Route X environment for class Rotation: matrices are ghosts carrying (id, transposed); only the pairing matters.
#define nullptr 0
int nondet_int();
bool nondet_bool();
extern int vf_thrown;
#define my_throw(msg) do { vf_thrown = 1; return 1; } while (0)
struct String {};
struct AStringFormat {};
struct StdVec { int tag; };                                  // std::vector<double>: ghost tag of its content
struct VectorDouble {
  int n; StdVec v;
  VectorDouble() : n(0) {} VectorDouble(int k) : n(k) {} VectorDouble(int k, double) : n(k) {}
  bool empty() const { return n <= 0; } unsigned int size() const { return (unsigned int) n; }
  void resize(int k, double = 0.) { n = k; }
  double& operator[](int) { static double c; return c; }
  const double* data() const { return 0; } double* data() { return 0; }
};
struct MatrixSquareGeneral {
  int id; bool tr; int nd; bool ident;
  MatrixSquareGeneral(int n = 0) : id(nondet_int()), tr(false), nd(n), ident(false) {}
  bool empty() const { return nd <= 0; } int size() const { return nd * nd; }
  bool isSameSize(const MatrixSquareGeneral& m) const { return nd == m.nd; }
  VectorDouble getValues() const { return VectorDouble(nd * nd); }
  void setValues(const VectorDouble&) { id = nondet_int(); tr = false; ident = nondet_bool(); }
  void reset(int n, int) { nd = n; id = nondet_int(); tr = false; ident = false; }
  void setIdentity() { id = 0; tr = false; ident = true; }       // identity: its own transpose (ghost id 0)
  void transposeInPlace() { if (!ident) tr = !tr; }
  bool isIdentity() const { return ident; }
  // ghost record of which matrix was applied last (checked by the harness)
  void prodMatVecInPlace(const StdVec& in, StdVec& out, bool transpose = false) const;
};
extern int g_applied_id; extern bool g_applied_tr; extern int g_copy;
inline void MatrixSquareGeneral::prodMatVecInPlace(const StdVec& in, StdVec& out, bool transpose) const
{ g_applied_id = id; g_applied_tr = transpose ? !tr : tr; out.tag = nondet_int(); }
struct GH {
  static void rotationGetAnglesInPlace(const VectorDouble&, VectorDouble&) {}
  static void rotationGetAnglesInPlace(int, const double*, double*) {}
  static void rotationMatrixInPlace(int, const VectorDouble&, VectorDouble&) {}
};
struct VH { static void fill(VectorDouble&, double) {} };
class Rotation {
public:
  void resetFromSpaceDimension(unsigned int ndim);
  int setMatrixDirect(const MatrixSquareGeneral& rotmat);
  int setMatrixDirectVec(const VectorDouble& rotmat);
  int setAngles(const VectorDouble& angles);
  void setIdentity();
  void rotateDirect(const StdVec& inv, StdVec& outv) const;
  void rotateInverse(const StdVec& inv, StdVec& outv) const;
  static bool isMatrixRotation(const MatrixSquareGeneral&, bool) { return nondet_bool(); }
  void _recopy(const Rotation& r);
  void _directToInverse();
  void _inverseToDirect();
  void _checkRotForIdentity();
  unsigned int _nDim; bool _flagRot; VectorDouble _angles; MatrixSquareGeneral _rotMat; MatrixSquareGeneral _rotInv;
};
