// Route X environment for the record readers of ASerializable: the stream is NONDETERMINISTIC — good()/eof() and the extracted
// tokens are arbitrary, which over-approximates every byte string, truncation point and token corruption.
#define nullptr 0
#define messerr(...) ((void)0)
#define STRING_NA "NA"
int nondet_int();
bool nondet_bool();
double nondet_double();
struct String {
  int tag;                                   // ghost identity of the content
  bool is_empty; bool is_na; bool is_comment;
  String() : tag(0), is_empty(true), is_na(false), is_comment(false) {}
  String(const char*) : tag(-1), is_empty(false), is_na(true), is_comment(false) {}      // only STRING_NA is ever built from a literal here
  bool empty() const { return is_empty; }
  void clear() { is_empty = true; is_na = false; is_comment = false; }
  char operator[](int i) const { __CPROVER_assert(!is_empty && i == 0, "String index inside the string"); return is_comment ? '#' : 'x'; }
  bool operator==(const String& o) const { return o.tag == -1 ? is_na : nondet_bool(); }
  const char* c_str() const { return ""; }
};
inline String nondet_token() { String s; s.tag = nondet_int(); s.is_empty = nondet_bool(); s.is_na = !s.is_empty && nondet_bool(); s.is_comment = !s.is_empty && !s.is_na && nondet_bool(); return s; }
inline String trim(const String& s) { String r = s; if (!r.is_empty && nondet_bool()) r.clear(); return r; }
extern int g_fuel;     // bound of this stand-in: the stream delivers at most g_fuel further "good" answers
inline bool vf_good() { if (g_fuel <= 0) return false; g_fuel = g_fuel - 1; return nondet_bool(); }
namespace std {
  struct istream {
    bool good() const { return vf_good(); }
    bool eof() const { return nondet_bool(); }
    istream& operator>>(String& w) { w = nondet_token(); return *this; }
  };
  struct stringstream {
    stringstream(const String&) {}
    bool good() const { return vf_good(); }
    bool eof() const { return nondet_bool(); }
    stringstream& operator>>(String& w) { w = nondet_token(); return *this; }
    stringstream& operator>>(double& v) { v = nondet_double(); return *this; }
    stringstream& operator>>(int& v) { v = nondet_int(); return *this; }
  };
}
inline void gslSafeGetline(std::istream&, String& line) { line = nondet_token(); }
template <typename T> T getNA() { return (T) 1234567; }        // value of the NA token is irrelevant here
// VectorT<T>: ghost size and capacity; every element access asserts the std::vector precondition
struct VecIter {                                   // VectorDouble::iterator: ghost position inside [0, limit)
  int pos; int limit;
  double& operator*() { __CPROVER_assert(0 <= pos && pos < limit, "iterator write stays inside the destination range"); static double cell; return cell; }
  VecIter& operator++(int) { pos = pos + 1; return *this; }
};
#ifndef VF_ALLOC_HOOK
#define VF_ALLOC_HOOK(k)
#endif
extern int g_writes;        // ghost: number of element accesses through operator[] (stores, in the readers)
template <typename T> struct VectorT {
  int n; bool cleared;
  VectorT() : n(0), cleared(false) {}
  VectorT(int k) : n(k), cleared(false) { __CPROVER_assert(0 <= k, "container size taken from the file is validated before allocation (not negative; no int overflow in its computation)"); VF_ALLOC_HOOK(k); }
  void push_back(const T&) { n = n + 1; g_writes = g_writes + 1; }
  VecIter begin() { VecIter it; it.pos = 0; it.limit = n; return it; }
  void resize(int k) { __CPROVER_assert(k >= 0, "resize(n): n is not negative"); VF_ALLOC_HOOK(k); n = k; cleared = false; }
  void clear() { n = 0; cleared = true; }
  int size() const { return n; }
  T& operator[](int i) { __CPROVER_assert(0 <= i && i < n, "VectorT::operator[]: index inside the vector (no write past the buffer)"); g_writes = g_writes + 1; static T cell; return cell; }
  const T& operator[](int i) const { __CPROVER_assert(0 <= i && i < n, "VectorT::operator[] const: index inside the vector (no read past the buffer)"); static T cell; return cell; }
  bool empty() const { return n <= 0; }
};
typedef VectorT<double> VectorDouble;
typedef VectorT<int> VectorInt;
class ASerializable {
public:
  template <typename T> static bool _recordRead(std::istream& is, const String& title, T& val);
  template <typename T> static bool _recordReadVec(std::istream& is, const String& title, VectorT<T>& vec, int nvalues);
  template <typename T> static bool _recordReadVecInPlace(std::istream& is, const String& title, VecIter& it, int nvalues);
  static bool _tableRead(std::istream& is, const String& string, int ntab, double* tab);
};
// ---- additions for Db::_deserialize ------------------------------------------------------------------------------------------
typedef VectorT<String> VectorString;
struct ELoc { int v; ELoc() : v(-1) {} };
struct ELoadBy { int v; };
extern ELoadBy VF_SAMPLE;     /* ELoadBy::SAMPLE (CBMC's front end segfaults on the static member) */
namespace std {
  template <typename T> struct vector {
    int n; vector() : n(0) {}
    void push_back(const T&) { n = n + 1; }
    T& operator[](int i) { __CPROVER_assert(0 <= i && i < n, "std::vector::operator[]: index inside the vector"); static T cell; return cell; }
  };
}
inline int locatorIdentify(const String&, ELoc*, int* inum, int* mult) { *inum = nondet_int(); *mult = nondet_int(); return nondet_bool() ? 1 : 0; }
#define INT_MAX 2147483647
